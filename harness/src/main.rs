//! a10verif: property-based verification harness for a10 (see /verif/DESIGN.md).

fn main() {
    a10verif::cli_main();
}
