//! C14, `ReadBuf` part: the buffer-trait laws for a pool buffer, bare and
//! under a limit. (ReadBuf's own editing API is C15; here it is looked at the
//! way a10's I/O paths look at it: through `Buf` and `BufMut`.)

use a10::io::{Buf, BufMut, ReadBuf, ReadBufPool};
use proptest::prelude::*;
use serde::{Deserialize, Serialize};

use super::c15::{Script, ScriptPtr, data_byte, drive};
use crate::common::Ctx;
use crate::interp::world::{RingCfg, World};
use crate::sim::{self, EnterInfo, SimRing};
use crate::track;

#[derive(Copy, Clone, Debug, Serialize, Deserialize, PartialEq, Eq)]
pub enum RbOp {
    /// `truncate` to a fraction of the length.
    Truncate(u16),
    /// Write a fraction of the exposed spare bytes through the `parts_mut`
    /// pointer, then `set_init`.
    SetInit(u16),
    /// The trait's `extend_from_slice` with this many bytes.
    Extend(u16),
    /// ReadBuf's own `extend_from_slice` (all or nothing) with this many
    /// bytes: whatever it answers, what the buffer exposes afterwards has to
    /// stay inside its slot.
    ExtendOwn(u16),
    /// Wrap in a `LimitedBuf` with this limit (scaled around the spare
    /// capacity), optionally `set_init` a fraction of what it exposes, unwrap.
    Limited { limit: u16, init: Option<u16> },
}

#[derive(Clone, Debug, Serialize, Deserialize)]
pub struct RbCase {
    pub pool_log2: u8,
    pub buf_size: u16,
    /// Other buffers taken first (varies the slot).
    pub skip: u8,
    /// Fraction of the buffer the kernel fills.
    pub fill: u16,
    pub ops: Vec<RbOp>,
}

pub fn strategy() -> impl Strategy<Value = RbCase> {
    let op = prop_oneof![
        3 => any::<u16>().prop_map(RbOp::Truncate),
        3 => any::<u16>().prop_map(RbOp::SetInit),
        2 => (0u16..600).prop_map(RbOp::Extend),
        2 => (0u16..600).prop_map(RbOp::ExtendOwn),
        3 => (any::<u16>(), proptest::option::of(any::<u16>())).prop_map(|(limit, init)| RbOp::Limited { limit, init }),
    ];
    (1u8..=3, prop_oneof![1 => 1u16..8, 4 => 1u16..=512], 0u8..4, prop_oneof![1 => Just(0u16), 1 => Just(u16::MAX), 6 => any::<u16>()], proptest::collection::vec(op, 0..10)).prop_map(|(pool_log2, buf_size, skip, fill, ops)| RbCase { pool_log2, buf_size, skip, fill, ops })
}

const CANARY: u8 = 0xC4;

/// Returns the classes of the case, or `Err("<signature>: <message>")`.
pub fn run(case: &RbCase, ctx: &mut Ctx) -> Result<Vec<&'static str>, String> {
    let mut world = match World::new(&RingCfg::simple(3)) {
        Ok(w) => w,
        Err(e) => {
            ctx.infra(e);
            return Ok(vec![]);
        }
    };
    let fd = world.new_fd();
    let afd = world.fd(fd);
    let pool_size: u16 = 1 << case.pool_log2.clamp(1, 3);
    let cap = case.buf_size.max(1) as usize;
    let pool = {
        let _s = track::scope(track::TAG_A10);
        ReadBufPool::new(world.sq(), pool_size, cap as u32)
    };
    let pool = match pool {
        Ok(p) => p,
        Err(e) => {
            ctx.infra(format!("ReadBufPool::new failed: {e}"));
            return Ok(vec![]);
        }
    };
    let offered = sim::sim().the_ring().offered_buffers_all();
    if offered.len() != pool_size as usize {
        ctx.infra("pool did not offer all its buffers");
        return Ok(vec![]);
    }
    let base = offered.iter().map(|e| e.addr as usize).min().unwrap();
    unsafe { std::ptr::write_bytes(base as *mut u8, CANARY, pool_size as usize * cap) };

    let mut classes: Vec<&'static str> = Vec::new();
    // An unfilled ReadBuf exposes no memory at all.
    {
        let mut empty = pool.get();
        let (p, l) = unsafe { BufMut::parts_mut(&mut empty) };
        let (q, m) = unsafe { Buf::parts(&empty) };
        if l != 0 || m != 0 || BufMut::spare_capacity(&empty) != 0 || BufMut::has_spare_capacity(&empty) || Buf::len(&empty) != 0 {
            return Err(format!("readbuf-unfilled: a ReadBuf without a buffer exposes parts_mut ({p:?}, {l}), parts ({q:?}, {m}), spare_capacity {}", BufMut::spare_capacity(&empty)));
        }
    }

    let mut script = Script { frac: 0, seed: 1, done: Vec::new(), errors: Vec::new() };
    let ptr = ScriptPtr(&mut script as *mut Script);
    sim::sim().enter_hook = Some(Box::new(move |ring: &mut SimRing, info: &EnterInfo| {
        let ptr = &ptr;
        let script = unsafe { &mut *ptr.0 };
        for s in &info.consumed {
            script.handle(ring, *s);
        }
    }));
    let result = (|| -> Result<(), String> {
        let mut others: Vec<(ReadBuf, usize, Vec<u8>)> = Vec::new();
        for k in 0..(case.skip as usize).min(pool_size as usize - 1) {
            script.frac = 40_000;
            script.seed = 100 + k;
            let before = script.done.len();
            match drive(&mut world, { let _s = track::scope(track::TAG_A10); afd.read(pool.get()) }) {
                Ok(Ok(b)) => {
                    let (_, data, addr) = script.done[before].clone();
                    others.push((b, addr, data));
                }
                _ => {
                    ctx.infra("setup read failed");
                    return Ok(());
                }
            }
        }
        // A limit around a ReadBuf that has no buffer yet: whatever the
        // kernel is asked to do with it, no more than `limit` bytes may arrive.
        if case.fill % 3 == 0 {
            let lim = (case.fill as usize / 3) % (cap + 2);
            script.frac = u16::MAX;
            script.seed = 77;
            let before = script.done.len();
            let r = drive(&mut world, { let _s = track::scope(track::TAG_A10); afd.read(BufMut::limit(pool.get(), lim)) });
            let delivered: usize = script.done[before..].iter().map(|d| d.1.len()).sum();
            if delivered > lim {
                return Err(format!("limit:unfilled-readbuf: a read into LimitedBuf(ReadBuf without a buffer, limit {lim}) let the kernel deliver {delivered} bytes"));
            }
            if let Ok(Ok(limited)) = r {
                let inner = limited.into_inner();
                if inner.len() > lim {
                    return Err(format!("limit:unfilled-readbuf: a read into LimitedBuf(ReadBuf without a buffer, limit {lim}) returned {} bytes", inner.len()));
                }
                let _s = track::scope(track::TAG_A10);
                drop(inner);
            }
            ctx.class("limited-unfilled-readbuf");
        }
        script.frac = case.fill;
        script.seed = 9;
        let before = script.done.len();
        let mut buf = match drive(&mut world, { let _s = track::scope(track::TAG_A10); afd.read(pool.get()) }) {
            Ok(Ok(b)) => b,
            _ => {
                ctx.infra("read failed");
                return Ok(());
            }
        };
        let (_, data, slot) = script.done[before].clone();
        let mut shadow = data.clone();

        // The laws, checked after every step.
        let check = |buf: &mut ReadBuf, shadow: &[u8], what: &str| -> Result<(), String> {
            let len = shadow.len();
            let (p, l) = unsafe { Buf::parts(&*buf) };
            if l as usize != len || Buf::len(&*buf) != len || Buf::is_empty(&*buf) != (len == 0) {
                return Err(format!("readbuf-len: after {what}: Buf::parts length {l}, len() {}, expected {len}", Buf::len(&*buf)));
            }
            if len > 0 && p.addr() != slot {
                return Err(format!("readbuf-bounds: after {what}: Buf::parts points at {:#x}, the buffer's slot starts at {slot:#x}", p.addr()));
            }
            if len > 0 && unsafe { std::slice::from_raw_parts(p, len) } != shadow {
                return Err(format!("readbuf-content: after {what}: the {len} bytes behind Buf::parts are not the buffer's contents"));
            }
            let (q, m) = unsafe { BufMut::parts_mut(buf) };
            let spare = cap - len;
            if m as usize != spare || BufMut::spare_capacity(&*buf) as usize != spare || BufMut::has_spare_capacity(&*buf) != (spare > 0) {
                return Err(format!("readbuf-spare: after {what}: parts_mut length {m}, spare_capacity {}, has_spare_capacity {}, expected {spare} spare bytes (capacity {cap}, length {len})", BufMut::spare_capacity(&*buf), BufMut::has_spare_capacity(&*buf)));
            }
            if q.addr() != slot + len {
                return Err(format!("readbuf-bounds: after {what}: parts_mut points at {:#x} (+{m}), the spare part of the buffer's slot {slot:#x}+{cap} starts at {:#x} (length {len})", q.addr(), slot + len));
            }
            // Other slots untouched.
            for s in 0..pool_size as usize {
                let addr = base + s * cap;
                if addr == slot {
                    continue;
                }
                let bytes = unsafe { std::slice::from_raw_parts(addr as *const u8, cap) };
                let ok = match others.iter().find(|(_, a, _)| *a == addr) {
                    Some((_, _, d)) => bytes[..d.len()] == d[..] && bytes[d.len()..].iter().all(|b| *b == CANARY),
                    None => bytes.iter().all(|b| *b == CANARY),
                };
                if !ok {
                    return Err(format!("readbuf-neighbour: after {what}: bytes of another slot of the pool changed"));
                }
            }
            Ok(())
        };
        check(&mut buf, &shadow, "the read")?;
        for (k, op) in case.ops.iter().enumerate() {
            let what = format!("step {k} {op:?}");
            match *op {
                RbOp::Truncate(f) => {
                    let n = ((f as usize) * (shadow.len() + 1)) >> 16;
                    buf.truncate(n);
                    shadow.truncate(n);
                    classes.push("truncated");
                }
                RbOp::SetInit(f) => {
                    let (q, m) = unsafe { BufMut::parts_mut(&mut buf) };
                    let spare = cap - shadow.len();
                    if m as usize > spare || (m > 0 && (q.addr() < slot || q.addr() + m as usize > slot + cap)) {
                        return Err(format!("readbuf-bounds: {what}: parts_mut ({:#x}, {m}) is not inside the buffer's slot {slot:#x}+{cap}", q.addr()));
                    }
                    let n = ((f as usize) * (m as usize + 1)) >> 16;
                    let bytes: Vec<u8> = (0..n).map(|j| data_byte(400 + k, j)).collect();
                    unsafe {
                        std::ptr::copy_nonoverlapping(bytes.as_ptr(), q, n);
                        BufMut::set_init(&mut buf, n);
                    }
                    shadow.extend_from_slice(&bytes);
                    if n > 0 {
                        classes.push("set-init");
                    }
                }
                RbOp::Extend(l) => {
                    let bytes: Vec<u8> = (0..l as usize).map(|j| data_byte(500 + k, j)).collect();
                    let spare = cap - shadow.len();
                    let copied = BufMut::extend_from_slice(&mut buf, &bytes);
                    if copied != bytes.len().min(spare) {
                        return Err(format!("readbuf-extend: {what}: BufMut::extend_from_slice({}) returned {copied}, expected {} ({spare} spare bytes)", bytes.len(), bytes.len().min(spare)));
                    }
                    shadow.extend_from_slice(&bytes[..copied]);
                    if copied == spare && spare > 0 {
                        classes.push("filled-exactly");
                    }
                }
                RbOp::ExtendOwn(l) => {
                    let bytes: Vec<u8> = (0..l as usize).map(|j| data_byte(700 + k, j)).collect();
                    let spare = cap - shadow.len();
                    let r = crate::runner::catch(|| buf.extend_from_slice(&bytes));
                    match r {
                        Ok(Ok(())) if bytes.len() <= spare => shadow.extend_from_slice(&bytes),
                        Ok(Err(())) if bytes.len() > spare => {
                            classes.push("growth-refused");
                        }
                        Ok(Ok(())) => return Err(format!("readbuf-bounds: {what}: {} bytes were appended to a buffer with {spare} spare bytes (capacity {cap}): it now claims {} bytes, beyond its slot", bytes.len(), Buf::len(&buf))),
                        Ok(Err(())) => return Err(format!("readbuf-extend: {what}: appending {} bytes to a buffer with {spare} spare bytes was refused", bytes.len())),
                        Err((msg, loc)) => return Err(format!("readbuf-extend: {what}: extend_from_slice panicked at {loc}: {msg}")),
                    }
                }
                RbOp::Limited { limit, init } => {
                    let spare = cap - shadow.len();
                    // Limits around the spare capacity: 0 ..= spare + 2.
                    let lim = ((limit as usize) * (spare + 3)) >> 16;
                    let mut limited = BufMut::limit(buf, lim);
                    let (q, m) = unsafe { BufMut::parts_mut(&mut limited) };
                    let want = lim.min(spare);
                    if m as usize != want || BufMut::spare_capacity(&limited) as usize != want || BufMut::has_spare_capacity(&limited) != (want > 0) {
                        return Err(format!("readbuf-limit: {what}: a ReadBuf with {spare} spare bytes under a limit of {lim} exposes {m} bytes (spare_capacity {}, has_spare_capacity {})", BufMut::spare_capacity(&limited), BufMut::has_spare_capacity(&limited)));
                    }
                    if want > 0 && q.addr() != slot + shadow.len() {
                        return Err(format!("readbuf-bounds: {what}: limited parts_mut points at {:#x}, expected {:#x}", q.addr(), slot + shadow.len()));
                    }
                    if let Some(f) = init {
                        let n = ((f as usize) * (want + 1)) >> 16;
                        let bytes: Vec<u8> = (0..n).map(|j| data_byte(600 + k, j)).collect();
                        unsafe {
                            std::ptr::copy_nonoverlapping(bytes.as_ptr(), q, n);
                            BufMut::set_init(&mut limited, n);
                        }
                        shadow.extend_from_slice(&bytes);
                        let left = BufMut::spare_capacity(&limited) as usize;
                        if left != (lim - n).min(cap - shadow.len()) {
                            return Err(format!("readbuf-limit: {what}: after set_init({n}) under a limit of {lim} the limited buffer exposes {left} bytes, expected {}", (lim - n).min(cap - shadow.len())));
                        }
                    }
                    buf = limited.into_inner();
                    classes.push(if lim <= spare { "limit-inside-spare" } else { "limit-beyond-spare" });
                }
            }
            check(&mut buf, &shadow, &what)?;
        }
        {
            let _s = track::scope(track::TAG_A10);
            drop(buf);
            drop(others);
        }
        Ok(())
    })();
    sim::sim().enter_hook = None;
    {
        let _s = track::scope(track::TAG_A10);
        drop(pool);
    }
    drop(world);
    result?;
    classes.sort();
    classes.dedup();
    Ok(classes)
}
