//! a10verif: property-based verification harness for a10 (see /verif/DESIGN.md).

#![allow(dead_code, unused_imports)]

mod abi;
mod common;
mod strat;
mod interp;
mod props;
mod runner;
mod sched;
mod shims;
mod sim;
mod track;

use std::path::Path;

use common::Tier;
use runner::Property;

#[global_allocator]
static ALLOC: track::Tracking = track::Tracking;

/// One-time process set-up for workers and replays.
pub fn init_process(with_sim: bool) {
    runner::install_panic_hook();
    track::register_static_image();
    if with_sim {
        sim::install();
        interp::warmup();
    }
}

macro_rules! dispatch {
    ($id:expr, $f:ident $(, $arg:expr)*) => {
        match $id {
            "C01" => $f::<props::hist::C01>($($arg),*),
            "C02" => $f::<props::hist::C02>($($arg),*),
            "C03" => $f::<props::hist::C03>($($arg),*),
            "C04" => $f::<props::c04::C04>($($arg),*),
            "C17" => $f::<props::c17::C17>($($arg),*),
            "C18" => $f::<props::c18::C18>($($arg),*),
            "C16" => $f::<props::c16::C16>($($arg),*),
            "C10" => $f::<props::c10::C10>($($arg),*),
            "C15" => $f::<props::c15::C15>($($arg),*),
            "C07" => $f::<props::c07::C07>($($arg),*),
            "C08" => $f::<props::c08::C08>($($arg),*),
            "C11" => $f::<props::c11::C11>($($arg),*),
            "C12" => $f::<props::hist::C12>($($arg),*),
            "C14" => $f::<props::c14::C14>($($arg),*),
            "C06" => $f::<props::hist::C06>($($arg),*),
            "C09" => $f::<props::hist::C09>($($arg),*),
            "C05" => $f::<props::c05::C05>($($arg),*),
            "C13" => $f::<props::c13::C13>($($arg),*),
            other => {
                eprintln!("unknown property {other}");
                2
            }
        }
    };
}

fn parent<P: Property>(tier: Tier) -> i32 {
    runner::parent::<P>(tier)
}
fn worker<P: Property>(tier: Tier, seed: u64, shard: u32, of: u32, out: &Path) -> i32 {
    runner::worker::<P>(tier, seed, shard, of, out)
}
fn replay<P: Property>(path: &Path) -> i32 {
    runner::replay::<P>(path)
}

fn main() {
    let args: Vec<String> = std::env::args().collect();
    let code = match args.get(1).map(String::as_str) {
        Some("run") if args.len() >= 4 => {
            let Some(tier) = Tier::parse(&args[3]) else {
                eprintln!("bad tier");
                std::process::exit(2)
            };
            dispatch!(args[2].as_str(), parent, tier)
        }
        Some("worker") if args.len() >= 8 => {
            let tier = Tier::parse(&args[3]).unwrap();
            let shard: u32 = args[4].parse().unwrap();
            let of: u32 = args[5].parse().unwrap();
            let seed: u64 = args[6].parse().unwrap();
            dispatch!(args[2].as_str(), worker, tier, seed, shard, of, Path::new(&args[7]))
        }
        Some("replay") if args.len() >= 4 => dispatch!(args[2].as_str(), replay, Path::new(&args[3])),
        _ => {
            eprintln!("usage: a10verif run <Cxx> <quick|thorough> | replay <Cxx> <file>");
            2
        }
    };
    std::process::exit(code);
}
