//! The a10 objects of one case: ring, queue handles, descriptors.

use std::time::Duration;

use a10::{AsyncFd, Ring, SubmissionQueue};
use serde::{Deserialize, Serialize};

use crate::sim::{self, Layout};
use crate::track;

/// Where a ring's free-running counters start (K1: any value is legal).
#[derive(Copy, Clone, Debug, Serialize, Deserialize, PartialEq, Eq)]
pub enum Start {
    Zero,
    /// 2^31 - k
    Half(u8),
    /// 2^32 - k
    Wrap(u8),
    Arbitrary(u32),
}

impl Start {
    pub fn value(self) -> u32 {
        match self {
            Start::Zero => 0,
            Start::Half(k) => (1u32 << 31).wrapping_sub(k as u32),
            Start::Wrap(k) => 0u32.wrapping_sub(k as u32),
            Start::Arbitrary(v) => v,
        }
    }
    pub fn near_wrap(self) -> bool {
        matches!(self, Start::Wrap(_)) || matches!(self, Start::Arbitrary(v) if v > u32::MAX - 512)
    }
}

#[derive(Clone, Debug, Serialize, Deserialize)]
pub struct RingCfg {
    /// log2 of the submission queue size (0..=6).
    pub sq_log2: u8,
    /// log2 of cq_entries / sq_entries (None = kernel default 2x).
    pub cq_log2: Option<u8>,
    pub sq_start: Start,
    pub cq_start: Start,
    pub sqpoll: bool,
    pub direct_slots: u16,
    pub alt_layout: bool,
    /// single_issuer + defer_task_run (completions produced by task work are
    /// only posted when the Ring's thread enters the kernel for events).
    #[serde(default)]
    pub defer_taskrun: bool,
    /// Config::with_maximum_queue_size(): the largest queues the kernel
    /// grants (32768 submission entries), sq_log2 is ignored.
    #[serde(default)]
    pub max_size: bool,
    /// Ask for one completion entry less than the power of two the model
    /// works with (the kernel rounds the request up: granted != requested).
    #[serde(default)]
    pub cq_odd: bool,
}

impl RingCfg {
    pub fn sq_entries(&self) -> u32 {
        if self.max_size {
            return 32768;
        }
        1 << self.sq_log2.min(8)
    }
    pub fn cq_entries(&self) -> u32 {
        match self.cq_log2 {
            // The kernel requires cq >= sq.
            Some(l) => (1u32 << l.min(10)).max(self.sq_entries()),
            None => 2 * self.sq_entries(),
        }
    }
    pub fn simple(sq_log2: u8) -> RingCfg {
        RingCfg { sq_log2, cq_log2: None, sq_start: Start::Zero, cq_start: Start::Zero, sqpoll: false, direct_slots: 0, alt_layout: false, defer_taskrun: false, max_size: false, cq_odd: false }
    }
}

pub struct World {
    pub ring: Option<Ring>,
    pub sq: Option<SubmissionQueue>,
    pub ring_fd: i32,
    /// Leaked boxes so futures can borrow them for 'static; freed explicitly.
    pub fds: Vec<Option<*mut AsyncFd>>,
    pub mark: u64,
    /// The ring was built with single_issuer() (bound to this thread).
    pub cfg_single_issuer: bool,
    /// A `Signals` handle (real signalfd, its reads are simulated), created
    /// on first use; dropped together with the descriptor.
    pub signals: Option<*mut a10::process::Signals>,
    /// Descriptor 0 was converted into a direct descriptor: its index in the
    /// ring's table.
    pub direct_index: Option<i32>,
}

/// Begin a case: reset simulator, shims, tracker epoch.
pub fn case_begin() -> u64 {
    track::flush_delayed();
    sim::sim().reset();
    crate::shims::reset();
    track::take_events();
    let m = track::mark();
    LAST_MARK.store(m, std::sync::atomic::Ordering::Relaxed);
    m
}

static LAST_MARK: std::sync::atomic::AtomicU64 = std::sync::atomic::AtomicU64::new(0);

/// The tracker mark of the case begun last.
pub fn last_mark() -> u64 {
    LAST_MARK.load(std::sync::atomic::Ordering::Relaxed)
}

impl World {
    pub fn new(cfg: &RingCfg) -> Result<World, String> {
        let mark = case_begin();
        {
            let mut s = sim::sim();
            s.cfg.sq_start = cfg.sq_start.value();
            s.cfg.cq_start = cfg.cq_start.value();
            s.cfg.layout = if cfg.alt_layout { Layout::ALTERNATE } else { Layout::KERNEL_6_18 };
        }
        let ring = {
            let _scope = track::scope(track::TAG_A10);
            let mut config = if cfg.max_size { Ring::config().with_maximum_queue_size() } else { Ring::config().with_submission_queue_size(cfg.sq_entries()) };
            if cfg.cq_log2.is_some() && !cfg.max_size {
                let n = cfg.cq_entries();
                // n - 1 rounds up to n (unless that would fall below the
                // submission queue size, which the kernel refuses).
                let ask = if cfg.cq_odd && n >= 4 && n - 1 > n / 2 && n - 1 >= cfg.sq_entries() { n - 1 } else { n };
                config = config.with_completion_queue_size(ask);
            }
            if cfg.sqpoll {
                config = config.with_kernel_thread().with_idle_timeout(Duration::from_millis(10));
            }
            if cfg.defer_taskrun && !cfg.sqpoll {
                config = config.single_issuer().defer_task_run();
            }
            if cfg.direct_slots > 0 {
                config = config.with_direct_descriptors(cfg.direct_slots as u32);
            }
            config.build()
        };
        let ring = ring.map_err(|e| format!("Ring build failed: {e}"))?;
        let sq = {
            let _scope = track::scope(track::TAG_A10);
            ring.sq()
        };
        let ring_fd = sim::sim().rings.iter().find(|r| !r.closed).map(|r| r.fd).ok_or("no simulated ring after build")?;
        Ok(World { ring: Some(ring), sq: Some(sq), ring_fd, fds: Vec::new(), mark, cfg_single_issuer: cfg.defer_taskrun && !cfg.sqpoll, signals: None, direct_index: None })
    }

    pub fn sq(&self) -> SubmissionQueue {
        let _scope = track::scope(track::TAG_A10);
        self.sq.as_ref().expect("sq handle dropped").clone()
    }

    /// Create an AsyncFd over a fresh simulator-issued descriptor.
    pub fn new_fd(&mut self) -> usize {
        let raw = sim::sim().issue_fd();
        let sq = self.sq();
        let fd = {
            let _scope = track::scope(track::TAG_A10);
            Box::into_raw(Box::new(unsafe { AsyncFd::from_raw_fd(raw, sq) }))
        };
        self.fds.push(Some(fd));
        self.fds.len() - 1
    }

    /// Borrow descriptor `i` for as long as the caller likes (the interpreter
    /// enforces what the borrow checker would).
    pub fn fd(&self, i: usize) -> &'static AsyncFd {
        unsafe { &*self.fds[i].expect("fd already dropped") }
    }

    /// Convert descriptor `i` into a direct descriptor (to_direct_descriptor
    /// against the simulated kernel); the regular descriptor is dropped and
    /// its close flushed. Set-up only: nothing may be in flight.
    pub fn make_fd_direct(&mut self, i: usize) -> Result<(), String> {
        use std::future::Future;
        use std::task::{Context, Poll};
        let slot_cell: std::sync::Arc<std::sync::Mutex<Option<i32>>> = Default::default();
        let cell = slot_cell.clone();
        sim::sim().enter_hook = Some(Box::new(move |ring: &mut sim::SimRing, info: &sim::EnterInfo| {
            for serial in &info.consumed {
                let Some(req) = ring.req(*serial).cloned() else { continue };
                if req.done || req.sqe.opcode != crate::abi::OP_FILES_UPDATE {
                    continue;
                }
                match ring.alloc_direct() {
                    Some(slot) => {
                        if let Some(r) = req.regions.iter().find(|r| r.what == "fds") {
                            sim::regions::write_region(r, 0, &(slot as i32).to_ne_bytes());
                        }
                        *cell.lock().unwrap() = Some(slot as i32);
                        ring.complete(*serial, 1, 0, false);
                    }
                    None => {
                        ring.complete(*serial, -libc::ENFILE, 0, false);
                    }
                }
            }
        }));
        let waker = crate::interp::waker::WakerHandle::new();
        let afd = self.fd(i);
        let result = {
            let mut fut = {
                let _s = track::scope(track::TAG_A10);
                Box::pin(afd.to_direct_descriptor())
            };
            let mut out = Err("to_direct_descriptor did not complete".to_string());
            for _ in 0..20 {
                let mut cx = Context::from_waker(&waker.waker);
                let polled = {
                    let _s = track::scope(track::TAG_A10);
                    fut.as_mut().poll(&mut cx)
                };
                match polled {
                    Poll::Ready(Ok(d)) => {
                        out = Ok(d);
                        break;
                    }
                    Poll::Ready(Err(e)) => {
                        out = Err(format!("to_direct_descriptor failed: {e}"));
                        break;
                    }
                    Poll::Pending => {
                        for _ in 0..2 {
                            let _ = self.poll_ring(Some(Duration::ZERO));
                        }
                    }
                }
            }
            let _s = track::scope(track::TAG_A10);
            drop(fut);
            out
        };
        sim::sim().enter_hook = None;
        let direct = result?;
        let slot = slot_cell.lock().unwrap().ok_or("no direct slot allocated")?;
        // Replace the regular descriptor (its close goes through the ring).
        if let Some(ptr) = self.fds[i].take() {
            let _scope = track::scope(track::TAG_A10);
            drop(unsafe { Box::from_raw(ptr) });
        }
        let boxed = {
            let _scope = track::scope(track::TAG_A10);
            Box::into_raw(Box::new(direct))
        };
        self.fds[i] = Some(boxed);
        for _ in 0..4 {
            let _ = self.poll_ring(Some(Duration::ZERO));
            if sim::sim().ring(self.ring_fd).map(|r| r.sq_pending()).unwrap_or(0) == 0 {
                break;
            }
        }
        self.direct_index = Some(slot);
        Ok(())
    }

    pub fn drop_fd(&mut self, i: usize) {
        if let Some(ptr) = self.fds[i].take() {
            let _scope = track::scope(track::TAG_A10);
            drop(unsafe { Box::from_raw(ptr) });
        }
        self.drop_signals();
    }

    /// The `Signals` handle of this world (SIGUSR2, blocked on this thread
    /// from then on, which is harmless here: nobody sends it).
    pub fn signals(&mut self) -> &'static a10::process::Signals {
        if self.signals.is_none() {
            let sq = self.sq();
            let _scope = track::scope(track::TAG_A10);
            let s = a10::process::Signals::from_signals(sq, [a10::process::Signal::USER2]).expect("signalfd");
            self.signals = Some(Box::into_raw(Box::new(s)));
        }
        unsafe { &*self.signals.unwrap() }
    }

    pub fn take_signals(&mut self) -> Option<Box<a10::process::Signals>> {
        self.signals.take().map(|p| unsafe { Box::from_raw(p) })
    }

    pub fn drop_signals(&mut self) {
        let _scope = track::scope(track::TAG_A10);
        drop(self.take_signals());
    }

    pub fn poll_ring(&mut self, timeout: Option<Duration>) -> std::io::Result<()> {
        let _scope = track::scope(track::TAG_A10);
        self.ring.as_mut().expect("ring dropped").poll(timeout)
    }

    pub fn drop_ring(&mut self) {
        let _scope = track::scope(track::TAG_A10);
        self.ring = None;
    }

    pub fn drop_sq(&mut self) {
        let _scope = track::scope(track::TAG_A10);
        self.sq = None;
    }

    /// Shared ring words as the simulator sees them.
    pub fn sq_tail(&self) -> u32 {
        sim::sim().ring(self.ring_fd).map(|r| r.sq_tail()).unwrap_or(0)
    }
}

impl Drop for World {
    fn drop(&mut self) {
        let _scope = track::scope(track::TAG_A10);
        drop(self.take_signals());
        for i in 0..self.fds.len() {
            if let Some(ptr) = self.fds[i].take() {
                drop(unsafe { Box::from_raw(ptr) });
            }
        }
        self.ring = None;
        self.sq = None;
    }
}
