//! C11 — SubmissionQueue::wake never loses a wake-up. Decided under the
//! baton scheduler (E4).

use std::sync::atomic::{AtomicBool, AtomicU64, AtomicUsize, Ordering};
use std::sync::{Arc, Mutex};
use std::time::Duration;

use a10::Ring;
use proptest::prelude::*;
use serde::{Deserialize, Serialize};

use crate::common::{Ctx, Tier};
use crate::interp::world::case_begin;
use crate::runner::{Property, catch};
use crate::sched::{self, Reason};
use crate::sim;
use crate::track;

#[derive(Copy, Clone, Debug, Serialize, Deserialize, PartialEq, Eq)]
pub enum Mode {
    Default,
    Sqpoll,
    SingleIssuer,
}

#[derive(Clone, Debug, Serialize, Deserialize)]
pub struct Case {
    pub mode: Mode,
    /// Non-blocking polls of the poller before the blocking one.
    pub zero_polls: u8,
    /// wake() calls per waker thread (1..=3 threads, 1..=2 calls).
    pub wakers: Vec<u8>,
    /// Submission queue (2 entries) already full of queued entries.
    pub full_queue: bool,
    /// A completion is already in the queue when the k-th non-blocking poll
    /// starts, so that poll never enters the kernel.
    #[serde(default)]
    pub prefill: Vec<bool>,
    /// Instead of blocking, the poller drops the Ring after its non-blocking
    /// polls while the wakers are (possibly) inside wake().
    #[serde(default)]
    pub drop_ring: bool,
    /// Per waker thread: operations it queues (polls once: an unsubmitted
    /// entry that the kernel, once it has it, keeps in flight) right before
    /// its first wake(), so that the wake message is not at the head of the
    /// submission queue. Default rings only.
    #[serde(default)]
    pub queued_ahead: Vec<u8>,
    /// Kernel-thread rings: the kernel thread is already asleep
    /// (IORING_SQ_NEED_WAKEUP set) when the queued entries of `full_queue`
    /// are added and the threads start.
    #[serde(default)]
    pub sqpoll_asleep: bool,
    pub tape: Vec<u16>,
    /// Priority schedule (few preemptions, long runs) instead of the tape.
    #[serde(default)]
    pub pct: Option<sched::Pct>,
}

struct SendRing(Ring);
unsafe impl Send for SendRing {}

struct SendFut(std::pin::Pin<Box<a10::fs::Truncate<'static>>>);
unsafe impl Send for SendFut {}

const SQPOLL_TOKEN: u64 = 0x5109_0011;

pub struct C11;

impl Property for C11 {
    const ID: &'static str = "C11";
    type Case = Case;

    fn strategy(_tier: Tier) -> BoxedStrategy<Case> {
        (
            prop_oneof![3 => Just(Mode::Default), 2 => Just(Mode::Sqpoll), 2 => Just(Mode::SingleIssuer)],
            0u8..3,
            proptest::collection::vec(1u8..=2, 1..=3),
            proptest::bool::weighted(0.3),
            proptest::collection::vec(proptest::bool::weighted(0.4), 2),
            proptest::bool::weighted(0.2),
            proptest::collection::vec(any::<u16>(), 0..160),
            crate::strat::maybe_pct(3, 150),
            proptest::collection::vec(prop_oneof![3 => Just(0u8), 2 => Just(1u8), 1 => Just(2u8)], 3),
            proptest::bool::weighted(0.4),
        )
            .prop_map(|(mode, zero_polls, wakers, full_queue, prefill, drop_ring, tape, pct, queued_ahead, sqpoll_asleep)| Case { mode, zero_polls, wakers, full_queue, prefill, drop_ring, queued_ahead, sqpoll_asleep, tape, pct })
            .boxed()
    }

    fn cases(tier: Tier) -> u32 {
        tier.pick(20_000, 2_000_000)
    }

    fn run(case: &Case, ctx: &mut Ctx) {
        run_case(case, ctx);
    }

    fn rule() -> &'static str {
        "proptest programs run under a baton scheduler (one runnable thread; scheduling points at a10's lock/try_lock, kernel-shared loads, tail/head stores, the polling-state swap and fetch_or, and every simulated system call) following a generated choice tape (round-robin afterwards): a poller thread runs Ring::poll(Some(0)) 0..2 times (optionally with a completion already queued, so that the poll never enters the kernel) and then Ring::poll(None) with nothing in flight; 1..3 waker threads call SubmissionQueue::wake() once or twice; rings: default, kernel-thread (a kernel actor consumes, idles with NEED_WAKEUP and is woken by IORING_ENTER_SQ_WAKEUP) and single-issuer (synchronous register path); optionally the submission queue is full of queued entries; optionally the poller drops the Ring instead of blocking, while wake() calls are in progress (every wake() must return). Oracle over the scheduler's total order: if some wake() call started after the poller's previous Ring::poll returned (for a previous poll that never entered the kernel: after it started; or there was none), the blocking poll must return; the violating state is the poller parked in io_uring_enter without timeout with no runnable thread. Then, sequentially: wake() after the Ring is dropped must neither panic nor make a system call. Non-trivial = the wake's state change fell between the poller announcing that it polls and its return from the kernel, or between two polls (a context switch inside a10 on both threads). Distinct = (mode, classes, 16-bit case hash)."
    }

    fn assumptions() -> Vec<&'static str> {
        vec!["interleavings are explored under sequential consistency at the hook points only; weak-memory reorderings of the two-flag handshake are outside what this decides", "simulated MSG_RING / REGISTER_SEND_MSG_RING post the wake-up completion to the target ring (K9)"]
    }
}

fn run_case(case: &Case, ctx: &mut Ctx) {
    let mark = case_begin();
    let ring = {
        let _s = track::scope(track::TAG_A10);
        let mut c = Ring::config().with_submission_queue_size(2);
        match case.mode {
            Mode::Default => {}
            Mode::Sqpoll => c = c.with_kernel_thread(),
            // (With and without deferred task running: both are single-issuer
            // rings and must use the synchronous message path.)
            Mode::SingleIssuer => c = if case.wakers.first().copied().unwrap_or(0) % 2 == 0 { c.single_issuer() } else { c.single_issuer().defer_task_run() },
        }
        c.build()
    };
    let ring = match ring {
        Ok(r) => r,
        Err(e) => {
            ctx.infra(format!("build failed: {e}"));
            return;
        }
    };
    let sq = ring.sq();
    let ring_fd = sim::sim().rings.iter().find(|r| !r.closed).map(|r| r.fd).unwrap();
    let mut classes: Vec<&'static str> = Vec::new();

    // Optionally fill the submission queue with queued (unsubmitted) entries.
    let raw = sim::sim().issue_fd();
    let afd: &'static a10::AsyncFd = Box::leak(Box::new(unsafe { a10::AsyncFd::from_raw_fd(raw, sq.clone()) }));
    let mut primed = Vec::new();
    if case.mode == Mode::Sqpoll && case.sqpoll_asleep {
        let mut s = sim::sim();
        if let Some(idx) = s.ring_index(ring_fd) {
            if s.sqpoll_go_idle(idx) {
                classes.push("kernel-thread-asleep-at-start");
            }
        }
    }
    if case.full_queue {
        for k in 0..2u64 {
            let mut f = Box::pin(afd.truncate(77 + k));
            let w = std::task::Waker::noop();
            let mut cx = std::task::Context::from_waker(w);
            let _ = std::future::Future::poll(f.as_mut(), &mut cx);
            primed.push(f);
        }
        classes.push("full-queue");
    }

    // Sequence numbers in the scheduler's total order.
    let seq = Arc::new(AtomicU64::new(1));
    let last_poll_return = Arc::new(AtomicU64::new(0));
    let wake_starts: Arc<Mutex<Vec<u64>>> = Arc::new(Mutex::new(Vec::new()));
    let poller_done = Arc::new(AtomicBool::new(false));
    let fast_path_polls = Arc::new(AtomicUsize::new(0));
    let wakers_done = Arc::new(AtomicUsize::new(0));
    let wakers_exited = Arc::new(AtomicUsize::new(0));
    let errors: Arc<Mutex<Vec<String>>> = Arc::new(Mutex::new(Vec::new()));
    let nwakers = case.wakers.len().clamp(1, 3);
    let queued_ops: Arc<Mutex<Vec<SendFut>>> = Arc::new(Mutex::new(Vec::new()));
    if case.mode != Mode::SingleIssuer && !case.full_queue && case.queued_ahead.iter().take(nwakers).any(|a| *a > 0) {
        classes.push("entries-ahead-of-wake-message");
    }

    let ring_slot = Arc::new(Mutex::new(Some(SendRing(ring))));
    let mut threads: Vec<Box<dyn FnOnce() + Send>> = Vec::new();
    {
        // Poller.
        let ring_slot = ring_slot.clone();
        let seq = seq.clone();
        let last = last_poll_return.clone();
        let done = poller_done.clone();
        let errors = errors.clone();
        let zero = case.zero_polls.min(2);
        let prefill = case.prefill.clone();
        let fast_path = fast_path_polls.clone();
        let drop_ring = case.drop_ring && case.mode != Mode::Sqpoll;
        threads.push(Box::new(move || {
            let mut ring = ring_slot.lock().unwrap().take().unwrap();
            sim::bind_submitter_here(ring_fd);
            for k in 0..=zero {
                if drop_ring && k == zero {
                    // Drop the Ring while wake() calls may be in progress.
                    let r = {
                        let _s = track::scope(track::TAG_A10);
                        catch(move || drop(ring))
                    };
                    if let Err((m, l)) = r {
                        errors.lock().unwrap().push(format!("dropping the Ring panicked at {l}: {m}"));
                    }
                    done.store(true, Ordering::SeqCst);
                    return;
                }
                let timeout = if k < zero { Some(Duration::ZERO) } else { None };
                if timeout.is_some() && prefill.get(k as usize).copied().unwrap_or(false) {
                    // The kernel has posted something already (an ignored
                    // cancel acknowledgement): this poll will not enter.
                    sched::point(sched::Kind::Syscall);
                    let mut s = sim::sim();
                    if let Some(r) = s.ring(ring_fd) {
                        r.post_raw(crate::abi::Cqe { user_data: 2, res: -libc::ENOENT, flags: 0 }, 0);
                    }
                }
                let started = seq.fetch_add(1, Ordering::SeqCst);
                let events_at_start = sim::events_len();
                let r = {
                    let _s = track::scope(track::TAG_A10);
                    catch(|| ring.0.poll(timeout))
                };
                match r {
                    Err((m, l)) => errors.lock().unwrap().push(format!("Ring::poll panicked at {l}: {m}")),
                    Ok(Err(e)) => errors.lock().unwrap().push(format!("Ring::poll failed: {e}")),
                    Ok(Ok(())) => {}
                }
                if timeout.is_none() && !sched::ACTIVE.load(Ordering::SeqCst) {
                    // Returned because the run was aborted (stuck), not woken.
                    *ring_slot.lock().unwrap() = Some(ring);
                    return;
                }
                // From when on is this poll no longer one a wake() could be
                // meant for? A poll that entered the kernel to wait: from its
                // return. A poll that never entered (completions were already
                // there) was never blocked: from its start.
                let entered = sim::events_since(events_at_start.min(sim::events_len())).iter().any(|e| matches!(e, sim::SimEvent::Enter { fd, flags, .. } if *fd == ring_fd && flags & crate::abi::ENTER_GETEVENTS != 0));
                let returned = seq.fetch_add(1, Ordering::SeqCst);
                if entered {
                    last.store(returned, Ordering::SeqCst);
                } else {
                    last.store(started, Ordering::SeqCst);
                    fast_path.fetch_add(1, Ordering::SeqCst);
                }
            }
            done.store(true, Ordering::SeqCst);
            *ring_slot.lock().unwrap() = Some(ring);
        }));
    }
    for t in 0..nwakers {
        let sq = sq.clone();
        let seq = seq.clone();
        let starts = wake_starts.clone();
        let n = case.wakers[t].clamp(1, 2);
        let wd = wakers_done.clone();
        let exited = wakers_exited.clone();
        let errors = errors.clone();
        let ahead = if case.mode != Mode::SingleIssuer && !case.full_queue { case.queued_ahead.get(t).copied().unwrap_or(0).min(2) } else { 0 };
        let queued = queued_ops.clone();
        threads.push(Box::new(move || {
            for k in 0..ahead {
                // An operation of this thread, queued and not submitted.
                let mut f = Box::pin(afd.truncate(177 + 10 * t as u64 + k as u64));
                let w = std::task::Waker::noop();
                let mut cx = std::task::Context::from_waker(w);
                let r = {
                    let _s = track::scope(track::TAG_A10);
                    catch(|| std::future::Future::poll(f.as_mut(), &mut cx).is_ready())
                };
                if let Err((m, l)) = r {
                    errors.lock().unwrap().push(format!("queueing an operation panicked at {l}: {m}"));
                }
                queued.lock().unwrap().push(SendFut(f));
            }
            for _ in 0..n {
                sched::point(sched::Kind::Syscall);
                starts.lock().unwrap().push(seq.fetch_add(1, Ordering::SeqCst));
                let r = {
                    let _s = track::scope(track::TAG_A10);
                    catch(|| sq.wake())
                };
                if let Err((m, l)) = r {
                    if m.contains(sched::SPIN_AFTER_ABORT) {
                        // wake() was still going round long after the run was
                        // cut short: judged by the over-budget rule below.
                        break;
                    }
                    errors.lock().unwrap().push(format!("wake() panicked at {l}: {m}"));
                }
            }
            if !sched::syscalls_poisoned() {
                // (Finished on its own, not because the run was cut short.)
                wd.fetch_add(1, Ordering::SeqCst);
            }
            exited.fetch_add(1, Ordering::SeqCst);
            drop(sq);
        }));
    }
    if case.mode == Mode::Sqpoll {
        // Kernel thread actor.
        let wd = wakers_done.clone();
        let exited = wakers_exited.clone();
        let done = poller_done.clone();
        threads.push(Box::new(move || {
            let mut idle_turns = 0;
            loop {
                sched::point(sched::Kind::Syscall);
                let active = sched::ACTIVE.load(Ordering::SeqCst);
                // The kernel thread lives as long as anybody may still need
                // it (a wake() that found the queue full loops until its
                // submission is consumed), also after the scheduled part of
                // the run is over.
                if done.load(Ordering::SeqCst) && wd.load(Ordering::SeqCst) == nwakers {
                    break;
                }
                if !active && (wd.load(Ordering::SeqCst) == nwakers || exited.load(Ordering::SeqCst) == nwakers) {
                    break;
                }
                // Asleep (NEED_WAKEUP set): nothing is consumed until an
                // enter with IORING_ENTER_SQ_WAKEUP.
                let asleep = active && {
                    let mut s = sim::sim();
                    s.ring_index(ring_fd).is_some_and(|idx| s.rings[idx].sqpoll_idle)
                };
                if asleep {
                    let _ = sched::park(Reason::Token(SQPOLL_TOKEN));
                    continue;
                }
                let consumed = {
                    let mut s = sim::sim();
                    match s.ring_index(ring_fd) {
                        Some(idx) => {
                            if s.rings[idx].sqpoll_idle && !active {
                                s.sqpoll_wake(idx);
                            }
                            s.sqpoll_consume(idx).len()
                        }
                        None => 0,
                    }
                };
                if !active {
                    std::thread::yield_now();
                    continue;
                }
                if consumed == 0 {
                    idle_turns += 1;
                    let went_idle = {
                        let mut s = sim::sim();
                        match s.ring_index(ring_fd) {
                            Some(idx) => s.sqpoll_go_idle(idx),
                            None => false,
                        }
                    };
                    if went_idle {
                        // Sleeps until an enter with IORING_ENTER_SQ_WAKEUP.
                        let _ = sched::park(Reason::Token(SQPOLL_TOKEN));
                    } else if wd.load(Ordering::SeqCst) == nwakers && idle_turns > 50 {
                        break;
                    }
                } else {
                    idle_turns = 0;
                }
            }
        }));
        sim::set_sqpoll_wake_token(Some(SQPOLL_TOKEN));
    }

    let outcome = sched::run_either(&case.pct, &case.tape, 30_000, false, threads);
    sim::set_sqpoll_wake_token(None);
    let ring = ring_slot.lock().unwrap().take().map(|r| r.0);
    sim::bind_submitter_here(ring_fd);

    if outcome.over_budget {
        if case.drop_ring && case.mode != Mode::Sqpoll && poller_done.load(Ordering::SeqCst) && wakers_done.load(Ordering::SeqCst) < nwakers {
            ctx.violation("C11:wake-never-returns", format!("the Ring was dropped while wake() was being called on another thread; {} of {nwakers} waker threads had not returned from wake() after 30000 scheduling steps (mode {:?})", nwakers - wakers_done.load(Ordering::SeqCst), case.mode));
        } else if !case.drop_ring && !poller_done.load(Ordering::SeqCst) && wakers_done.load(Ordering::SeqCst) < nwakers {
            // The Ring is alive, the poller blocked, and a wake() call is
            // still going round after 30000 scheduling steps: it never
            // returns (and never delivers).
            ctx.violation("C11:wake-never-returns:ring-alive", format!("{} of {nwakers} waker threads had not returned from wake() after 30000 scheduling steps while the poller was blocked in Ring::poll (mode {:?})", nwakers - wakers_done.load(Ordering::SeqCst), case.mode));
        } else {
            ctx.infra("scheduler step budget exceeded");
        }
    }
    if case.drop_ring {
        classes.push("ring-dropped-while-waking");
    }
    for p in &outcome.panics {
        ctx.violation("C11:panic", format!("thread panicked: {p}"));
    }
    for e in errors.lock().unwrap().drain(..) {
        ctx.violation("C11:error", e);
    }
    let finished = poller_done.load(Ordering::SeqCst);
    let starts = wake_starts.lock().unwrap().clone();
    // The previous poll's return: the one before the blocking poll.
    let prev_return = last_poll_return.load(Ordering::SeqCst);
    if !finished && !ctx.failed() {
        // The poller is stuck in the blocking poll. `prev_return` is then the
        // return of the poll before it (or 0 if there was none), unless the
        // aborted blocking poll itself bumped it: recompute conservatively.
        let qualifying = starts.iter().filter(|s| **s > prev_return).count();
        if qualifying > 0 {
            ctx.violation(
                "C11:lost-wakeup",
                format!("{} wake() call(s) started after the poller's previous Ring::poll had returned (or, for a poll that found completions waiting and never entered the kernel, after it had started), yet the blocking Ring::poll never returned (parked: {:?}; mode {:?})", qualifying, outcome.parked_at_end, case.mode),
            );
        } else {
            classes.push("no-wake-after-last-poll");
        }
    }
    if outcome.interesting_switches >= 2 {
        classes.push("switch-inside-a10");
    }
    if finished {
        classes.push("poller-returned");
    }
    if fast_path_polls.load(Ordering::SeqCst) > 0 {
        classes.push("poll-without-entering");
    }

    // Sequential: wake() after the Ring is dropped is harmless.
    {
        let _s = track::scope(track::TAG_A10);
        drop(primed);
        drop(std::mem::take(&mut *queued_ops.lock().unwrap()));
        let _ = catch(|| drop(ring));
    }
    let before = sim::events_len();
    let r = {
        let _s = track::scope(track::TAG_A10);
        catch(|| sq.wake())
    };
    if let Err((m, l)) = r {
        ctx.violation("C11:panic:wake-after-drop", format!("wake() after the Ring was dropped panicked at {l}: {m}"));
    }
    if sim::events_len() != before {
        ctx.violation("C11:wake-after-drop-syscall", "wake() after the Ring was dropped made a system call");
    }
    {
        let _s = track::scope(track::TAG_A10);
        drop(unsafe { Box::from_raw(afd as *const a10::AsyncFd as *mut a10::AsyncFd) });
        drop(sq);
    }
    track::forget_since(mark);
    classes.sort();
    classes.dedup();
    for c in &classes {
        ctx.class(c);
    }
    ctx.class(&format!("{:?}", case.mode));
    ctx.nontrivial = classes.contains(&"switch-inside-a10") && classes.contains(&"poller-returned");
    ctx.fingerprint = format!("{:?}|{}|{:x}", case.mode, classes.join("|"), crate::common::fnv(&format!("{case:?}")) & 0xffff);
}

