//! C04 — submission queue integrity (C04a: sequential histories with
//! over-subscription and counter wrap-around).

use proptest::prelude::*;

use crate::common::{Ctx, Tier};
use crate::strat;
use crate::interp::{self, History, Oracles};
use crate::runner::Property;

pub struct C04;

impl Property for C04 {
    const ID: &'static str = "C04";
    type Case = History;

    fn strategy(_tier: Tier) -> BoxedStrategy<History> {
        (strat::ring_cfg(3), proptest::collection::vec(strat::step(strat::kind_basic().boxed(), 1, 1), 0..80)).prop_map(|(cfg, steps)| History { cfg, steps, teardown: None }).boxed()
    }

    fn cases(tier: Tier) -> u32 {
        tier.pick(6_000, 400_000)
    }

    fn run(case: &History, ctx: &mut Ctx) {
        let oracles = Oracles { c04: true, ..Oracles::default() };
        let feats = interp::execute(case, oracles, ctx);
        ctx.nontrivial = feats.contains("queue-full") || feats.contains("sq-wrapped");
        for f in &feats {
            if !f.starts_with("k:") {
                ctx.class(f);
            }
        }
        ctx.fingerprint = super::fingerprint(case, &feats);
    }

    fn rule() -> &'static str {
        "proptest histories over rings of 1..8 submission entries with generated start counters (0, 2^31-k, 2^32-k, arbitrary): operations are started and polled with deliberate over-subscription, the kernel consumes on Ring::poll; oracle: multiset and order of consumed SQEs == accepted submissions, each byte-equal to an independently written encoding, queue-full => Pending without publishing, room => accepted. Non-trivial = the history hit queue-full or the SQ counters crossed 2^32. Distinct = distinct (ring class, feature set) fingerprints."
    }

    fn assumptions() -> Vec<&'static str> {
        vec![
            "simulated kernel obeys DESIGN.md section 3 (K1-K12)",
            "interleavings are explored under sequential consistency only (C04b scheduled sub-check); the sufficiency of the fence/release ordering on weak memory is not decided",
        ]
    }
}
