#!/bin/sh
# Run checks against seeded changes WITHOUT touching /repo or /verif/harness/target:
# a scratch worktree of /repo plus a copy of the harness whose path dependency
# points at it, built in a scratch target directory. For triage while the
# harness is being edited; the matrix in DESIGN.md is confirmed with
# seedrun.sh (apply to /repo, run the registered commands, undo).
# usage: seedrun_iso.sh <tier> <seed-id>[:<check>,<check>...] ...
#   default check = the seed's own property (first three characters of the id)
tier=$1; shift
ISO=${ISO:-/var/tmp/iso}
mkdir -p $ISO/root/evidence /tmp/seedruns
if [ ! -d $ISO/repo ]; then
  git -C /repo worktree add --detach $ISO/repo HEAD >/dev/null 2>&1 || exit 2
fi
git -C $ISO/repo checkout -q --detach "$(git -C /repo rev-parse HEAD)" || exit 2
git -C $ISO/repo checkout -q -- . || exit 2
rsync -a --delete --exclude target --exclude 'fuzz/target' --exclude 'fuzz/corpus' --exclude '*.log' /verif/harness/ $ISO/harness/
sed -i "s#path = \"/repo\"#path = \"$ISO/repo\"#" $ISO/harness/Cargo.toml
cp /verif/KNOWN_FINDINGS.txt $ISO/root/
rm -rf $ISO/root/replays; mkdir -p $ISO/root/replays; cp /verif/replays/*.json $ISO/root/replays/
export CARGO_NET_OFFLINE=true RUSTFLAGS="--cfg a10_verif" VERIF_ROOT=$ISO/root
for spec in "$@"; do
  seed=${spec%%:*}
  checks=$(echo "$seed" | cut -c1-3)
  case "$spec" in *:*) checks=$(echo "${spec#*:}" | tr ',' ' ') ;; esac
  git -C $ISO/repo checkout -q -- . || exit 2
  git -C $ISO/repo apply /verif/seeded/$seed/patch.diff || { echo "seed=$seed patch does not apply"; continue; }
  if ! (cd $ISO/harness && cargo build --release --offline --target-dir $ISO/target >$ISO/build.log 2>&1); then
    echo "seed=$seed BUILD FAILED"; tail -5 $ISO/build.log; continue
  fi
  for c in $checks; do
    rm -rf $ISO/root/replays/found
    start=$(date +%s)
    $ISO/target/release/a10verif run "$c" "$tier" > /tmp/seedruns/$seed-$c-$tier.out 2>&1
    rc=$?
    end=$(date +%s)
    echo "seed=$seed check=$c tier=$tier rc=$rc secs=$((end-start)) $(grep -m1 '^VIOLATION' /tmp/seedruns/$seed-$c-$tier.out)"
    grep -m2 '^violation:' /tmp/seedruns/$seed-$c-$tier.out | cut -c1-300
  done
done
git -C $ISO/repo checkout -q -- .
