//! Decoding of the user-memory regions an SQE designates (C01 table) and the
//! K6 discipline: the simulator touches user memory only through these
//! regions, only after the tracker confirms where they live.

use crate::abi::{self, Sqe};
use crate::track::{self, Residence};

use super::SimRing;

#[derive(Clone, Debug)]
pub struct Region {
    pub addr: usize,
    pub len: usize,
    /// The kernel writes into the region (else it only reads it).
    pub write: bool,
    pub what: &'static str,
    /// Residence when the request was consumed.
    pub residence: Residence,
}

/// Hold ids: memory regions of request `serial` are held under `serial`, the
/// a10 operation state block (user_data pointer) under `serial | STATE_HOLD`,
/// provided-buffer registrations under `PBUF_HOLD | (ring fd << 16) | bgid`.
pub const STATE_HOLD: u64 = 1 << 62;
pub const PBUF_HOLD: u64 = 1 << 61;

fn region(addr: u64, len: usize, write: bool, what: &'static str) -> Option<Region> {
    if addr == 0 || len == 0 {
        return None;
    }
    let addr = addr as usize;
    Some(Region { addr, len, write, what, residence: track::residence(addr, len) })
}

/// Read `T` from user memory if (and only if) it lies in known memory.
pub fn read_user<T: Copy>(addr: usize) -> Option<T> {
    if addr == 0 {
        return None;
    }
    match track::residence(addr, size_of::<T>()) {
        Residence::Unknown => None,
        _ => Some(unsafe { (addr as *const T).read_unaligned() }),
    }
}

/// Length (including the terminating NUL) of the C string at `addr`, bounded
/// by the block it lives in.
pub fn cstr_len(addr: usize) -> Option<usize> {
    if addr == 0 {
        return None;
    }
    let max = match track::lookup(addr) {
        Some(block) => block.addr + block.size - addr,
        None => match track::residence(addr, 1) {
            Residence::Immortal => 4096,
            _ => return None,
        },
    };
    for i in 0..max {
        // For immortal memory we can't know the bound; only scan while the
        // byte is still in immortal memory.
        if i >= 1 && max == 4096 && track::residence(addr + i, 1) != Residence::Immortal {
            return None;
        }
        if unsafe { ((addr + i) as *const u8).read() } == 0 {
            return Some(i + 1);
        }
    }
    None
}

fn push(out: &mut Vec<Region>, r: Option<Region>) {
    if let Some(r) = r {
        out.push(r);
    }
}

fn iovecs(out: &mut Vec<Region>, array: u64, n: usize, write: bool) {
    push(out, region(array, n * 16, false, "iovec-array"));
    for i in 0..n {
        if let Some(iov) = read_user::<libc::iovec>(array as usize + i * 16) {
            push(out, region(iov.iov_base as u64, iov.iov_len, write, "iovec-target"));
        }
    }
}

fn msghdr(out: &mut Vec<Region>, addr: u64, recv: bool) {
    push(out, region(addr, size_of::<libc::msghdr>(), recv, "msghdr"));
    if let Some(msg) = read_user::<libc::msghdr>(addr as usize) {
        push(out, region(msg.msg_name as u64, msg.msg_namelen as usize, recv, "msg-name"));
        iovecs(out, msg.msg_iov as u64, msg.msg_iovlen, recv);
        push(out, region(msg.msg_control as u64, msg.msg_controllen, recv, "msg-control"));
    }
}

/// All user memory the request described by `sqe` hands to the kernel.
pub fn decode(ring: &SimRing, sqe: &Sqe) -> Vec<Region> {
    let mut out = Vec::new();
    let select = sqe.flags & abi::IOSQE_BUFFER_SELECT != 0;
    match sqe.opcode {
        abi::OP_READ | abi::OP_RECV | abi::OP_READ_MULTISHOT => {
            if !select {
                push(&mut out, region(sqe.addr, sqe.len as usize, true, "buffer"));
            }
        }
        abi::OP_WRITE => push(&mut out, region(sqe.addr, sqe.len as usize, false, "buffer")),
        abi::OP_SEND | abi::OP_SEND_ZC => {
            push(&mut out, region(sqe.addr, sqe.len as usize, false, "buffer"));
            let addr_len = (sqe.file_index & 0xffff) as usize;
            push(&mut out, region(sqe.off, addr_len, false, "send-address"));
        }
        abi::OP_READV => iovecs(&mut out, sqe.addr, sqe.len as usize, true),
        abi::OP_WRITEV => iovecs(&mut out, sqe.addr, sqe.len as usize, false),
        abi::OP_SENDMSG | abi::OP_SENDMSG_ZC => msghdr(&mut out, sqe.addr, false),
        abi::OP_RECVMSG => msghdr(&mut out, sqe.addr, true),
        abi::OP_ACCEPT => {
            push(&mut out, region(sqe.off, 4, true, "accept-addrlen"));
            if let Some(len) = read_user::<u32>(sqe.off as usize) {
                push(&mut out, region(sqe.addr, len as usize, true, "accept-address"));
            }
        }
        abi::OP_CONNECT => push(&mut out, region(sqe.addr, sqe.off as usize, false, "address")),
        abi::OP_BIND => push(&mut out, region(sqe.addr, sqe.off as usize, false, "address")),
        abi::OP_OPENAT | abi::OP_MKDIRAT | abi::OP_UNLINKAT => {
            let len = cstr_len(sqe.addr as usize).unwrap_or(1);
            push(&mut out, region(sqe.addr, len, false, "path"));
        }
        abi::OP_RENAMEAT => {
            let len = cstr_len(sqe.addr as usize).unwrap_or(1);
            push(&mut out, region(sqe.addr, len, false, "path"));
            let len = cstr_len(sqe.off as usize).unwrap_or(1);
            push(&mut out, region(sqe.off, len, false, "path2"));
        }
        abi::OP_STATX => {
            let len = cstr_len(sqe.addr as usize).unwrap_or(1);
            push(&mut out, region(sqe.addr, len, false, "path"));
            push(&mut out, region(sqe.off, size_of::<libc::statx>(), true, "statx"));
        }
        abi::OP_WAITID => push(&mut out, region(sqe.off, size_of::<libc::siginfo_t>(), true, "siginfo")),
        abi::OP_FILES_UPDATE => push(&mut out, region(sqe.addr, sqe.len as usize * 4, true, "fds")),
        abi::OP_PIPE => push(&mut out, region(sqe.addr, 8, true, "fds")),
        abi::OP_URING_CMD => {
            let cmd = sqe.off as u32;
            match cmd {
                abi::SOCKET_URING_OP_GETSOCKOPT => {
                    push(&mut out, region(sqe.addr3, sqe.file_index as usize, true, "optval"));
                }
                abi::SOCKET_URING_OP_SETSOCKOPT => {
                    push(&mut out, region(sqe.addr3, sqe.file_index as usize, false, "optval"));
                }
                abi::SOCKET_URING_OP_GETSOCKNAME => {
                    push(&mut out, region(sqe.addr3, 4, true, "name-addrlen"));
                    if let Some(len) = read_user::<u32>(sqe.addr3 as usize) {
                        push(&mut out, region(sqe.addr, len as usize, true, "name-address"));
                    }
                }
                _ => {}
            }
        }
        _ => {}
    }
    let _ = ring;
    out
}

/// Register the holds of request `serial`.
pub fn take_hold(serial: u64, region: &Region, sqe: &Sqe) {
    match track::hold(serial, region.addr, region.len, region.what) {
        Residence::Heap(_) | Residence::Immortal => {}
        Residence::Unknown => super::violation(
            &format!("C01:region-not-owned:{}:{}", abi::opcode_name(sqe.opcode), region.what),
            format!(
                "request {} ({}) designates {} at {:#x}+{} which is neither in a live heap block nor static memory",
                serial,
                abi::opcode_name(sqe.opcode),
                region.what,
                region.addr,
                region.len
            ),
        ),
    }
}

/// Check that `region` still lives where it lived at consumption (K6),
/// before the simulator touches it.
pub fn still_valid(region: &Region) -> bool {
    match region.residence {
        Residence::Unknown => false,
        r => track::residence(region.addr, region.len) == r,
    }
}

/// Write `data` into a write-region of a request (the kernel filling a
/// buffer); refuses (returns false) if the memory is no longer the memory the
/// request designated.
pub fn write_region(region: &Region, offset: usize, data: &[u8]) -> bool {
    if !region.write || offset + data.len() > region.len || !still_valid(region) {
        return false;
    }
    unsafe { std::ptr::copy_nonoverlapping(data.as_ptr(), (region.addr + offset) as *mut u8, data.len()) };
    true
}

/// Read from a region of a request.
pub fn read_region(region: &Region, offset: usize, len: usize) -> Option<Vec<u8>> {
    if offset + len > region.len || !still_valid(region) {
        return None;
    }
    let mut v = vec![0u8; len];
    unsafe { std::ptr::copy_nonoverlapping((region.addr + offset) as *const u8, v.as_mut_ptr(), len) };
    Some(v)
}
