#!/usr/bin/env python3
"""Run a command with default signal dispositions in its own session.

The a10 test-suite spawns `sleep` children and signals them; when the calling
shell runs jobs with SIGINT/SIGQUIT ignored (non-interactive background jobs)
those tests hang.  This wrapper resets dispositions and the signal mask.

usage: runtests.py <logfile> <cmd...>
"""
import os
import signal
import subprocess
import sys


def pre():
    for s in (signal.SIGINT, signal.SIGQUIT, signal.SIGTERM, signal.SIGHUP, signal.SIGPIPE,
              signal.SIGCHLD, signal.SIGUSR1, signal.SIGUSR2, signal.SIGALRM):
        signal.signal(s, signal.SIG_DFL)
    signal.pthread_sigmask(signal.SIG_SETMASK, [])
    os.setsid()


def main():
    out = open(sys.argv[1], "w")
    p = subprocess.run(sys.argv[2:], stdout=out, stderr=subprocess.STDOUT,
                       stdin=subprocess.DEVNULL, preexec_fn=pre, timeout=1800)
    print("exit", p.returncode)
    return p.returncode


if __name__ == "__main__":
    sys.exit(main())
