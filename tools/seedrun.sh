#!/bin/sh
# Run checks against a seeded change: apply, run, undo.
# usage: seedrun.sh <seed-id> <tier> <check-id>...
seed=$1; tier=$2; shift 2
patch=/verif/seeded/$seed/patch.diff
[ -z "$(git -C /repo status --porcelain)" ] || { echo "/repo not clean"; exit 2; }
git -C /repo apply "$patch" || exit 2
trap 'git -C /repo checkout -- . ; /verif/run build >/dev/null 2>&1' EXIT INT TERM
mkdir -p /tmp/seedruns
rm -rf /verif/replays/found
for c in "$@"; do
  start=$(date +%s)
  /verif/run "$c" "$tier" > /tmp/seedruns/$seed-$c-$tier.out 2>&1
  rc=$?
  end=$(date +%s)
  echo "seed=$seed check=$c tier=$tier rc=$rc secs=$((end-start)) $(grep -m1 '^VIOLATION' /tmp/seedruns/$seed-$c-$tier.out)"
  grep -m3 '^violation:' /tmp/seedruns/$seed-$c-$tier.out | cut -c1-400
done
