//! Runner: shard workers (processes, because allocator, shims and simulator
//! are process-global), proptest driving with a fixed seed, shrinking to a
//! replay file, evidence, exit codes.

use std::cell::{Cell, RefCell};
use std::collections::{BTreeMap, BTreeSet};
use std::io::Write;
use std::panic::{self, AssertUnwindSafe};
use std::path::{Path, PathBuf};
use std::process::{Command, Stdio};
use std::time::{Duration, Instant};

use proptest::strategy::{BoxedStrategy, Strategy};
use proptest::test_runner::{Config, RngSeed, TestCaseError, TestError, TestRunner};
use serde::Serialize;
use serde::de::DeserializeOwned;
use serde_json::{Value, json};

use crate::common::*;

pub trait Property {
    const ID: &'static str;
    type Case: std::fmt::Debug + Clone + Serialize + DeserializeOwned + 'static;

    fn strategy(tier: Tier) -> BoxedStrategy<Self::Case>;
    /// Total number of generated cases for the tier (split over the shards).
    fn cases(tier: Tier) -> u32;
    /// Execute one case against the real code and judge it.
    fn run(case: &Self::Case, ctx: &mut Ctx);

    /// Fixed-work pre-pass executed by shard 0 before the generated cases
    /// (exhaustive tables, long variants). Default: nothing.
    fn extra(_tier: Tier, _seed: u64, _shard: u32, _of: u32, _ctx_known: &[KnownFinding], _out: &mut ShardOut) {}

    /// Whether the simulated kernel is installed under a10 for this property
    /// (false: a10 talks to the real io_uring of the machine).
    fn uses_sim() -> bool {
        true
    }
    fn level() -> &'static str {
        "exploration"
    }
    fn rule() -> &'static str;
    fn assumptions() -> Vec<&'static str>;
    fn shards(tier: Tier) -> u32 {
        tier.pick(8, 16)
    }
    /// Per-shard watchdog.
    fn watchdog(tier: Tier) -> Duration {
        Duration::from_secs(tier.pick(600, 7200))
    }
}

thread_local! {
    static LAST_PANIC: RefCell<Option<(String, String)>> = const { RefCell::new(None) };
    static QUIET_PANICS: Cell<bool> = const { Cell::new(false) };
}

pub fn install_panic_hook() {
    let default = panic::take_hook();
    panic::set_hook(Box::new(move |info| {
        let _scope = crate::track::scope(crate::track::TAG_HARNESS);
        let msg = if let Some(s) = info.payload().downcast_ref::<&str>() {
            (*s).to_string()
        } else if let Some(s) = info.payload().downcast_ref::<String>() {
            s.clone()
        } else {
            "<non-string panic>".to_string()
        };
        let loc = info.location().map(|l| format!("{}:{}", l.file(), l.line())).unwrap_or_default();
        LAST_PANIC.with(|p| *p.borrow_mut() = Some((msg, loc)));
        if !QUIET_PANICS.with(Cell::get) {
            default(info);
        }
    }));
}

/// Run `f`, catching a panic; returns Err((message, location)).
pub fn catch<R>(f: impl FnOnce() -> R) -> Result<R, (String, String)> {
    let prev = QUIET_PANICS.with(|q| q.replace(true));
    LAST_PANIC.with(|p| *p.borrow_mut() = None);
    let r = panic::catch_unwind(AssertUnwindSafe(f));
    QUIET_PANICS.with(|q| q.set(prev));
    r.map_err(|_| LAST_PANIC.with(|p| p.borrow_mut().take()).unwrap_or_default())
}

/// Milliseconds (since process start, never 0) at which the running case
/// started; 0 while no case runs.
static CASE_CLOCK: std::sync::atomic::AtomicU64 = std::sync::atomic::AtomicU64::new(0);
static PROCESS_START: std::sync::OnceLock<Instant> = std::sync::OnceLock::new();

/// Exit codes of a worker whose case hung.
pub const EXIT_HANG_AFTER_MEMORY_VIOLATION: i32 = 97;
pub const EXIT_HANG: i32 = 98;

fn now_ms() -> u64 {
    PROCESS_START.get_or_init(Instant::now).elapsed().as_millis() as u64 + 1
}

/// Per-case hang monitor: a case that runs longer than `limit` ends the
/// process. When the tracking allocator has recorded a memory violation by
/// then (block freed while the kernel held it, double free), or the case's own
/// oracle has already reported a violation, the hang is the
/// aftermath of that violation (the code under test keeps using a freed
/// operation state whose mutex is still locked) and is reported as such;
/// otherwise it is an infrastructure problem (exit 2 in the end).
pub fn start_hang_monitor(limit: Duration, marker: Option<PathBuf>, replay_of: Option<(String, PathBuf)>) {
    now_ms();
    std::thread::spawn(move || {
        loop {
            std::thread::sleep(Duration::from_millis(250));
            let started = CASE_CLOCK.load(std::sync::atomic::Ordering::Relaxed);
            if started == 0 || now_ms().saturating_sub(started) < limit.as_millis() as u64 {
                continue;
            }
            let mut events = crate::track::describe_events();
            if let Some(v) = crate::common::PENDING_VIOLATION.lock().unwrap_or_else(|e| e.into_inner()).clone() {
                events.insert(0, format!("the check had already reported [{v}]"));
            }
            let text = if events.is_empty() { String::new() } else { format!("the case did not return within {limit:?} after: {}", events.join("; ")) };
            if let Some(m) = &marker {
                let _ = std::fs::write(m, &text);
            }
            if let Some((id, path)) = &replay_of {
                if events.is_empty() {
                    eprintln!("infrastructure error: the case did not return within {limit:?} (no memory violation recorded)");
                    std::process::exit(2);
                }
                println!("failure: sig={id}:hang-after-violation {text}");
                println!("VIOLATION property={id} replay={}", path.display());
                std::process::exit(1);
            }
            std::process::exit(if events.is_empty() { EXIT_HANG } else { EXIT_HANG_AFTER_MEMORY_VIOLATION });
        }
    });
}

const CASE_LIMIT: Duration = Duration::from_secs(45);

/// Run one case with panic containment.
pub fn run_case<P: Property>(case: &P::Case, ctx: &mut Ctx) {
    *crate::common::PENDING_VIOLATION.lock().unwrap_or_else(|e| e.into_inner()) = None;
    CASE_CLOCK.store(now_ms(), std::sync::atomic::Ordering::Relaxed);
    let r = catch(|| P::run(case, ctx));
    CASE_CLOCK.store(0, std::sync::atomic::Ordering::Relaxed);
    if let Err((msg, loc)) = r {
        // A panic that escaped the driver: in harness code it's an infra
        // problem, inside a10 the driver should have caught and judged it.
        let short_loc = loc.rsplit('/').next().unwrap_or(&loc).to_string();
        if loc.contains("/repo/") {
            ctx.violation(&format!("{}:panic:{}", P::ID, short_loc), format!("a10 panicked at {loc}: {msg}"));
        } else {
            ctx.infra(format!("harness panic at {loc}: {msg}"));
        }
    }
}

fn sample_json<C: Serialize>(case: &C, ctx: &Ctx) -> Value {
    json!({ "fingerprint": ctx.fingerprint, "classes": ctx.classes, "case": serde_json::to_value(case).unwrap_or(Value::Null) })
}

pub struct Stats {
    pub out: ShardOut,
    fps: BTreeSet<u64>,
    sample_fps: BTreeSet<u64>,
}

impl Stats {
    pub fn new() -> Stats {
        Stats { out: ShardOut::default(), fps: BTreeSet::new(), sample_fps: BTreeSet::new() }
    }
    pub fn record<C: Serialize>(&mut self, case: &C, ctx: &Ctx) {
        self.out.evaluations += 1;
        self.out.skipped_steps += ctx.skipped_steps;
        for c in &ctx.classes {
            *self.out.classes.entry(c.clone()).or_insert(0) += 1;
        }
        for (k, v) in &ctx.known_hits {
            *self.out.known_hits.entry(k.clone()).or_insert(0) += v;
        }
        if ctx.nontrivial {
            self.out.nontrivial += 1;
            let fp = fnv(&ctx.fingerprint);
            if self.fps.insert(fp) && self.out.samples.len() < 5 && self.sample_fps.insert(fp) {
                self.out.samples.push(sample_json(case, ctx));
            }
        } else if self.out.samples.is_empty() && self.out.evaluations > 50 {
            // Make sure there is at least one sample.
            self.out.samples.push(sample_json(case, ctx));
        }
    }
    pub fn finish(mut self) -> ShardOut {
        self.out.nontrivial_fps = self.fps.into_iter().collect();
        self.out
    }
}

fn write_replay<P: Property>(case: &P::Case, failure: &Failure) -> String {
    let dir = verif_root().join("replays").join("found");
    let _ = std::fs::create_dir_all(&dir);
    let body = json!({ "property": P::ID, "sig": failure.sig, "msg": failure.msg, "case": serde_json::to_value(case).unwrap() });
    let text = serde_json::to_string_pretty(&body).unwrap();
    let name = format!("{}-{:016x}.json", P::ID, fnv(&text));
    let path = dir.join(name);
    let _ = std::fs::write(&path, text);
    path.to_string_lossy().into_owned()
}

fn read_replay<P: Property>(path: &Path) -> Result<(P::Case, Option<String>), String> {
    let text = std::fs::read_to_string(path).map_err(|e| format!("{}: {e}", path.display()))?;
    let v: Value = serde_json::from_str(&text).map_err(|e| format!("{}: {e}", path.display()))?;
    let case = v.get("case").cloned().ok_or("replay file without case")?;
    let sig = v.get("sig").and_then(|s| s.as_str()).map(str::to_string);
    let case: P::Case = serde_json::from_value(case).map_err(|e| format!("{}: {e}", path.display()))?;
    Ok((case, sig))
}

/// Regression files for a property: `replays/<ID>-*.json` (committed).
fn regression_files(id: &str) -> Vec<PathBuf> {
    let dir = verif_root().join("replays");
    let mut out = Vec::new();
    if let Ok(rd) = std::fs::read_dir(dir) {
        for e in rd.flatten() {
            let name = e.file_name().to_string_lossy().into_owned();
            if name.starts_with(&format!("{id}-")) && name.ends_with(".json") {
                out.push(e.path());
            }
        }
    }
    out.sort();
    out
}

/// Worker: executes shard `shard` of `of`.
pub fn worker<P: Property>(tier: Tier, seed: u64, shard: u32, of: u32, out_path: &Path) -> i32 {
    crate::init_process(P::uses_sim());
    let known = load_known(P::ID);
    let stats = RefCell::new(Stats::new());
    let journal = out_path.with_extension("journal");
    start_hang_monitor(CASE_LIMIT, Some(out_path.with_extension("hang")), None);

    // Regression tier: saved replays first (shard 0).
    if shard == 0 {
        for file in regression_files(P::ID) {
            match read_replay::<P>(&file) {
                Ok((case, _sig)) => {
                    if let Ok(mut f) = std::fs::File::create(&journal) {
                        let _ = serde_json::to_writer(&mut f, &json!({"property": P::ID, "case": serde_json::to_value(&case).unwrap_or(Value::Null)}));
                    }
                    let mut ctx = Ctx::new(P::ID, &known, tier);
                    run_case::<P>(&case, &mut ctx);
                    let _ = std::fs::remove_file(&journal);
                    let mut s = stats.borrow_mut();
                    s.out.replayed += 1;
                    if let Some(e) = ctx.infra.clone() {
                        s.out.infra_error = Some(format!("{}: {e}", file.display()));
                        break;
                    }
                    s.record(&case, &ctx);
                    if let Some(f) = ctx.failure {
                        s.out.violation = Some(ShardViolation { sig: f.sig, msg: f.msg, replay: file.to_string_lossy().into_owned() });
                        break;
                    }
                }
                Err(e) => {
                    stats.borrow_mut().out.infra_error = Some(e);
                    break;
                }
            }
        }
    }
    let early = {
        let s = stats.borrow();
        s.out.violation.is_some() || s.out.infra_error.is_some()
    };
    if !early {
        let mut extra_out = ShardOut::default();
        P::extra(tier, seed, shard, of, &known, &mut extra_out);
        let mut s = stats.borrow_mut();
        s.out.evaluations += extra_out.evaluations;
        s.out.nontrivial += extra_out.nontrivial;
        for fp in extra_out.nontrivial_fps {
            s.fps.insert(fp);
        }
        for (k, v) in extra_out.classes {
            *s.out.classes.entry(k).or_insert(0) += v;
        }
        for (k, v) in extra_out.known_hits {
            *s.out.known_hits.entry(k).or_insert(0) += v;
        }
        s.out.samples.extend(extra_out.samples.into_iter().take(3));
        s.out.extra.extend(extra_out.extra);
        s.out.notes.extend(extra_out.notes);
        if extra_out.violation.is_some() {
            s.out.violation = extra_out.violation;
        }
        if extra_out.infra_error.is_some() {
            s.out.infra_error = extra_out.infra_error;
        }
    }
    let early = {
        let s = stats.borrow();
        s.out.violation.is_some() || s.out.infra_error.is_some()
    };

    let total = P::cases(tier);
    let mine = total / of + u32::from(shard < total % of);
    if !early && mine > 0 {
        let config = Config {
            cases: mine,
            failure_persistence: None,
            rng_seed: RngSeed::Fixed(seed.wrapping_mul(0x9E37_79B9_7F4A_7C15).wrapping_add(shard as u64 + 1)),
            max_shrink_iters: 4000,
            max_shrink_time: 0,
            max_global_rejects: 1,
            verbose: 0,
            ..Config::default()
        };
        let mut runner = TestRunner::new(config);
        let failed = Cell::new(false);
        let infra: RefCell<Option<String>> = RefCell::new(None);
        let result = runner.run(&P::strategy(tier), |case| {
            if !failed.get() {
                if let Ok(mut f) = std::fs::File::create(&journal) {
                    let _ = serde_json::to_writer(&mut f, &json!({"property": P::ID, "case": serde_json::to_value(&case).unwrap_or(Value::Null)}));
                }
            }
            let mut ctx = Ctx::new(P::ID, &known, tier);
            run_case::<P>(&case, &mut ctx);
            if let Some(e) = ctx.infra.clone() {
                // Infrastructure problems abort the shard; they're not
                // shrunk and never reported as a violation.
                if infra.borrow().is_none() {
                    *infra.borrow_mut() = Some(e);
                }
                failed.set(true);
                return Err(TestCaseError::fail("infra"));
            }
            if !failed.get() {
                stats.borrow_mut().record(&case, &ctx);
            }
            if let Some(f) = &ctx.failure {
                failed.set(true);
                return Err(TestCaseError::fail(f.sig.clone()));
            }
            Ok(())
        });
        let _ = std::fs::remove_file(&journal);
        if let Some(e) = infra.into_inner() {
            stats.borrow_mut().out.infra_error = Some(e);
        } else if let Err(err) = result {
            match err {
                TestError::Fail(reason, minimal) => {
                    // Re-run the minimal case to get its signature.
                    let mut ctx = Ctx::new(P::ID, &known, tier);
                    run_case::<P>(&minimal, &mut ctx);
                    if ctx.failure.is_none() {
                        // Once more: a failure that does not reproduce twice in
                        // a row from its own shrunk input is not evidence about
                        // the code, it is a non-deterministic oracle.
                        ctx = Ctx::new(P::ID, &known, tier);
                        run_case::<P>(&minimal, &mut ctx);
                    }
                    match ctx.failure {
                        Some(failure) => {
                            let replay = write_replay::<P>(&minimal, &failure);
                            stats.borrow_mut().out.violation = Some(ShardViolation { sig: failure.sig, msg: failure.msg, replay });
                        }
                        None => {
                            // Inconclusive, never a violation.
                            let failure = Failure { sig: format!("{}:unstable", P::ID), msg: format!("the shrunk case no longer fails when run again twice (last failure while shrinking: {reason})") };
                            let replay = write_replay::<P>(&minimal, &failure);
                            stats.borrow_mut().out.infra_error = Some(format!("non-reproducible failure ({}); shrunk input kept at {replay}", failure.msg));
                        }
                    }
                }
                TestError::Abort(reason) => {
                    stats.borrow_mut().out.infra_error = Some(format!("proptest aborted: {reason}"));
                }
            }
        }
    }
    let _ = std::fs::remove_dir_all(std::env::temp_dir().join(format!("a10verif-inotify-{}", std::process::id())));
    let _ = std::fs::remove_dir_all(std::env::temp_dir().join(format!("a10verif-c13-{}", std::process::id())));
    let out = stats.into_inner().finish();
    let text = serde_json::to_string(&out).unwrap();
    if std::fs::write(out_path, text).is_err() {
        return 2;
    }
    0
}

/// Replay one saved case in strict mode. Exit code 0 held, 1 violation.
pub fn replay<P: Property>(path: &Path) -> i32 {
    crate::init_process(P::uses_sim());
    start_hang_monitor(CASE_LIMIT, None, Some((P::ID.to_string(), path.to_path_buf())));
    match read_replay::<P>(path) {
        Ok((case, _)) => {
            let lenient = std::env::var_os("A10VERIF_LENIENT").is_some();
            let known = if lenient { load_known(P::ID) } else { Vec::new() };
            let mut ctx = Ctx::new(P::ID, &known, Tier::Quick);
            ctx.strict = !lenient;
            run_case::<P>(&case, &mut ctx);
            if let Some(e) = ctx.infra {
                eprintln!("infrastructure error: {e}");
                return 2;
            }
            match ctx.failure {
                Some(f) => {
                    println!("case: {case:?}");
                    println!("failure: sig={} {}", f.sig, f.msg);
                    println!("VIOLATION property={} replay={}", P::ID, path.display());
                    1
                }
                None => {
                    println!("replay {} held (fingerprint {})", path.display(), ctx.fingerprint);
                    0
                }
            }
        }
        Err(e) => {
            eprintln!("{e}");
            2
        }
    }
}

/// Parent: spawn shard workers, merge, write evidence, print verdict lines.
pub fn parent<P: Property>(tier: Tier) -> i32 {
    let start = Instant::now();
    let seed: u64 = std::env::var("VERIF_SEED").ok().and_then(|s| s.trim().parse::<i64>().ok()).map(|v| v as u64).unwrap_or(1);
    let of = P::shards(tier).max(1);
    let exe = std::env::current_exe().expect("current_exe");
    let tmp = std::env::temp_dir().join(format!("a10verif-{}-{}-{}", P::ID, std::process::id(), seed));
    let _ = std::fs::create_dir_all(&tmp);
    let mut children = Vec::new();
    for shard in 0..of {
        let out = tmp.join(format!("shard{shard}.json"));
        let child = Command::new(&exe)
            .args(["worker", P::ID, tier.name(), &shard.to_string(), &of.to_string(), &seed.to_string()])
            .arg(&out)
            .stdin(Stdio::null())
            .spawn();
        match child {
            Ok(c) => children.push((shard, c, out)),
            Err(e) => {
                eprintln!("failed to spawn worker: {e}");
                return 2;
            }
        }
    }
    let deadline = Instant::now() + P::watchdog(tier);
    let mut merged = ShardOut::default();
    let mut fps: BTreeSet<u64> = BTreeSet::new();
    let mut infra: Vec<String> = Vec::new();
    let mut violations: Vec<ShardViolation> = Vec::new();
    for (shard, mut child, out) in children {
        let status = loop {
            match child.try_wait() {
                Ok(Some(s)) => break Some(s),
                Ok(None) => {
                    if Instant::now() > deadline {
                        let _ = child.kill();
                        let _ = child.wait();
                        break None;
                    }
                    std::thread::sleep(Duration::from_millis(20));
                }
                Err(_) => break None,
            }
        };
        let journal = out.with_extension("journal");
        match status {
            None => infra.push(format!("shard {shard}: watchdog")),
            Some(s) if s.success() => match std::fs::read_to_string(&out).ok().and_then(|t| serde_json::from_str::<ShardOut>(&t).ok()) {
                Some(o) => {
                    merged.evaluations += o.evaluations;
                    merged.nontrivial += o.nontrivial;
                    merged.skipped_steps += o.skipped_steps;
                    merged.replayed += o.replayed;
                    fps.extend(o.nontrivial_fps);
                    for (k, v) in o.classes {
                        *merged.classes.entry(k).or_insert(0) += v;
                    }
                    for (k, v) in o.known_hits {
                        *merged.known_hits.entry(k).or_insert(0) += v;
                    }
                    for s in o.samples {
                        if merged.samples.len() < 6 {
                            merged.samples.push(s);
                        }
                    }
                    for (k, v) in o.extra {
                        merged.extra.insert(k, v);
                    }
                    merged.notes.extend(o.notes);
                    if let Some(v) = o.violation {
                        violations.push(v);
                    }
                    if let Some(e) = o.infra_error {
                        infra.push(format!("shard {shard}: {e}"));
                    }
                }
                None => infra.push(format!("shard {shard}: no output")),
            },
            Some(s) if s.code() == Some(EXIT_HANG) => infra.push(format!("shard {shard}: a case did not return within {CASE_LIMIT:?} (no memory violation recorded)")),
            Some(s) if s.code() == Some(EXIT_HANG_AFTER_MEMORY_VIOLATION) && journal.exists() => {
                let dir = verif_root().join("replays").join("found");
                let _ = std::fs::create_dir_all(&dir);
                let text = std::fs::read_to_string(&journal).unwrap_or_default();
                let dst = dir.join(format!("{}-hang-{:016x}.json", P::ID, fnv(&text)));
                let _ = std::fs::write(&dst, &text);
                let what = std::fs::read_to_string(out.with_extension("hang")).unwrap_or_default();
                violations.push(ShardViolation { sig: format!("{}:hang-after-violation", P::ID), msg: what, replay: dst.to_string_lossy().into_owned() });
            }
            Some(s) => {
                // The worker died (signal or abort): crash containment. The
                // journalled case is confirmed in a fresh process.
                use std::os::unix::process::ExitStatusExt;
                if journal.exists() {
                    let dir = verif_root().join("replays").join("found");
                    let _ = std::fs::create_dir_all(&dir);
                    let text = std::fs::read_to_string(&journal).unwrap_or_default();
                    let dst = dir.join(format!("{}-crash-{:016x}.json", P::ID, fnv(&text)));
                    let _ = std::fs::write(&dst, &text);
                    let confirm = Command::new(&exe).args(["replay", P::ID]).arg(&dst).stdin(Stdio::null()).stdout(Stdio::null()).stderr(Stdio::null()).status();
                    let crashed_again = confirm.map(|c| c.signal().is_some() || c.code() == Some(134) || c.code() == Some(101)).unwrap_or(false);
                    if crashed_again {
                        violations.push(ShardViolation {
                            sig: format!("{}:crash:signal-{}", P::ID, s.signal().unwrap_or(0)),
                            msg: format!("worker died with {s} while running the journalled case; confirmed in a fresh process"),
                            replay: dst.to_string_lossy().into_owned(),
                        });
                    } else {
                        infra.push(format!("shard {shard}: died with {s}, not reproducible from the journalled case"));
                    }
                } else {
                    infra.push(format!("shard {shard}: died with {s}"));
                }
            }
        }
    }
    let _ = std::fs::remove_dir_all(&tmp);

    let known = load_known(P::ID);
    let wall = start.elapsed().as_secs_f64();
    let distinct = fps.len() as u64;
    let mut coverage = serde_json::Map::new();
    coverage.insert("evaluations".into(), json!(merged.evaluations));
    coverage.insert("distinct_nontrivial".into(), json!(distinct));
    coverage.insert("nontrivial_cases".into(), json!(merged.nontrivial));
    coverage.insert("rule".into(), json!(P::rule()));
    coverage.insert("samples".into(), json!(merged.samples));
    coverage.insert("class_histogram".into(), json!(merged.classes));
    coverage.insert("skipped_steps".into(), json!(merged.skipped_steps));
    coverage.insert("regression_replays".into(), json!(merged.replayed));
    coverage.insert("known_finding_hits".into(), json!(merged.known_hits));
    coverage.insert("shards".into(), json!(of));
    if !merged.notes.is_empty() {
        coverage.insert("notes".into(), json!(merged.notes));
    }
    for (k, v) in &merged.extra {
        coverage.insert(k.clone(), v.clone());
    }
    let evidence = json!({
        "property_id": P::ID,
        "tier": tier.name(),
        "seed": seed as i64,
        "level": P::level(),
        "coverage": Value::Object(coverage),
        "assumptions": P::assumptions(),
        "wall_s": wall,
        "violations": violations.len(),
    });
    let ev_dir = verif_root().join("evidence");
    let _ = std::fs::create_dir_all(&ev_dir);
    let ev_path = ev_dir.join(format!("{}.json", P::ID));
    let written = std::fs::write(&ev_path, serde_json::to_string_pretty(&evidence).unwrap());

    let mut out = std::io::stdout().lock();
    let _ = writeln!(
        out,
        "{} {}: {} cases, {} non-trivial ({} distinct), {} shards, {:.1}s",
        P::ID,
        tier.name(),
        merged.evaluations,
        merged.nontrivial,
        distinct,
        of,
        wall
    );
    for k in &known {
        if let Some(n) = merged.known_hits.get(&k.sig) {
            let _ = writeln!(out, "KNOWN-FINDING: property={} sig={} {} (hit {n} times in this run)", P::ID, k.sig, k.text);
        } else {
            let _ = writeln!(out, "note: listed known finding sig={} was not hit in this run", k.sig);
        }
    }
    let mut seen = BTreeMap::new();
    for v in &violations {
        if seen.insert(v.sig.clone(), ()).is_none() {
            let _ = writeln!(out, "violation: sig={} {}", v.sig, v.msg);
            let _ = writeln!(out, "VIOLATION property={} replay={}", P::ID, v.replay);
        }
    }
    if !violations.is_empty() {
        return 1;
    }
    if !infra.is_empty() {
        for e in &infra {
            let _ = writeln!(out, "INFRA: {e}");
        }
        return 2;
    }
    if written.is_err() || merged.evaluations == 0 {
        let _ = writeln!(out, "INFRA: no evidence written");
        return 2;
    }
    0
}
