pub mod c03b;
pub mod c04;
pub mod c04b;
pub mod c05;
#[macro_use]
pub mod c14;
pub mod c14_readbuf;
pub mod c06b;
pub mod c07;
pub mod c08;
pub mod c10;
pub mod c11;
pub mod c13;
pub mod c13b;
pub mod c15;
pub mod c16;
pub mod c17;
pub mod c18;
pub mod hist;
pub mod multi;

use std::collections::BTreeSet;

use crate::interp::History;

/// Canonical fingerprint of a history run: configuration class + features.
pub fn fingerprint(h: &History, feats: &BTreeSet<String>) -> String {
    let c = &h.cfg;
    let start_class = |s: crate::interp::world::Start| match s {
        crate::interp::world::Start::Zero => "0",
        crate::interp::world::Start::Half(_) => "half",
        crate::interp::world::Start::Wrap(_) => "wrap",
        crate::interp::world::Start::Arbitrary(_) => "arb",
    };
    let mut s = format!("sq{}:cq{}:{}:{}:{}", c.sq_entries(), c.cq_entries(), start_class(c.sq_start), start_class(c.cq_start), if c.sqpoll { "sqpoll" } else { "-" });
    for f in feats {
        s.push('|');
        s.push_str(f);
    }
    s
}
