//! proptest strategies shared by the history-based drivers. Construct-only:
//! no filters; inapplicable steps are mapped or skipped by the interpreter.

use proptest::prelude::*;

use crate::interp::ops::{Fault, OpKind, Outcome};
use crate::interp::world::{RingCfg, Start};
use crate::interp::{CancelChoice, KAct, Step, Teardown};

pub fn start() -> impl Strategy<Value = Start> {
    prop_oneof![
        3 => Just(Start::Zero),
        1 => (0u8..40).prop_map(Start::Half),
        4 => (0u8..40).prop_map(Start::Wrap),
        1 => any::<u32>().prop_map(Start::Arbitrary),
    ]
}

pub fn ring_cfg(max_sq_log2: u8) -> impl Strategy<Value = RingCfg> {
    (0..=max_sq_log2, proptest::option::of(0u8..=6), start(), start(), any::<bool>(), proptest::bool::weighted(0.2), proptest::bool::weighted(0.15), proptest::bool::weighted(0.25)).prop_map(move |(sq_log2, cq_log2, sq_start, cq_start, alt_layout, defer_taskrun, sqpoll, direct)| RingCfg {
        sq_log2,
        cq_log2,
        sq_start,
        cq_start,
        // A kernel thread consuming the queue (driven by the history's
        // kernel-thread steps).
        sqpoll,
        // The history's descriptor is a direct descriptor (every submission
        // through it carries IOSQE_FIXED_FILE and its index).
        direct_slots: if direct && !sqpoll { 4 } else { 0 },
        alt_layout,
        defer_taskrun: defer_taskrun && !sqpoll,
        // One history in forty on the largest ring there is.
        max_size: cq_log2 == Some(6) && alt_layout && max_sq_log2 >= 2,
        cq_odd: direct || sq_start.near_wrap(),
    })
}

/// Ring configurations including large queues (mappings of several pages).
pub fn ring_cfg_wide() -> impl Strategy<Value = RingCfg> {
    (prop_oneof![6 => 0u8..=3, 2 => 4u8..=6, 2 => 7u8..=8], proptest::option::of(prop_oneof![4 => 0u8..=6, 2 => 7u8..=10]), start(), start(), any::<bool>(), proptest::bool::weighted(0.2), proptest::bool::weighted(0.2)).prop_map(|(sq_log2, cq_log2, sq_start, cq_start, alt_layout, defer_taskrun, direct)| RingCfg {
        sq_log2,
        cq_log2,
        sq_start,
        cq_start,
        sqpoll: false,
        direct_slots: if direct { 4 } else { 0 },
        alt_layout,
        defer_taskrun,
        max_size: false,
        cq_odd: direct,
    })
}

pub fn outcome() -> impl Strategy<Value = Outcome> {
    prop_oneof![
        5 => any::<u16>().prop_map(|frac| Outcome::Ok { frac }),
        1 => Just(Outcome::Ok { frac: 0 }),
        1 => Just(Outcome::Ok { frac: u16::MAX }),
        2 => any::<u8>().prop_map(|idx| Outcome::Err { idx }),
        1 => any::<u8>().prop_map(|idx| Outcome::Refused { idx }),
    ]
}

pub fn fault() -> impl Strategy<Value = Fault> {
    prop_oneof![Just(Fault::Eintr), Just(Fault::Ecanceled)]
}

/// Operation kinds without any memory handed to the kernel.
pub fn kind_plain() -> impl Strategy<Value = OpKind> {
    Just(OpKind::Truncate)
}

pub fn kind_basic() -> impl Strategy<Value = OpKind> {
    prop_oneof![
        2 => Just(OpKind::Truncate),
        2 => (0u16..5000).prop_map(|len| OpKind::WriteStatic { len }),
        2 => (0u16..5000).prop_map(|len| OpKind::WriteVec { len }),
        3 => (1u16..5000, 0u16..64).prop_map(|(cap, prefill)| OpKind::ReadVec { cap, prefill }),
        3 => kind_extended(),
    ]
}

/// The operation kinds with vectored buffers, message headers, addresses and
/// out-parameters.
pub fn kind_extended() -> impl Strategy<Value = OpKind> {
    prop_oneof![
        2 => (0u16..2000, 1u16..2000).prop_map(|(a, b)| OpKind::WriteVectored { a, b }),
        2 => (1u16..2000, 1u16..2000).prop_map(|(a, b)| OpKind::ReadVectored { a, b }),
        2 => (1u16..2000, any::<bool>()).prop_map(|(len, v6)| OpKind::SendTo { len, v6 }),
        2 => (1u16..2000).prop_map(|cap| OpKind::RecvFrom { cap }),
        1 => Just(OpKind::SockOpt),
        1 => Just(OpKind::Statx),
        1 => any::<bool>().prop_map(|v6| OpKind::Connect { v6 }),
        1 => (1u16..2000, 1u16..2000).prop_map(|(a, b)| OpKind::RecvFromVectored { a, b }),
        1 => (1u16..2000, 1u16..2000).prop_map(|(a, b)| OpKind::RecvVectored { a, b }),
        1 => (0u16..2000, 1u16..2000, any::<bool>()).prop_map(|(a, b, v6)| OpKind::SendToVectored { a, b, v6 }),
        1 => (0u16..2000, 1u16..2000).prop_map(|(a, b)| OpKind::SendVectored { a, b }),
        1 => any::<bool>().prop_map(|peer| OpKind::SocketName { peer }),
        1 => Just(OpKind::SetSockOpt),
        1 => Just(OpKind::ReceiveSignal),
        1 => (1u16..2000).prop_map(|cap| OpKind::ReadOwning { cap }),
        3 => kind_args(),
        3 => kind_paths(),
    ]
}

/// Operations that do not go through a descriptor: path strings, and the
/// siginfo out-parameter of waitid; plus bind (address storage).
pub fn kind_paths() -> impl Strategy<Value = OpKind> {
    prop_oneof![
        2 => (0u8..200).prop_map(|len| OpKind::CreateDir { len }),
        2 => (0u8..200, any::<bool>()).prop_map(|(len, dir)| OpKind::Remove { len, dir }),
        2 => (0u8..200, 0u8..200).prop_map(|(a, b)| OpKind::Rename { a, b }),
        1 => any::<bool>().prop_map(|v6| OpKind::Bind { v6 }),
        2 => any::<u16>().prop_map(|pid| OpKind::Wait { pid }),
    ]
}

/// Operations with non-default arguments (flags, offsets): a re-issue has to
/// repeat them.
pub fn kind_args() -> impl Strategy<Value = OpKind> {
    let off = prop_oneof![3 => 0u32..100_000, 1 => any::<u32>()];
    prop_oneof![
        3 => (1u16..3000, 0u8..16).prop_map(|(cap, flags)| OpKind::Recv { cap, flags }),
        2 => (1u16..3000, 0u8..16).prop_map(|(len, flags)| OpKind::Send { len, flags }),
        2 => (1u16..3000, off.clone()).prop_map(|(cap, off)| OpKind::ReadAt { cap, off }),
        2 => (1u16..3000, off).prop_map(|(len, off)| OpKind::WriteAt { len, off }),
    ]
}

/// Kinds that hand memory to the kernel.
pub fn kind_memory() -> impl Strategy<Value = OpKind> {
    prop_oneof![
        1 => Just(OpKind::Truncate),
        2 => (0u16..5000).prop_map(|len| OpKind::WriteStatic { len }),
        4 => (0u16..5000).prop_map(|len| OpKind::WriteVec { len }),
        4 => (1u16..5000, 0u16..64).prop_map(|(cap, prefill)| OpKind::ReadVec { cap, prefill }),
        6 => kind_extended(),
    ]
}

/// Kinds whose result carries a value (so a result delivered to the wrong
/// operation is visible).
pub fn kind_valued() -> impl Strategy<Value = OpKind> {
    prop_oneof![
        1 => Just(OpKind::Truncate),
        3 => (1u16..5000).prop_map(|len| OpKind::WriteStatic { len }),
        3 => (1u16..5000).prop_map(|len| OpKind::WriteVec { len }),
        4 => (1u16..5000, 0u16..64).prop_map(|(cap, prefill)| OpKind::ReadVec { cap, prefill }),
        4 => kind_extended().prop_filter("valued", |k| k.valued()),
    ]
}

pub fn kact() -> impl Strategy<Value = KAct> {
    prop_oneof![
        8 => any::<u16>().prop_map(|op| KAct::Complete { op }),
        2 => (0u8..4, prop_oneof![Just(0i32), Just(-libc::ENOENT), Just(-libc::EALREADY), Just(-libc::EINVAL), any::<i32>()], 0u8..8).prop_map(|(ud, res, flags)| KAct::Book { ud, res, flags }),
        1 => (any::<u64>(), any::<i32>()).prop_map(|(garbage, res)| KAct::Skip { garbage, res }),
        1 => Just(KAct::Flush),
        2 => Just(KAct::SqpollConsume),
        1 => Just(KAct::SqpollIdle),
        1 => (0u8..4).prop_map(|errno| KAct::FailEnter { errno }),
    ]
}

/// Steps for ring-level histories. `faults`: maximum number of interruptions
/// per operation, `drops`: weight of DropOp steps.
pub fn step(kind: BoxedStrategy<OpKind>, max_faults: usize, drops: u32) -> impl Strategy<Value = Step> {
    prop_oneof![
        6 => (kind, proptest::collection::vec(fault(), 0..=max_faults), outcome()).prop_map(|(kind, faults, outcome)| Step::Start { kind, faults, outcome }),
        8 => (any::<u16>(), any::<bool>()).prop_map(|(op, fresh_waker)| Step::Poll { op, fresh_waker }),
        drops => (any::<u16>(), prop_oneof![Just(CancelChoice::Wins), Just(CancelChoice::Already), Just(CancelChoice::NotFound)]).prop_map(|(op, cancel)| Step::DropOp { op, cancel }),
        5 => kact().prop_map(Step::Kernel),
        5 => (proptest::collection::vec(kact(), 0..5), any::<bool>()).prop_map(|(inline, block)| Step::RingPoll { inline, block }),
    ]
}

pub fn teardown() -> impl Strategy<Value = Teardown> {
    (proptest::collection::vec(any::<u16>(), 1..24), proptest::collection::vec(proptest::bool::weighted(0.2), 1..8), 0u8..3, proptest::option::weighted(0.5, (0u8..=3, 0u8..4)), any::<bool>(), any::<bool>(), proptest::bool::weighted(0.2), proptest::bool::weighted(0.4))
        .prop_map(|(priorities, on_thread, extra_sq, pool, wake_after, inline_on_flush, refuse_unregister, poll_after_ring)| Teardown { priorities, on_thread, extra_sq, pool, wake_after, inline_on_flush, refuse_unregister, poll_after_ring })
}

/// A PCT schedule: initial priority order and up to `max_changes` change
/// points among the first `horizon` scheduling points.
pub fn pct(max_changes: usize, horizon: u16) -> impl Strategy<Value = crate::sched::Pct> {
    // The programs are short (tens of points up to a few hundred): most
    // change points are placed early, where every program still runs.
    let step = prop_oneof![4 => 0..32u16.min(horizon), 3 => 0..96u16.min(horizon), 1 => 0..horizon];
    (any::<u16>(), proptest::collection::vec(step, 0..=max_changes)).prop_map(|(order, changes)| crate::sched::Pct { order, changes })
}

/// Half of the scheduled cases follow a PCT schedule, half a choice tape.
pub fn maybe_pct(max_changes: usize, horizon: u16) -> impl Strategy<Value = Option<crate::sched::Pct>> {
    proptest::option::weighted(0.5, pct(max_changes, horizon))
}
