//! C15 — ReadBuf edits behave as a capacity-bounded byte vector confined to
//! its slot in the pool.

use std::future::Future;
use std::ops::Bound;
use std::task::{Context, Poll};
use std::time::Duration;

use a10::io::{ReadBuf, ReadBufPool};
use proptest::prelude::*;
use serde::{Deserialize, Serialize};

use crate::abi;
use crate::common::{Ctx, Tier};
use crate::interp::waker::WakerHandle;
use crate::interp::world::{RingCfg, World};
use crate::runner::{Property, catch};
use crate::sim::{self, EnterInfo, SimRing};
use crate::track;

#[derive(Copy, Clone, Debug, Serialize, Deserialize, PartialEq, Eq)]
pub enum Idx {
    /// Scaled into 0..=len+2.
    Frac(u16),
    Max,
    MaxMinus1,
}

#[derive(Copy, Clone, Debug, Serialize, Deserialize, PartialEq, Eq)]
pub enum BoundSpec {
    Unbounded,
    Included(Idx),
    Excluded(Idx),
}

#[derive(Clone, Debug, Serialize, Deserialize)]
pub enum Edit {
    Truncate(u16),
    Clear,
    Remove { start: BoundSpec, end: BoundSpec },
    /// set_len over initialised bytes: scaled into 0..=high-water mark.
    SetLen(u16),
    Extend { len: u16, exact_fill: bool },
    /// Write n (scaled into the spare) bytes through spare_capacity_mut, then set_len.
    SpareWrite(u16),
    /// Read again into the owned buffer; the kernel delivers a fraction of the spare.
    ReRead(u16),
    /// Read again through a wrapper that takes the address from the generic
    /// buffer interface: `read(buf.limit(n))` (via 0) or `read_n(buf, 1)` (via 1).
    ReReadVia { frac: u16, limit: u16, via: u8 },
}

#[derive(Clone, Debug, Serialize, Deserialize)]
pub struct Case {
    pub pool_log2: u8,
    pub buf_size: u16,
    /// Reads done (and kept) before the buffer under test, to vary the slot.
    pub skip: u8,
    pub fill: u16,
    pub edits: Vec<Edit>,
}

pub(crate) struct Script {
    /// Number of bytes (fraction of what the request can take) to deliver.
    pub(crate) frac: u16,
    pub(crate) seed: usize,
    /// What the kernel did: (bid or usize::MAX for a direct buffer, bytes).
    pub(crate) done: Vec<(usize, Vec<u8>, usize)>,
    pub(crate) errors: Vec<String>,
}
pub(crate) struct ScriptPtr(pub(crate) *mut Script);
unsafe impl Send for ScriptPtr {}

pub(crate) fn data_byte(seed: usize, j: usize) -> u8 {
    (seed.wrapping_mul(17).wrapping_add(j.wrapping_mul(3)).wrapping_add(0x21)) as u8
}

impl Script {
    pub(crate) fn handle(&mut self, ring: &mut SimRing, serial: u64) {
        let Some(req) = ring.req(serial).cloned() else { return };
        if req.sqe.user_data < 4 || req.done || req.sqe.opcode != abi::OP_READ {
            return;
        }
        if req.sqe.flags & abi::IOSQE_BUFFER_SELECT != 0 {
            let Some(entry) = ring.select_buffer(req.sqe.buf_group) else {
                ring.complete(serial, -libc::ENOBUFS, 0, false);
                return;
            };
            let n = ((self.frac as usize) * (entry.len as usize + 1)) >> 16;
            let data: Vec<u8> = (0..n).map(|j| data_byte(self.seed, j)).collect();
            if track::residence(entry.addr as usize, entry.len as usize) == track::Residence::Unknown {
                self.errors.push(format!("provided buffer {:#x}+{} is not in live memory", entry.addr, entry.len));
            } else {
                unsafe { std::ptr::copy_nonoverlapping(data.as_ptr(), entry.addr as *mut u8, n) };
            }
            self.done.push((entry.bid as usize, data, entry.addr as usize));
            ring.complete(serial, n as i32, abi::CQE_F_BUFFER | ((entry.bid as u32) << abi::CQE_BUFFER_SHIFT), false);
        } else {
            let region = req.regions.iter().find(|r| r.what == "buffer");
            let size = region.map_or(0, |r| r.len);
            let n = ((self.frac as usize) * (size + 1)) >> 16;
            let data: Vec<u8> = (0..n).map(|j| data_byte(self.seed, j)).collect();
            if let Some(r) = region {
                if !sim::regions::write_region(r, 0, &data) {
                    self.errors.push("destination of the second read is not valid memory".into());
                }
            }
            self.done.push((usize::MAX, data, req.sqe.addr as usize));
            ring.complete(serial, n as i32, 0, false);
        }
    }
}

pub(crate) fn drive<F: Future>(world: &mut World, fut: F) -> Result<F::Output, String> {
    let mut fut = Box::pin(fut);
    let waker = WakerHandle::new();
    for _ in 0..50 {
        let mut cx = Context::from_waker(&waker.waker);
        let polled = {
            let _s = track::scope(track::TAG_A10);
            catch(|| fut.as_mut().poll(&mut cx))
        };
        match polled {
            Err((msg, loc)) => {
                std::mem::forget(fut);
                return Err(format!("read future panicked at {loc}: {msg}"));
            }
            Ok(Poll::Ready(out)) => return Ok(out),
            Ok(Poll::Pending) => {
                for _ in 0..2 {
                    world.poll_ring(Some(Duration::ZERO)).map_err(|e| e.to_string())?;
                }
            }
        }
    }
    Err("read did not complete".into())
}

/// `Vec::drain`-style range resolution: Err = the range is invalid (must be
/// rejected with a panic).
fn resolve(start: BoundSpec, end: BoundSpec, len: usize) -> (Bound<usize>, Bound<usize>, Result<(usize, usize), ()>) {
    let idx = |i: Idx| match i {
        Idx::Frac(f) => ((f as usize) * (len + 3)) >> 16,
        Idx::Max => usize::MAX,
        Idx::MaxMinus1 => usize::MAX - 1,
    };
    let (sb, s) = match start {
        BoundSpec::Unbounded => (Bound::Unbounded, Some(0)),
        BoundSpec::Included(i) => (Bound::Included(idx(i)), Some(idx(i))),
        BoundSpec::Excluded(i) => (Bound::Excluded(idx(i)), idx(i).checked_add(1)),
    };
    let (eb, e) = match end {
        BoundSpec::Unbounded => (Bound::Unbounded, Some(len)),
        BoundSpec::Included(i) => (Bound::Included(idx(i)), idx(i).checked_add(1)),
        BoundSpec::Excluded(i) => (Bound::Excluded(idx(i)), Some(idx(i))),
    };
    let valid = match (s, e) {
        (Some(s), Some(e)) if s <= e && e <= len => Ok((s, e)),
        _ => Err(()),
    };
    (sb, eb, valid)
}

pub struct C15;

fn idx() -> impl Strategy<Value = Idx> {
    prop_oneof![12 => any::<u16>().prop_map(Idx::Frac), 1 => Just(Idx::Max), 1 => Just(Idx::MaxMinus1)]
}
fn bound() -> impl Strategy<Value = BoundSpec> {
    prop_oneof![2 => Just(BoundSpec::Unbounded), 5 => idx().prop_map(BoundSpec::Included), 5 => idx().prop_map(BoundSpec::Excluded)]
}
fn edit() -> impl Strategy<Value = Edit> {
    prop_oneof![
        2 => any::<u16>().prop_map(Edit::Truncate),
        1 => Just(Edit::Clear),
        6 => (bound(), bound()).prop_map(|(start, end)| Edit::Remove { start, end }),
        2 => any::<u16>().prop_map(Edit::SetLen),
        3 => (0u16..700, any::<bool>()).prop_map(|(len, exact_fill)| Edit::Extend { len, exact_fill }),
        2 => any::<u16>().prop_map(Edit::SpareWrite),
        2 => any::<u16>().prop_map(Edit::ReRead),
        2 => (any::<u16>(), any::<u16>(), 0u8..2).prop_map(|(frac, limit, via)| Edit::ReReadVia { frac, limit, via }),
    ]
}

impl Property for C15 {
    const ID: &'static str = "C15";
    type Case = Case;

    fn strategy(_tier: Tier) -> BoxedStrategy<Case> {
        (1u8..=3, prop_oneof![1 => 1u16..8, 4 => 1u16..=512], 0u8..4, prop_oneof![1 => Just(0u16), 1 => Just(u16::MAX), 6 => any::<u16>()], proptest::collection::vec(edit(), 0..24))
            .prop_map(|(pool_log2, buf_size, skip, fill, edits)| Case { pool_log2, buf_size, skip, fill, edits })
            .boxed()
    }

    fn cases(tier: Tier) -> u32 {
        tier.pick(30_000, 2_000_000)
    }

    fn run(case: &Case, ctx: &mut Ctx) {
        run_case(case, ctx);
    }

    fn rule() -> &'static str {
        "proptest: pool (2..8 buffers of 1..512 bytes) whose memory is filled with a canary pattern; the simulated kernel fills one buffer (after 0..3 other reads, to vary the slot) with generated bytes; then a generated edit sequence: truncate, clear, remove with every range form (a..b, a..=b, ..b, a.., .., (Excluded, _) starts, empty, at either end, reversed, out of bounds, usize::MAX bounds), set_len over initialised bytes, extend_from_slice (incl. exactly filling and exceeding capacity), writes through spare_capacity_mut + set_len, re-reads into the owned buffer, then release. Oracle: differential against a capacity-limited byte vector after every call (contents, len, is_empty, capacity); growth beyond capacity => Err and no change; invalid range => panic (as Vec::drain) and no change; all other slots and the buffer ring keep their canaries; the slot given back on release is the slot handed out. Non-trivial = a remove that shifts a tail, or an append that exactly fills capacity, or a rejected call. Distinct = (classes, 16-bit case hash)."
    }

    fn assumptions() -> Vec<&'static str> {
        vec!["simulated kernel's provided-buffer selection follows K8; set_len is only called over bytes the model knows to be initialised (its documented precondition)"]
    }
}

fn run_case(case: &Case, ctx: &mut Ctx) {
    let mut world = match World::new(&RingCfg::simple(3)) {
        Ok(w) => w,
        Err(e) => {
            ctx.infra(e);
            return;
        }
    };
    let fd = world.new_fd();
    let afd = world.fd(fd);
    let pool_size: u16 = 1 << case.pool_log2;
    let buf_size = case.buf_size.max(1) as usize;
    let pool = {
        let _s = track::scope(track::TAG_A10);
        ReadBufPool::new(world.sq(), pool_size, buf_size as u32)
    };
    let pool = match pool {
        Ok(p) => p,
        Err(e) => {
            ctx.infra(format!("ReadBufPool::new failed: {e}"));
            return;
        }
    };
    // Locate the pool memory through the entries a10 offered to the kernel.
    let offered = sim::sim().the_ring().offered_buffers_all();
    if offered.len() != pool_size as usize {
        ctx.violation("C15:pool-setup", format!("pool of {pool_size} buffers offered {} entries", offered.len()));
        return;
    }
    let base = offered.iter().map(|e| e.addr as usize).min().unwrap();
    let total = pool_size as usize * buf_size;
    // Canary over the whole pool.
    const CANARY: u8 = 0xCA;
    unsafe { std::ptr::write_bytes(base as *mut u8, CANARY, total) };

    let mut script = Script { frac: 0, seed: 1, done: Vec::new(), errors: Vec::new() };
    let ptr = ScriptPtr(&mut script as *mut Script);
    sim::sim().enter_hook = Some(Box::new(move |ring: &mut SimRing, info: &EnterInfo| {
        let ptr = &ptr;
        let script = unsafe { &mut *ptr.0 };
        for s in &info.consumed {
            script.handle(ring, *s);
        }
    }));

    let mut classes: Vec<&'static str> = Vec::new();
    let mut fail = |ctx: &mut Ctx, kind: &str, msg: String| {
        ctx.violation(&format!("C15:{kind}"), msg);
    };

    // Other reads first (their buffers are kept alive until the end).
    let mut others: Vec<(ReadBuf, usize, Vec<u8>)> = Vec::new();
    for k in 0..(case.skip as usize).min(pool_size as usize - 1) {
        script.frac = 30000;
        script.seed = 100 + k;
        let before = script.done.len();
        let r = drive(&mut world, { let _s = track::scope(track::TAG_A10); afd.read(pool.get()) });
        match r {
            Ok(Ok(b)) => {
                let (bid, data, _) = script.done[before].clone();
                others.push((b, bid, data));
            }
            Ok(Err(e)) => {
                ctx.infra(format!("setup read failed: {e}"));
                sim::sim().enter_hook = None;
                return;
            }
            Err(e) => {
                fail(ctx, "panic", e);
                sim::sim().enter_hook = None;
                return;
            }
        }
    }

    // The buffer under test.
    script.frac = case.fill;
    script.seed = 7;
    let before = script.done.len();
    let r = drive(&mut world, { let _s = track::scope(track::TAG_A10); afd.read(pool.get()) });
    let mut buf = match r {
        Ok(Ok(b)) => b,
        Ok(Err(e)) => {
            ctx.infra(format!("read failed: {e}"));
            sim::sim().enter_hook = None;
            return;
        }
        Err(e) => {
            fail(ctx, "panic", e);
            sim::sim().enter_hook = None;
            return;
        }
    };
    let (bid, data, slot_addr) = script.done[before].clone();
    // Model: bytes [0..hw) of the slot are known, len <= hw.
    let mut shadow: Vec<u8> = data.clone();
    let mut len = data.len();
    let cap = buf_size;

    let check = |buf: &ReadBuf, shadow: &[u8], len: usize, what: &str| -> Result<(), String> {
        if buf.len() != len || buf.is_empty() != (len == 0) || buf.capacity() != cap {
            return Err(format!("after {what}: len {} / is_empty {} / capacity {} but the model has len {len}, capacity {cap}", buf.len(), buf.is_empty(), buf.capacity()));
        }
        if buf.as_slice() != &shadow[..len] {
            return Err(format!("after {what}: contents differ from the model (len {len})"));
        }
        if len > 0 && (buf.as_slice().as_ptr().addr() != slot_addr) {
            return Err(format!("after {what}: the buffer no longer starts at its slot {slot_addr:#x}"));
        }
        // Canaries: every other slot.
        for s in 0..pool_size as usize {
            let addr = base + s * buf_size;
            if addr == slot_addr {
                continue;
            }
            let bytes = unsafe { std::slice::from_raw_parts(addr as *const u8, buf_size) };
            let owner = others.iter().find(|(_, b, _)| base + *b * buf_size == addr);
            let ok = match owner {
                Some((_, _, data)) => bytes[..data.len()] == data[..] && bytes[data.len()..].iter().all(|b| *b == CANARY),
                None => bytes.iter().all(|b| *b == CANARY),
            };
            if !ok {
                return Err(format!("after {what}: bytes of slot {s} (not the buffer's own slot) changed"));
            }
        }
        Ok(())
    };
    if let Err(e) = check(&buf, &shadow, len, "the initial read") {
        fail(ctx, "initial", e);
    }

    for (k, edit) in case.edits.iter().enumerate() {
        if ctx.failed() {
            break;
        }
        let what = format!("edit {k} {edit:?}");
        match edit {
            Edit::Truncate(f) => {
                let n = ((*f as usize) * (cap + 6)) >> 16;
                buf.truncate(n);
                if n <= len {
                    len = n;
                }
            }
            Edit::Clear => {
                buf.clear();
                len = 0;
            }
            Edit::Remove { start, end } => {
                let (sb, eb, valid) = resolve(*start, *end, len);
                let r = catch(|| buf.remove((sb, eb)));
                match (valid, r) {
                    (Ok((s, e)), Ok(())) => {
                        if e < len && s < e {
                            classes.push("remove-shifts-tail");
                        }
                        shadow.truncate(len);
                        shadow.drain(s..e);
                        len -= e - s;
                    }
                    (Err(()), Err(_)) => {
                        classes.push("rejected");
                    }
                    (Ok(_), Err((msg, _))) => {
                        fail(ctx, "valid-range-rejected", format!("{what}: a valid range (len {len}) panicked: {msg}"));
                    }
                    (Err(()), Ok(())) => {
                        // Not rejected: did it at least change nothing?
                        let changed = buf.len() != len || buf.as_slice() != &shadow[..len];
                        fail(ctx, "invalid-range-accepted", format!("{what}: an invalid range for a buffer of length {len} was not rejected ({})", if changed { "and the buffer was modified" } else { "the buffer was left unchanged" }));
                        // Adopt the observed state so the search can go on.
                        len = buf.len();
                        shadow = buf.as_slice().to_vec();
                    }
                }
            }
            Edit::SetLen(f) => {
                let n = ((*f as usize) * (shadow.len() + 1)) >> 16;
                unsafe { buf.set_len(n) };
                len = n;
            }
            Edit::Extend { len: l, exact_fill } => {
                let l = if *exact_fill { cap - len } else { *l as usize };
                let data: Vec<u8> = (0..l).map(|j| data_byte(200 + k, j)).collect();
                let r = buf.extend_from_slice(&data);
                if len + l <= cap {
                    if r.is_err() {
                        fail(ctx, "extend-refused", format!("{what}: appending {l} bytes to {len} of {cap} was refused"));
                    } else {
                        shadow.truncate(len.max(shadow.len()));
                        if shadow.len() < len + l {
                            shadow.resize(len + l, 0);
                        }
                        shadow[len..len + l].copy_from_slice(&data);
                        len += l;
                        if len == cap && l > 0 {
                            classes.push("filled-exactly");
                        }
                    }
                } else {
                    classes.push("rejected");
                    if r.is_ok() {
                        fail(ctx, "grew-beyond-capacity", format!("{what}: appending {l} bytes to {len} of {cap} was accepted"));
                    }
                }
            }
            Edit::SpareWrite(f) => {
                let spare = buf.spare_capacity_mut();
                if spare.len() != cap - len {
                    let l = spare.len();
                    fail(ctx, "spare-capacity", format!("{what}: spare_capacity_mut() has {l} bytes, expected {}", cap - len));
                    continue;
                }
                let n = ((*f as usize) * (spare.len() + 1)) >> 16;
                for (j, b) in spare[..n].iter_mut().enumerate() {
                    b.write(data_byte(300 + k, j));
                }
                unsafe { buf.set_len(len + n) };
                if shadow.len() < len + n {
                    shadow.resize(len + n, 0);
                }
                for j in 0..n {
                    shadow[len + j] = data_byte(300 + k, j);
                }
                len += n;
            }
            Edit::ReReadVia { frac, limit, via } => {
                let spare = buf_size - len;
                if spare == 0 {
                    continue;
                }
                // At least one byte, so that read_n(.., 1) needs one request.
                script.frac = *frac | 0x8000;
                script.seed = 500 + k;
                let before = script.done.len();
                let lim = 1 + (*limit as usize) % spare;
                let r: Result<std::io::Result<ReadBuf>, String> = if *via == 0 {
                    classes.push("reread-limited");
                    drive(&mut world, { let _s = track::scope(track::TAG_A10); afd.read(a10::io::BufMut::limit(buf, lim)) }).map(|r| r.map(a10::io::LimitedBuf::into_inner))
                } else {
                    classes.push("reread-read_n");
                    drive(&mut world, { let _s = track::scope(track::TAG_A10); afd.read_n(buf, 1) })
                };
                match r {
                    Ok(Ok(b)) => {
                        buf = b;
                        let new: Vec<(usize, Vec<u8>, usize)> = script.done[before..].to_vec();
                        for (which, data, addr) in new {
                            if which != usize::MAX {
                                fail(ctx, "reread-selected-new-buffer", format!("{what}: reading into an owned ReadBuf let the kernel select another buffer"));
                            } else if addr != slot_addr + len {
                                fail(ctx, "reread-address", format!("{what}: the read targets {addr:#x}, expected the spare part {:#x} of the buffer's slot", slot_addr + len));
                            }
                            if *via == 0 && data.len() > lim {
                                fail(ctx, "reread-limit", format!("{what}: {} bytes were read into a buffer limited to {lim}", data.len()));
                            }
                            if shadow.len() < len + data.len() {
                                shadow.resize(len + data.len(), 0);
                            }
                            shadow[len..len + data.len()].copy_from_slice(&data);
                            len += data.len();
                        }
                    }
                    Ok(Err(e)) => {
                        ctx.infra(format!("re-read failed: {e}"));
                        sim::sim().enter_hook = None;
                        return;
                    }
                    Err(e) => {
                        fail(ctx, "panic", e);
                        sim::sim().enter_hook = None;
                        return;
                    }
                }
            }
            Edit::ReRead(f) => {
                script.frac = *f;
                script.seed = 400 + k;
                let before = script.done.len();
                let r = drive(&mut world, { let _s = track::scope(track::TAG_A10); afd.read(buf) });
                match r {
                    Ok(Ok(b)) => {
                        buf = b;
                        if let Some((which, data, addr)) = script.done.get(before).cloned() {
                            if which != usize::MAX {
                                fail(ctx, "reread-selected-new-buffer", format!("{what}: reading into an owned ReadBuf let the kernel select another buffer"));
                            } else if addr != slot_addr + len {
                                fail(ctx, "reread-address", format!("{what}: second read targets {addr:#x}, expected the spare part {:#x}", slot_addr + len));
                            }
                            if shadow.len() < len + data.len() {
                                shadow.resize(len + data.len(), 0);
                            }
                            shadow[len..len + data.len()].copy_from_slice(&data);
                            len += data.len();
                        }
                    }
                    Ok(Err(e)) => {
                        ctx.infra(format!("re-read failed: {e}"));
                        sim::sim().enter_hook = None;
                        return;
                    }
                    Err(e) => {
                        fail(ctx, "panic", e);
                        sim::sim().enter_hook = None;
                        return;
                    }
                }
            }
        }
        if let Err(e) = check(&buf, &shadow, len, &what) {
            fail(ctx, "diverged", e);
        }
    }
    for e in script.errors.drain(..) {
        fail(ctx, "kernel-side", e);
    }

    // Release: the slot given back is the slot handed out.
    // (Every other case gives the buffer back by dropping it instead of
    // calling release(): whatever the edits left in it, also nothing.)
    let by_drop = case.edits.len() % 2 == 1;
    let mut buf = Some(buf);
    if !ctx.failed() {
        let offered_before = sim::sim().the_ring().offered_buffers_all();
        if by_drop {
            classes.push("given-back-by-drop");
            let _s = track::scope(track::TAG_A10);
            drop(buf.take());
        } else if let Some(b) = buf.as_mut() {
            b.release();
        }
        let offered_after = sim::sim().the_ring().offered_buffers_all();
        let new: Vec<_> = offered_after.iter().skip(offered_before.len()).collect();
        let ok = new.len() == 1 && new[0].bid as usize == bid && new[0].addr as usize == slot_addr && new[0].len as usize == buf_size;
        if !ok {
            fail(ctx, "release-wrong-slot", format!("{} gave back {:?}, expected exactly bid {bid} at {slot_addr:#x} with {buf_size} bytes", if by_drop { "dropping the buffer" } else { "release" }, new.iter().map(|e| (e.bid, e.addr, e.len)).collect::<Vec<_>>()));
        }
    }
    sim::sim().enter_hook = None;
    drop(buf);
    drop(others);
    drop(pool);
    drop(world);
    classes.sort();
    classes.dedup();
    for c in &classes {
        ctx.class(c);
    }
    ctx.nontrivial = !classes.is_empty();
    ctx.fingerprint = format!("{}|{:x}", classes.join("|"), crate::common::fnv(&format!("{case:?}")) & 0xffff);
}
