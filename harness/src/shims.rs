//! E2: interposed libc symbols `close`, `mmap`, `munmap`, `madvise`.
//!
//! The harness binary defines these four C symbols itself; because a10 is
//! linked statically into the harness, a10's `libc::close` etc. bind to them.
//! They forward with `syscall(2)` and keep a ledger. File-backed mappings of a
//! simulated ring descriptor are translated to the simulator's memfd layout
//! (and `IORING_OFF_CQ_RING` aliases `IORING_OFF_SQ_RING`, as the kernel does
//! with IORING_FEAT_SINGLE_MMAP).

use std::ffi::{c_int, c_void};
use std::sync::Mutex;

use crate::abi;
use crate::track;

#[derive(Clone, Debug, PartialEq, Eq)]
pub enum ShimEvent {
    Close { fd: i32, ret: i32 },
    Mmap { fd: i32, offset: u64, len: usize, addr: usize, errno: i32 },
    Munmap { addr: usize, len: usize, ret: i32 },
    Madvise { addr: usize, len: usize, advice: i32, ret: i32 },
}

#[derive(Copy, Clone, Debug)]
pub struct SimFd {
    pub fd: i32,
    /// Size of the rings region (page rounded), at file offset 0.
    pub ring_bytes: usize,
    /// File offset and size of the SQE array.
    pub sqes_off: usize,
    pub sqes_bytes: usize,
}

struct State {
    log: Vec<ShimEvent>,
    simfds: Vec<SimFd>,
    /// Fail the n-th (0-based) file-backed mmap / madvise on a sim fd mapping.
    fail_mmap_at: Option<(u32, i32)>,
    fail_madvise_at: Option<(u32, i32)>,
    /// close(2) calls that report EINTR (after releasing the descriptor, as
    /// Linux does).
    close_eintr: u32,
    mmap_count: u32,
    madvise_count: u32,
    /// Live mappings of sim fds made through the shim: (addr, len, fd).
    sim_maps: Vec<(usize, usize, i32)>,
    recording: bool,
}

static STATE: Mutex<State> = Mutex::new(State {
    log: Vec::new(),
    simfds: Vec::new(),
    fail_mmap_at: None,
    fail_madvise_at: None,
    close_eintr: 0,
    mmap_count: 0,
    madvise_count: 0,
    sim_maps: Vec::new(),
    recording: false,
});

fn with<R>(f: impl FnOnce(&mut State) -> R) -> R {
    let _scope = track::scope(track::TAG_HARNESS);
    let mut guard = match STATE.lock() {
        Ok(g) => g,
        Err(e) => e.into_inner(),
    };
    f(&mut guard)
}

fn set_errno(e: i32) {
    unsafe { *libc::__errno_location() = e };
}

fn errno() -> i32 {
    unsafe { *libc::__errno_location() }
}

pub fn register_simfd(info: SimFd) {
    with(|s| s.simfds.push(info));
}

pub fn unregister_simfd(fd: i32) {
    with(|s| s.simfds.retain(|i| i.fd != fd));
}

pub fn is_simfd(fd: i32) -> bool {
    with(|s| s.simfds.iter().any(|i| i.fd == fd))
}

/// Start a new ledger epoch: clears the log and the fault plan.
pub fn reset() {
    with(|s| {
        s.log.clear();
        s.fail_mmap_at = None;
        s.fail_madvise_at = None;
        s.close_eintr = 0;
        s.mmap_count = 0;
        s.madvise_count = 0;
        s.sim_maps.clear();
        s.recording = true;
    });
}

pub fn stop_recording() {
    with(|s| s.recording = false);
}

pub fn fail_mmap(nth: u32, errno: i32) {
    with(|s| s.fail_mmap_at = Some((nth, errno)));
}

pub fn fail_madvise(nth: u32, errno: i32) {
    with(|s| s.fail_madvise_at = Some((nth, errno)));
}

/// The next `n` close(2) calls close the descriptor and then fail with EINTR.
pub fn close_reports_eintr(n: u32) {
    with(|s| s.close_eintr = n);
}

pub fn take_log() -> Vec<ShimEvent> {
    with(|s| std::mem::take(&mut s.log))
}

pub fn log_snapshot() -> Vec<ShimEvent> {
    with(|s| s.log.clone())
}

/// Live mappings of simulated ring descriptors made by the tested code.
pub fn sim_maps() -> Vec<(usize, usize, i32)> {
    with(|s| s.sim_maps.clone())
}

/// `close(2)` without going through the shim (for the harness itself).
pub fn raw_close(fd: i32) -> i32 {
    unsafe { libc::syscall(libc::SYS_close, fd as libc::c_long) as i32 }
}

pub fn raw_mmap(len: usize, prot: i32, flags: i32, fd: i32, offset: i64) -> *mut c_void {
    let r = unsafe {
        libc::syscall(
            libc::SYS_mmap,
            0 as libc::c_long,
            len as libc::c_long,
            prot as libc::c_long,
            flags as libc::c_long,
            fd as libc::c_long,
            offset as libc::c_long,
        )
    };
    if r == -1 {
        libc::MAP_FAILED
    } else {
        r as *mut c_void
    }
}

pub fn raw_munmap(addr: *mut c_void, len: usize) -> i32 {
    unsafe { libc::syscall(libc::SYS_munmap, addr as libc::c_long, len as libc::c_long) as i32 }
}

#[unsafe(no_mangle)]
pub unsafe extern "C" fn close(fd: c_int) -> c_int {
    let _scope = track::scope(track::TAG_HARNESS);
    let ret = raw_close(fd);
    let e = errno();
    let eintr = with(|s| {
        if s.recording {
            s.log.push(ShimEvent::Close { fd, ret });
        }
        if ret == 0 && s.close_eintr > 0 && fd > 2 {
            s.close_eintr -= 1;
            true
        } else {
            false
        }
    });
    if ret == 0 {
        crate::sim::on_close(fd);
    }
    if eintr {
        // The descriptor is gone all the same (close(2), "Dealing with error
        // returns from close()").
        set_errno(libc::EINTR);
        return -1;
    }
    set_errno(e);
    ret
}

#[unsafe(no_mangle)]
pub unsafe extern "C" fn mmap(
    addr: *mut c_void,
    len: usize,
    prot: c_int,
    flags: c_int,
    fd: c_int,
    offset: libc::off_t,
) -> *mut c_void {
    let _scope = track::scope(track::TAG_HARNESS);
    if fd >= 0 {
        let info = with(|s| s.simfds.iter().find(|i| i.fd == fd).copied());
        if let Some(info) = info {
            // Fault injection.
            let fail = with(|s| {
                let n = s.mmap_count;
                s.mmap_count += 1;
                match s.fail_mmap_at {
                    Some((at, e)) if at == n => Some(e),
                    _ => None,
                }
            });
            let off = offset as u64;
            let translated = if fail.is_some() {
                None
            } else if off == abi::OFF_SQ_RING || off == abi::OFF_CQ_RING {
                (len <= info.ring_bytes && len > 0).then_some(0usize)
            } else if off == abi::OFF_SQES {
                (len <= info.sqes_bytes && len > 0).then_some(info.sqes_off)
            } else {
                None
            };
            let (ret, e) = match translated {
                Some(file_off) => {
                    // MAP_POPULATE etc. are passed through.
                    let r = raw_mmap(len, prot, flags, fd, file_off as i64);
                    (r, if r == libc::MAP_FAILED { errno() } else { 0 })
                }
                None => (libc::MAP_FAILED, fail.unwrap_or(libc::EINVAL)),
            };
            with(|s| {
                if ret != libc::MAP_FAILED {
                    s.sim_maps.push((ret.addr(), len, fd));
                }
                if s.recording {
                    s.log.push(ShimEvent::Mmap {
                        fd,
                        offset: off,
                        len,
                        addr: if ret == libc::MAP_FAILED { 0 } else { ret.addr() },
                        errno: e,
                    });
                }
            });
            set_errno(e);
            return ret;
        }
    }
    let r = unsafe {
        libc::syscall(
            libc::SYS_mmap,
            addr as libc::c_long,
            len as libc::c_long,
            prot as libc::c_long,
            flags as libc::c_long,
            fd as libc::c_long,
            offset as libc::c_long,
        )
    };
    if r == -1 { libc::MAP_FAILED } else { r as *mut c_void }
}

/// Descriptor pairs created through pipe2(2) (a10's fall-back when the kernel
/// refuses IORING_OP_PIPE).
static PIPE2_LOG: std::sync::Mutex<Vec<[i32; 2]>> = std::sync::Mutex::new(Vec::new());

pub fn take_pipe2() -> Vec<[i32; 2]> {
    let _scope = track::scope(track::TAG_HARNESS);
    std::mem::take(&mut *PIPE2_LOG.lock().unwrap_or_else(|e| e.into_inner()))
}

#[unsafe(no_mangle)]
pub unsafe extern "C" fn pipe2(fds: *mut c_int, flags: c_int) -> c_int {
    let _scope = track::scope(track::TAG_HARNESS);
    let ret = unsafe { libc::syscall(libc::SYS_pipe2, fds, flags) } as c_int;
    if ret == 0 && !fds.is_null() {
        let pair = unsafe { [fds.read(), fds.add(1).read()] };
        PIPE2_LOG.lock().unwrap_or_else(|e| e.into_inner()).push(pair);
    }
    ret
}

#[unsafe(no_mangle)]
pub unsafe extern "C" fn munmap(addr: *mut c_void, len: usize) -> c_int {
    let _scope = track::scope(track::TAG_HARNESS);
    let ret = raw_munmap(addr, len);
    let e = errno();
    with(|s| {
        let a = addr.addr();
        let is_sim = s.sim_maps.iter().any(|(ma, ml, _)| a < ma + ml && *ma < a + len.max(1));
        if is_sim {
            if ret == 0 {
                // Only an exact unmap removes the mapping from the live set;
                // partial unmaps are kept (and show up in the log).
                s.sim_maps.retain(|(ma, ml, _)| !(*ma == a && *ml == len));
            }
            if s.recording {
                s.log.push(ShimEvent::Munmap { addr: a, len, ret });
            }
        }
    });
    set_errno(e);
    ret
}

#[unsafe(no_mangle)]
pub unsafe extern "C" fn madvise(addr: *mut c_void, len: usize, advice: c_int) -> c_int {
    let _scope = track::scope(track::TAG_HARNESS);
    let a = addr.addr();
    let (is_sim, fail) = with(|s| {
        let is_sim = s.sim_maps.iter().any(|(ma, ml, _)| a >= *ma && a < ma + ml);
        let mut fail = None;
        if is_sim {
            let n = s.madvise_count;
            s.madvise_count += 1;
            if let Some((at, e)) = s.fail_madvise_at {
                if at == n {
                    fail = Some(e);
                }
            }
        }
        (is_sim, fail)
    });
    let (ret, e) = if let Some(e) = fail {
        (-1, e)
    } else {
        let r = unsafe {
            libc::syscall(
                libc::SYS_madvise,
                addr as libc::c_long,
                len as libc::c_long,
                advice as libc::c_long,
            ) as i32
        };
        (r, errno())
    };
    if is_sim {
        with(|s| {
            if s.recording {
                s.log.push(ShimEvent::Madvise { addr: a, len, advice, ret });
            }
        });
    }
    set_errno(e);
    ret
}
