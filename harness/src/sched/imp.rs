//! Baton-passing scheduler: real OS threads, exactly one runnable at a time.
//! Every a10 hook point and every simulated system call is a scheduling
//! point; the schedule is part of the generated case (a tape of choices; when
//! it is exhausted the scheduler continues round-robin so every run
//! terminates or ends in a detected no-runnable-thread state).

use std::sync::atomic::Ordering;
use std::sync::{Condvar, Mutex};

use super::{ACTIVE, Kind};

#[derive(Copy, Clone, Debug, PartialEq, Eq)]
pub enum Reason {
    /// Blocked in io_uring_enter on this ring descriptor.
    Ring(i32),
    /// Waiting for a token (waker) to be signalled.
    Token(u64),
}

#[derive(Copy, Clone, Debug, PartialEq, Eq)]
enum TState {
    Runnable,
    Parked(Reason),
    Finished,
}

/// PCT-style schedule (Burckhardt et al., "A randomized scheduler with
/// probabilistic guarantees of finding bugs"): every thread has a priority,
/// the runnable thread with the highest priority runs until it blocks or
/// finishes; at each of the `changes` step numbers the thread running at that
/// moment drops below everybody else. A bug that needs d-1 preemptions at
/// particular places is found with d-1 change points, and between them one
/// thread runs for as long as it can (which a per-point random choice almost
/// never does).
#[derive(Clone, Debug, Default, PartialEq, Eq, serde::Serialize, serde::Deserialize)]
pub struct Pct {
    /// Seed of the initial priority order of the threads.
    pub order: u16,
    /// Step numbers (scheduling points since the start) at which the running
    /// thread's priority is lowered.
    pub changes: Vec<u16>,
}

/// How the next thread is chosen at a scheduling point.
#[derive(Clone, Debug)]
pub enum Policy {
    /// One uniform choice among the runnable threads per point from the tape,
    /// round-robin once it is used up.
    Tape(Vec<u16>),
    Pct(Pct),
}

/// A thread that ran this many points in a row while others were runnable
/// is demoted as if a change point had been placed there (a thread spinning
/// on a condition only another thread can establish must not starve it).
const PCT_FAIRNESS: usize = 400;

struct State {
    /// PCT: priority per thread (higher runs first); empty in tape mode.
    prio: Vec<i64>,
    changes: Vec<usize>,
    next_low: i64,
    run_len: usize,
    threads: Vec<TState>,
    current: usize,
    tape: Vec<u16>,
    pos: usize,
    steps: usize,
    budget: usize,
    /// Set when the run is over (stuck, budget, or all finished): threads run
    /// free, parks return immediately.
    aborted: bool,
    stuck: bool,
    over_budget: bool,
    switches: usize,
    trace: Vec<(u8, String)>,
    rr: usize,
    record: bool,
    /// Signalled tokens (so a notify before the park is not lost).
    tokens: Vec<u64>,
    /// Points seen per thread between two switches, for non-triviality rules.
    interesting_switches: usize,
    /// Who was parked (and why) when the run got stuck.
    stuck_snapshot: Vec<(usize, String)>,
    /// Thread is spinning on a mutex held by somebody else.
    spinning: Vec<bool>,
}

impl State {
    fn mark_stuck(&mut self) {
        self.stuck = true;
        self.aborted = true;
        self.stuck_snapshot = self.threads.iter().enumerate().filter_map(|(i, t)| if let TState::Parked(r) = t { Some((i, format!("{r:?}"))) } else { None }).collect();
        ACTIVE.store(false, Ordering::SeqCst);
    }
}

static STATE: Mutex<Option<State>> = Mutex::new(None);
/// The step budget ran out: threads run free from here on; simulated system
/// calls fail so that a thread looping around one (in the code under test)
/// gets out and can be joined.
static POISON: std::sync::atomic::AtomicBool = std::sync::atomic::AtomicBool::new(false);

pub fn syscalls_poisoned() -> bool {
    POISON.load(Ordering::SeqCst)
}
static CV: Condvar = Condvar::new();

thread_local! {
    static TID: std::cell::Cell<usize> = const { std::cell::Cell::new(usize::MAX) };
}

fn lock() -> std::sync::MutexGuard<'static, Option<State>> {
    STATE.lock().unwrap_or_else(|e| e.into_inner())
}

fn me() -> usize {
    TID.with(std::cell::Cell::get)
}

#[derive(Clone, Debug, Default)]
pub struct Outcome {
    /// No runnable thread although some thread was still parked.
    pub stuck: bool,
    pub over_budget: bool,
    pub switches: usize,
    pub interesting_switches: usize,
    pub steps: usize,
    pub trace: Vec<(u8, String)>,
    pub parked_at_end: Vec<(usize, String)>,
    pub panics: Vec<String>,
}

impl State {
    /// Pick the next thread to run among the runnable ones; `exclude` must
    /// not be chosen (it is blocked on a mutex and has to hand the baton away).
    fn pick(&mut self, exclude: Option<usize>) -> Option<usize> {
        let runnable: Vec<usize> = self.threads.iter().enumerate().filter(|(i, t)| **t == TState::Runnable && Some(*i) != exclude).map(|(i, _)| i).collect();
        if runnable.is_empty() {
            return None;
        }
        if !self.prio.is_empty() {
            // Highest priority first; a thread spinning on a held mutex only
            // if nobody else can run.
            let calm: Vec<usize> = runnable.iter().copied().filter(|t| !self.spinning[*t]).collect();
            let cands = if calm.is_empty() { &runnable } else { &calm };
            return cands.iter().copied().max_by_key(|t| self.prio[*t]);
        }
        let choice = if self.pos < self.tape.len() {
            let t = self.tape[self.pos];
            self.pos += 1;
            runnable[((t as usize) * runnable.len()) >> 16]
        } else {
            // Round-robin in thread-id order after the current thread,
            // preferring threads that are not spinning on a held mutex (two
            // spinning threads handing the baton to each other would starve
            // the holder).
            let after = |cands: &[usize]| -> Option<usize> { cands.iter().copied().find(|t| *t > self.current).or(cands.first().copied()) };
            let calm: Vec<usize> = runnable.iter().copied().filter(|t| !self.spinning[*t]).collect();
            self.rr += 1;
            after(&calm).or(after(&runnable)).unwrap()
        };
        Some(choice)
    }
}

fn interesting(kind: Kind) -> bool {
    !matches!(kind, Kind::Syscall)
}

/// A scheduling point of the running thread.
pub fn yield_point(kind: Kind, addr: usize) {
    let tid = me();
    if tid == usize::MAX {
        return; // Not a scheduled thread.
    }
    let mut guard = lock();
    let Some(st) = guard.as_mut() else { return };
    if st.aborted {
        return;
    }
    st.steps += 1;
    if st.record && st.trace.len() < 4000 {
        st.trace.push((tid as u8, format!("{kind:?}@{:x}", addr & 0xfff)));
    }
    if st.steps > st.budget {
        st.over_budget = true;
        st.aborted = true;
        POISON.store(true, Ordering::SeqCst);
        ACTIVE.store(false, Ordering::SeqCst);
        CV.notify_all();
        return;
    }
    let blocked = matches!(kind, Kind::A10(a10::verif::Point::LockBlocked));
    st.spinning[tid] = blocked;
    if !st.prio.is_empty() {
        st.run_len += 1;
        let change = st.changes.contains(&st.steps);
        if change || st.run_len > PCT_FAIRNESS {
            st.prio[tid] = st.next_low;
            st.next_low -= 1;
            st.run_len = 0;
        }
    }
    let next = st.pick(if blocked { Some(tid) } else { None });
    match next {
        None => {
            if blocked {
                // Every other thread is parked or finished while we wait for a
                // mutex: nobody can release it.
                st.mark_stuck();
                CV.notify_all();
            }
        }
        Some(n) if n == tid => {}
        Some(n) => {
            st.switches += 1;
            st.run_len = 0;
            if interesting(kind) {
                st.interesting_switches += 1;
            }
            st.current = n;
            CV.notify_all();
            while guard.as_ref().is_some_and(|s| s.current != tid && !s.aborted) {
                guard = CV.wait(guard).unwrap_or_else(|e| e.into_inner());
            }
        }
    }
}

/// Park the running thread until `reason` is notified. Returns false if the
/// run was aborted (stuck / budget) instead.
pub fn park(reason: Reason) -> bool {
    let tid = me();
    if tid == usize::MAX {
        return false;
    }
    let mut guard = lock();
    let Some(st) = guard.as_mut() else { return false };
    if st.aborted {
        return false;
    }
    if let Reason::Token(t) = reason {
        if let Some(p) = st.tokens.iter().position(|x| *x == t) {
            st.tokens.remove(p);
            return true;
        }
    }
    st.threads[tid] = TState::Parked(reason);
    if st.record && st.trace.len() < 4000 {
        st.trace.push((tid as u8, format!("park {reason:?}")));
    }
    match st.pick(None) {
        Some(n) => {
            st.switches += 1;
            st.current = n;
            CV.notify_all();
        }
        None => {
            // Nobody can run: lost wake-up / deadlock.
            st.mark_stuck();
            CV.notify_all();
            return false;
        }
    }
    loop {
        guard = CV.wait(guard).unwrap_or_else(|e| e.into_inner());
        let Some(st) = guard.as_mut() else { return false };
        if st.aborted {
            return false;
        }
        if st.current == tid && st.threads[tid] == TState::Runnable {
            return true;
        }
    }
}

/// Make threads parked for `reason` runnable again (they still have to get
/// the baton). A token notified while nobody waits for it is remembered.
pub fn notify(reason: Reason) {
    if !ACTIVE.load(Ordering::Relaxed) {
        return;
    }
    let mut guard = lock();
    let Some(st) = guard.as_mut() else { return };
    let mut any = false;
    for t in st.threads.iter_mut() {
        if *t == TState::Parked(reason) {
            *t = TState::Runnable;
            any = true;
        }
    }
    if !any {
        if let Reason::Token(t) = reason {
            if !st.tokens.contains(&t) {
                st.tokens.push(t);
            }
        }
    }
}

/// Message of the panic that ends a thread which is still going round
/// inside the code under test long after the run was cut short (a loop that
/// makes no system call, so poisoned system calls cannot end it).
pub const SPIN_AFTER_ABORT: &str = "a10verif: still looping after the scheduled run was aborted";
const SPIN_LIMIT: u32 = 2_000_000;

thread_local! {
    static POINTS_AFTER_ABORT: std::cell::Cell<u32> = const { std::cell::Cell::new(0) };
}

fn point_fn(p: a10::verif::Point, addr: usize) {
    if ACTIVE.load(Ordering::Relaxed) {
        yield_point(Kind::A10(p), addr);
    } else {
        // A count, not a clock: two million hook points after the abort.
        let n = POINTS_AFTER_ABORT.with(|c| {
            c.set(c.get() + 1);
            c.get()
        });
        if n > SPIN_LIMIT && !std::thread::panicking() {
            POINTS_AFTER_ABORT.with(|c| c.set(0));
            panic!("{SPIN_AFTER_ABORT}");
        }
    }
}

fn block_fn(fd: i32) -> crate::sim::WaitOutcome {
    if park(Reason::Ring(fd)) { crate::sim::WaitOutcome::Progress } else { crate::sim::WaitOutcome::Interrupted }
}

/// Run `threads` under the scheduler with the given choice tape.
pub fn run(tape: Vec<u16>, budget: usize, record: bool, threads: Vec<Box<dyn FnOnce() + Send>>) -> Outcome {
    run_policy(Policy::Tape(tape), budget, record, threads)
}

/// `pct` if given, else the tape.
pub fn run_either(pct: &Option<Pct>, tape: &[u16], budget: usize, record: bool, threads: Vec<Box<dyn FnOnce() + Send>>) -> Outcome {
    match pct {
        Some(p) => run_policy(Policy::Pct(p.clone()), budget, record, threads),
        None => run_policy(Policy::Tape(tape.to_vec()), budget, record, threads),
    }
}

/// Initial PCT priorities: a permutation of n..=1 selected by `order`
/// (factorial number system), thread ids in generation order.
fn pct_priorities(n: usize, order: u16) -> Vec<i64> {
    let mut left: Vec<i64> = (1..=n as i64).rev().collect();
    let mut code = order as usize;
    let mut out = Vec::with_capacity(n);
    for k in (1..=n).rev() {
        out.push(left.remove(code % k));
        code /= k;
    }
    out
}

/// Run `threads` under the scheduler with the given policy.
pub fn run_policy(policy: Policy, budget: usize, record: bool, threads: Vec<Box<dyn FnOnce() + Send>>) -> Outcome {
    let n = threads.len();
    let (tape, prio, changes) = match policy {
        Policy::Tape(t) => (t, Vec::new(), Vec::new()),
        Policy::Pct(p) => (Vec::new(), pct_priorities(n, p.order), p.changes.iter().map(|c| *c as usize).collect()),
    };
    let first = if prio.is_empty() { 0 } else { (0..n).max_by_key(|t| prio[*t]).unwrap_or(0) };
    {
        let mut guard = lock();
        *guard = Some(State {
            prio,
            changes,
            next_low: 0,
            run_len: 0,
            threads: vec![TState::Runnable; n],
            current: first,
            tape,
            pos: 0,
            steps: 0,
            budget,
            aborted: false,
            stuck: false,
            over_budget: false,
            switches: 0,
            trace: Vec::new(),
            rr: 0,
            record,
            tokens: Vec::new(),
            interesting_switches: 0,
            stuck_snapshot: Vec::new(),
            spinning: vec![false; n],
        });
    }
    a10::verif::install_point(Some(point_fn));
    crate::sim::set_block_fn(Some(block_fn));
    ACTIVE.store(true, Ordering::SeqCst);
    let mut handles = Vec::new();
    for (tid, f) in threads.into_iter().enumerate() {
        handles.push(std::thread::spawn(move || {
            TID.with(|t| t.set(tid));
            POINTS_AFTER_ABORT.with(|c| c.set(0));
            // Wait for the baton.
            {
                let mut guard = lock();
                while guard.as_ref().is_some_and(|s| s.current != tid && !s.aborted) {
                    guard = CV.wait(guard).unwrap_or_else(|e| e.into_inner());
                }
            }
            let r = crate::runner::catch(f);
            // Finished: hand the baton on.
            let mut guard = lock();
            if let Some(st) = guard.as_mut() {
                st.threads[tid] = TState::Finished;
                if !st.aborted {
                    match st.pick(None) {
                        Some(nx) => {
                            st.current = nx;
                        }
                        None => {
                            if st.threads.iter().any(|t| matches!(t, TState::Parked(_))) {
                                st.mark_stuck();
                            }
                            st.aborted = true;
                            ACTIVE.store(false, Ordering::SeqCst);
                        }
                    }
                }
                CV.notify_all();
            }
            r.err().map(|(m, l)| format!("{l}: {m}"))
        }));
    }
    let mut panics = Vec::new();
    for h in handles {
        match h.join() {
            Ok(Some(p)) if p.contains(SPIN_AFTER_ABORT) => {}
            Ok(Some(p)) => panics.push(p),
            Ok(None) => {}
            Err(_) => panics.push("thread panicked outside catch".into()),
        }
    }
    ACTIVE.store(false, Ordering::SeqCst);
    POISON.store(false, Ordering::SeqCst);
    a10::verif::install_point(None);
    crate::sim::set_block_fn(None);
    let st = lock().take().unwrap();
    if std::env::var_os("A10VERIF_SCHED_STATS").is_some() {
        eprintln!("SCHED pct={} steps={} switches={} stuck={} over={}", !st.prio.is_empty(), st.steps, st.switches, st.stuck, st.over_budget);
    }
    Outcome {
        stuck: st.stuck,
        over_budget: st.over_budget,
        switches: st.switches,
        interesting_switches: st.interesting_switches,
        steps: st.steps,
        trace: st.trace,
        parked_at_end: st.stuck_snapshot,
        panics,
    }
}
