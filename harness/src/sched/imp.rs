//! Scheduler implementation (placeholder until the scheduled drivers land).

use super::Kind;

pub fn yield_point(_kind: Kind, _addr: usize) {}
