//! Coverage-guided search (libFuzzer) over the cases of one property: the
//! input bytes are the random stream of that property's proptest strategy.
//! The property is chosen with A10VERIF_FUZZ_PROP (C01..C18).
#![no_main]

use libfuzzer_sys::fuzz_target;

fuzz_target!(|data: &[u8]| {
    static PROP: std::sync::OnceLock<String> = std::sync::OnceLock::new();
    let prop = PROP.get_or_init(|| std::env::var("A10VERIF_FUZZ_PROP").unwrap_or_else(|_| "C15".to_string()));
    a10verif::fuzz_one(prop, data);
});
