//! C18 — ring construction is all-or-nothing and honours its configuration.
//! Fault enumeration: every generated configuration is built once per
//! refusal point of the complete list.

use std::task::{Context, Poll};
use std::time::Duration;

use a10::Ring;
use proptest::prelude::*;
use serde::{Deserialize, Serialize};

use crate::abi;
use crate::common::{Ctx, Tier};
use crate::interp::waker::WakerHandle;
use crate::interp::world::case_begin;
use crate::runner::{Property, catch};
use crate::shims::{self, ShimEvent};
use crate::sim::{self, SimEvent};
use crate::track;

#[derive(Clone, Debug, Serialize, Deserialize)]
pub struct Cfg {
    pub sq: SqSize,
    pub cq: Option<u32>,
    pub kernel_thread: bool,
    pub cpu: Option<u32>,
    /// Idle timeout in whole milliseconds (older replay files).
    #[serde(default)]
    pub idle_ms: Option<u32>,
    /// Idle timeout as (seconds, nanoseconds) (the request is a Duration; a10
    /// documents millisecond accuracy, the kernel field holds 32 bits of
    /// milliseconds).
    #[serde(default)]
    pub idle: Option<(u64, u32)>,
    pub single_issuer: bool,
    pub defer_taskrun: bool,
    pub disabled: bool,
    pub attach: bool,
    pub direct: Option<u32>,
}

#[derive(Copy, Clone, Debug, Serialize, Deserialize, PartialEq, Eq)]
pub enum SqSize {
    Entries(u32),
    /// `with_maximum_queue_size`
    Max,
}

#[derive(Copy, Clone, Debug, Serialize, Deserialize, PartialEq, Eq)]
pub enum Refusal {
    None,
    Setup(i32),
    /// Required feature bits removed (indices into REQUIRED).
    Feature(u8, Option<u8>),
    Mmap(u8),
    Madvise(u8),
    RegisterFiles,
    /// IORING_REGISTER_FILES2 fails with the k-th of REGISTER_ERRNOS (the
    /// errnos that mean "try again" elsewhere included).
    RegisterFilesErrno(u8),
}

const REGISTER_ERRNOS: [i32; 6] = [libc::EINTR, libc::ETIME, libc::EBUSY, libc::EFAULT, libc::EMFILE, libc::EAGAIN];

const REQUIRED: [u32; 4] = [abi::FEAT_NODROP, abi::FEAT_SUBMIT_STABLE, abi::FEAT_RW_CUR_POS, abi::FEAT_SQPOLL_NONFIXED];

pub fn all_refusals() -> Vec<Refusal> {
    let mut v = vec![Refusal::None];
    for e in [libc::EINVAL, libc::ENOMEM, libc::EPERM, libc::ENOSYS, libc::EMFILE] {
        v.push(Refusal::Setup(e));
    }
    for a in 0..4u8 {
        v.push(Refusal::Feature(a, None));
        for b in a + 1..4 {
            v.push(Refusal::Feature(a, Some(b)));
        }
    }
    for k in 0..3 {
        v.push(Refusal::Mmap(k));
    }
    for k in 0..3 {
        v.push(Refusal::Madvise(k));
    }
    v.push(Refusal::RegisterFiles);
    for k in 0..REGISTER_ERRNOS.len() as u8 {
        v.push(Refusal::RegisterFilesErrno(k));
    }
    v
}

fn open_fds() -> Vec<i32> {
    (3..512).filter(|fd| unsafe { libc::fcntl(*fd, libc::F_GETFD) } != -1).collect()
}

/// What the kernel would answer for this configuration (independent reading of
/// io_uring_setup(2)): Ok((sq_entries, cq_entries)) or EINVAL.
fn kernel_verdict(cfg: &Cfg, attach_ok: bool) -> Result<(u32, u32), i32> {
    let (entries, clamp) = match cfg.sq {
        SqSize::Entries(n) => (n, false),
        SqSize::Max => (u32::MAX, true),
    };
    if entries == 0 {
        return Err(libc::EINVAL);
    }
    let sq = if entries > 32768 {
        if !clamp {
            return Err(libc::EINVAL);
        }
        32768
    } else {
        entries.next_power_of_two()
    };
    let cq = match cfg.cq {
        Some(c) => {
            if c == 0 {
                return Err(libc::EINVAL);
            }
            let c = if c > 65536 {
                if !clamp {
                    return Err(libc::EINVAL);
                }
                65536
            } else {
                c.next_power_of_two()
            };
            if c < sq {
                return Err(libc::EINVAL);
            }
            c
        }
        None => 2 * sq,
    };
    if cfg.defer_taskrun && !cfg.single_issuer {
        return Err(libc::EINVAL);
    }
    if cfg.kernel_thread && cfg.defer_taskrun {
        return Err(libc::EINVAL);
    }
    if cfg.cpu.is_some() && !cfg.kernel_thread {
        return Err(libc::EINVAL);
    }
    if let Some(cpu) = cfg.cpu {
        let ncpu = unsafe { libc::sysconf(libc::_SC_NPROCESSORS_CONF) } as u32;
        if cpu >= ncpu {
            return Err(libc::EINVAL);
        }
    }
    if cfg.attach && !attach_ok {
        return Err(libc::EBADF);
    }
    Ok((sq, cq))
}

pub struct C18;

impl Property for C18 {
    const ID: &'static str = "C18";
    type Case = Cfg;

    fn strategy(_tier: Tier) -> BoxedStrategy<Cfg> {
        let sq = prop_oneof![
            1 => Just(SqSize::Entries(0)),
            6 => (0u32..7).prop_map(|l| SqSize::Entries(1 << l)),
            3 => (1u32..200).prop_map(SqSize::Entries),
            1 => Just(SqSize::Entries(32768)),
            1 => Just(SqSize::Entries(40000)),
            1 => Just(SqSize::Max),
        ];
        let cq = proptest::option::weighted(0.4, prop_oneof![1 => Just(0u32), 5 => (0u32..9).prop_map(|l| 1 << l), 3 => 1u32..600, 1 => Just(70000u32)]);
        (
            sq,
            cq,
            proptest::bool::weighted(0.3),
            proptest::option::weighted(0.25, prop_oneof![4 => 0u32..4, 1 => Just(100_000u32)]),
            proptest::option::weighted(
                0.3,
                prop_oneof![
                    1 => Just(0u128),
                    4 => (1u128..5000, 0u128..1_000_000).prop_map(|(ms, ns)| ms * 1_000_000 + ns),
                    2 => (0u128..4, 0u128..1_000_000).prop_map(|(d, ns)| (u32::MAX as u128 - d) * 1_000_000 + ns),
                    3 => (1u128..2000, 0u128..1_000_000).prop_map(|(d, ns)| (u32::MAX as u128 + d) * 1_000_000 + ns),
                    2 => (1u128..60, 0u128..5000).prop_map(|(k, ms)| ((k << 32) + ms) * 1_000_000),
                    1 => Just(u64::MAX as u128 * 1_000_000_000 + 999_999_999),
                ]
                .prop_map(|ns: u128| ((ns / 1_000_000_000) as u64, (ns % 1_000_000_000) as u32)),
            ),
            proptest::bool::weighted(0.35),
            proptest::bool::weighted(0.25),
            proptest::bool::weighted(0.3),
            proptest::bool::weighted(0.2),
            proptest::option::weighted(0.35, prop_oneof![4 => 1u32..64, 1 => Just(1u32 << 21)]),
        )
            .prop_map(|(sq, cq, kernel_thread, cpu, idle, single_issuer, defer_taskrun, disabled, attach, direct)| Cfg { sq, cq, kernel_thread, cpu, idle_ms: None, idle, single_issuer, defer_taskrun, disabled, attach, direct })
            .boxed()
    }

    fn cases(tier: Tier) -> u32 {
        tier.pick(8_000, 1_000_000)
    }

    fn level() -> &'static str {
        "fault_enumeration"
    }

    fn run(cfg: &Cfg, ctx: &mut Ctx) {
        let mut classes: Vec<String> = Vec::new();
        let refusals = all_refusals();
        for r in &refusals {
            if ctx.failed() {
                break;
            }
            if let Some(c) = run_one(cfg, *r, ctx) {
                classes.push(c);
            }
        }
        classes.sort();
        classes.dedup();
        for c in &classes {
            ctx.class(c);
        }
        ctx.nontrivial = classes.iter().any(|c| c == "refused-after-mmap" || c == "grant-differs");
        ctx.fingerprint = format!("{}|{:x}", classes.join("|"), crate::common::fnv(&format!("{cfg:?}")) & 0xffffff);
    }

    fn extra(_tier: Tier, _seed: u64, shard: u32, _of: u32, _known: &[crate::common::KnownFinding], out: &mut crate::common::ShardOut) {
        if shard == 0 {
            out.extra.insert("refusal_points_per_config".into(), serde_json::json!(all_refusals().len()));
            out.extra.insert("refusal_points".into(), serde_json::json!(all_refusals().iter().map(|r| format!("{r:?}")).collect::<Vec<_>>()));
            out.extra.insert("exhaustive".into(), serde_json::json!(true));
            out.extra.insert("exhaustive_note".into(), serde_json::json!("the refusal-point list is enumerated completely for every generated configuration; configurations are sampled"));
        }
    }

    fn rule() -> &'static str {
        "proptest configurations (queue sizes incl. 0, non-powers-of-two, > max with and without clamp; CQ size; kernel thread + affinity + idle; single issuer; defer taskrun; disabled; attach to a live ring; direct descriptors) each crossed with the COMPLETE refusal list: io_uring_setup fails (EINVAL, ENOMEM, EPERM, ENOSYS, EMFILE); each required feature bit missing singly and in pairs; mmap #1/#2/#3 fails; madvise after each mmap fails; REGISTER_FILES2 fails; no fault. Oracle on Err: ring descriptor closed exactly once, every successful mmap unmapped exactly once with its length, no heap block leaked, descriptor table unchanged, the error is the injected one (Unsupported for feature bits). On Ok: the io_uring_params seen by the simulator encode exactly the request, the ring works (enable when disabled, a probe operation completes, exactly the granted number of submissions is accepted before one waits, a full completion queue is processed) and drops cleanly. Non-trivial = a refusal at or after the first successful mmap, or a grant that differs from the request. Distinct = (classes, config hash)."
    }

    fn assumptions() -> Vec<&'static str> {
        vec!["simulated io_uring_setup applies the kernel's validation rules (K1); mmap/madvise faults are injected by the interposed libc symbols"]
    }
}

/// One build under one refusal. Returns a class label.
fn run_one(cfg: &Cfg, refusal: Refusal, ctx: &mut Ctx) -> Option<String> {
    let mark = case_begin();
    let fds_before = open_fds();
    let fail = |ctx: &mut Ctx, kind: &str, msg: String| {
        ctx.violation(&format!("C18:{kind}"), format!("{msg} (config {cfg:?}, refusal {refusal:?})"));
    };

    // A ring to attach to.
    let other = if cfg.attach {
        let r = {
            let _s = track::scope(track::TAG_A10);
            Ring::new()
        };
        match r {
            Ok(r) => Some(r),
            Err(e) => {
                ctx.infra(format!("helper ring: {e}"));
                return None;
            }
        }
    } else {
        None
    };
    let other_fd = sim::sim().rings.iter().find(|r| !r.closed).map(|r| r.fd);
    let mark_after_helper = track::mark();
    let events_before = sim::events_len();
    shims::reset();
    // Install the refusal.
    {
        let mut s = sim::sim();
        match refusal {
            Refusal::Setup(e) => s.cfg.setup_errno = Some(e),
            Refusal::Feature(a, b) => {
                s.cfg.features_remove = REQUIRED[a as usize] | b.map_or(0, |b| REQUIRED[b as usize]);
            }
            Refusal::RegisterFiles => s.cfg.register_fail = Some((abi::REGISTER_FILES2, libc::ENOMEM)),
            Refusal::RegisterFilesErrno(k) => s.cfg.register_fail = Some((abi::REGISTER_FILES2, REGISTER_ERRNOS[k as usize % REGISTER_ERRNOS.len()])),
            _ => {}
        }
    }
    match refusal {
        Refusal::Mmap(k) => shims::fail_mmap(k as u32, libc::ENOMEM),
        Refusal::Madvise(k) => shims::fail_madvise(k as u32, libc::EINVAL),
        _ => {}
    }

    let built = {
        let _s = track::scope(track::TAG_A10);
        catch(|| {
            let mut c = Ring::config();
            c = match cfg.sq {
                SqSize::Entries(n) => c.with_submission_queue_size(n),
                SqSize::Max => c.with_maximum_queue_size(),
            };
            if let Some(cq) = cfg.cq {
                c = c.with_completion_queue_size(cq);
            }
            if cfg.kernel_thread {
                c = c.with_kernel_thread();
            }
            if let Some(cpu) = cfg.cpu {
                c = c.with_cpu_affinity(cpu);
            }
            if let Some((secs, nanos)) = cfg.idle_duration() {
                c = c.with_idle_timeout(Duration::new(secs, nanos));
            }
            if cfg.single_issuer {
                c = c.single_issuer();
            }
            if cfg.defer_taskrun {
                c = c.defer_task_run();
            }
            if cfg.disabled {
                c = c.disable();
            }
            if let Some(n) = cfg.direct {
                c = c.with_direct_descriptors(n);
            }
            match &other {
                Some(o) => c.attach(o).build(),
                None => c.build(),
            }
        })
    };
    // Remove the fault plan (keeps the log).
    {
        let mut s = sim::sim();
        s.cfg.setup_errno = None;
        s.cfg.features_remove = 0;
        s.cfg.register_fail = None;
    }
    let built = match built {
        Ok(b) => b,
        Err((msg, loc)) => {
            fail(ctx, "panic", format!("Config::build panicked at {loc}: {msg}"));
            return None;
        }
    };

    // Independent expectation.
    let verdict = kernel_verdict(cfg, other_fd.is_some());
    let direct_verdict = |n: u32| if n == 0 { Err(libc::EINVAL) } else if n > 1 << 20 { Err(libc::EMFILE) } else { Ok(()) };
    let expect: Result<(u32, u32), (Option<i32>, bool)> = match (refusal, verdict) {
        (Refusal::Setup(e), _) => Err((Some(e), false)),
        (_, Err(e)) => Err((Some(e), false)),
        (Refusal::Feature(..), Ok(_)) => Err((None, true)),
        (Refusal::Mmap(_), Ok(_)) => Err((Some(libc::ENOMEM), false)),
        (Refusal::Madvise(_), Ok(_)) => Err((Some(libc::EINVAL), false)),
        (Refusal::RegisterFiles, Ok(g)) => match cfg.direct {
            Some(_) => Err((Some(libc::ENOMEM), false)),
            None => Ok(g),
        },
        (Refusal::RegisterFilesErrno(k), Ok(g)) => match cfg.direct {
            Some(_) => Err((Some(REGISTER_ERRNOS[k as usize % REGISTER_ERRNOS.len()]), false)),
            None => Ok(g),
        },
        (Refusal::None, Ok(g)) => match cfg.direct.map(direct_verdict) {
            Some(Err(e)) => Err((Some(e), false)),
            _ => Ok(g),
        },
    };

    let events = sim::events_since(events_before);
    let setup = events.iter().find_map(|e| if let SimEvent::Setup { fd, params_in, sq_entries, cq_entries } = e { Some((*fd, *params_in, *sq_entries, *cq_entries)) } else { None });
    let log = shims::log_snapshot();
    let mut class = None;

    // Normalise the error (an io::Error with a message owns heap blocks).
    let built: Result<Ring, (std::io::ErrorKind, Option<i32>, String)> = built.map_err(|e| {
        let _s = track::scope(track::TAG_A10);
        let r = (e.kind(), e.raw_os_error(), {
            let _h = track::scope(track::TAG_HARNESS);
            format!("{e:?}")
        });
        drop(e);
        r
    });
    match (built, expect) {
        (Err((err_kind, err_raw, err)), Err((errno, unsupported))) => {
            // The error is the injected one.
            if unsupported {
                if err_kind != std::io::ErrorKind::Unsupported {
                    fail(ctx, "wrong-error", format!("a missing required feature must be reported as Unsupported, got {err}"));
                }
            } else if err_raw != errno {
                fail(ctx, "wrong-error", format!("build failed with {err}, the kernel answered errno {errno:?}"));
            }
            // Nothing left behind.
            let mut maps: Vec<(usize, usize)> = Vec::new();
            for e in &log {
                match e {
                    ShimEvent::Mmap { addr, len, .. } if *addr != 0 => maps.push((*addr, *len)),
                    ShimEvent::Munmap { addr, len, ret } => {
                        if let Some(p) = maps.iter().position(|m| *m == (*addr, *len)) {
                            if *ret == 0 {
                                maps.remove(p);
                            }
                        } else {
                            fail(ctx, "munmap-mismatch", format!("munmap({addr:#x}, {len}) does not match a mapping made by build (live: {maps:?})"));
                        }
                    }
                    _ => {}
                }
            }
            if !maps.is_empty() {
                fail(ctx, "mapping-leaked", format!("build failed but left {} ring mappings behind: {maps:?}", maps.len()));
            }
            if let Some((fd, ..)) = setup {
                let closes = log.iter().filter(|e| matches!(e, ShimEvent::Close { fd: f, ret: 0 } if *f == fd)).count();
                if closes != 1 {
                    fail(ctx, "ring-fd-leaked", format!("build failed after io_uring_setup succeeded; the ring descriptor {fd} was closed {closes} times (expected once)"));
                }
                if !maps.is_empty() || log.iter().any(|e| matches!(e, ShimEvent::Mmap { addr, .. } if *addr != 0)) {
                    class = Some("refused-after-mmap".to_string());
                } else {
                    class = Some("refused-after-setup".to_string());
                }
            } else {
                class = Some("refused-by-setup".to_string());
            }
            let leaks = track::live_since(mark_after_helper);
            if !leaks.is_empty() {
                fail(ctx, "heap-leaked", format!("build failed but {} heap blocks are still allocated", leaks.len()));
                track::forget_since(mark_after_helper);
            }
        }
        (Ok(ring), Ok((sq_grant, cq_grant))) => {
            let (fd, p, sq_entries, cq_entries) = setup.expect("Ok without a setup event");
            // The params encode exactly the request.
            let mut want_flags = abi::SETUP_SUBMIT_ALL | abi::SETUP_NO_SQARRAY;
            want_flags |= if cfg.kernel_thread { abi::SETUP_SQPOLL } else { abi::SETUP_COOP_TASKRUN };
            if cfg.disabled {
                want_flags |= abi::SETUP_R_DISABLED;
            }
            if cfg.single_issuer {
                want_flags |= abi::SETUP_SINGLE_ISSUER;
            }
            if cfg.defer_taskrun {
                want_flags |= abi::SETUP_DEFER_TASKRUN;
            }
            if cfg.cq.is_some() {
                want_flags |= abi::SETUP_CQSIZE;
            }
            if cfg.sq == SqSize::Max {
                want_flags |= abi::SETUP_CLAMP;
            }
            if cfg.cpu.is_some() {
                want_flags |= abi::SETUP_SQ_AFF;
            }
            if cfg.attach {
                want_flags |= abi::SETUP_ATTACH_WQ;
            }
            let want_entries = match cfg.sq {
                SqSize::Entries(n) => n,
                SqSize::Max => u32::MAX,
            };
            if p.flags != want_flags {
                fail(ctx, "params-flags", format!("io_uring_setup flags {:#x}, the configuration asks for {want_flags:#x}", p.flags));
            }
            if p.sq_entries != want_entries || cfg.cq.is_some_and(|c| p.cq_entries != c) {
                fail(ctx, "params-sizes", format!("io_uring_setup sizes sq {} cq {}, requested sq {want_entries} cq {:?}", p.sq_entries, p.cq_entries, cfg.cq));
            }
            if p.sq_thread_cpu != cfg.cpu.unwrap_or(0) || p.sq_thread_idle != cfg.idle_duration().map_or(0, |(s, n)| u32::try_from(s as u128 * 1000 + n as u128 / 1_000_000).unwrap_or(u32::MAX)) {
                fail(ctx, "params-thread", format!("sq_thread_cpu {} / sq_thread_idle {} do not match the request (cpu {:?}, idle {:?} (s, ns): whole milliseconds, saturating at the 32 bits the kernel field holds)", p.sq_thread_cpu, p.sq_thread_idle, cfg.cpu, cfg.idle_duration()));
            }
            if cfg.attach && Some(p.wq_fd as i32) != other_fd {
                fail(ctx, "params-attach", format!("wq_fd {} is not the ring to attach to ({other_fd:?})", p.wq_fd));
            }
            // (Self-check of the verdict model; when a10 handed the kernel
            // other parameters than configured, which is reported above, the
            // two legitimately differ.)
            if (sq_entries, cq_entries) != (sq_grant, cq_grant) && !ctx.failed() {
                ctx.infra(format!("simulator granted ({sq_entries},{cq_entries}) but the verdict model says ({sq_grant},{cq_grant})"));
            }
            if sq_entries != want_entries || cfg.cq.is_some_and(|c| c != cq_entries) {
                class = Some("grant-differs".to_string());
            } else {
                class = Some("built".to_string());
            }
            if let Some(n) = cfg.direct {
                let registered = sim::sim().ring(fd).map(|r| r.files.len());
                if registered != Some(n as usize) {
                    fail(ctx, "direct-slots", format!("{n} direct descriptor slots requested, {registered:?} registered"));
                }
            }
            // The ring works.
            if !ctx.failed() {
                probe(ring, cfg, fd, sq_entries, cq_entries, ctx, &fail);
            } else {
                let _s = track::scope(track::TAG_A10);
                drop(ring);
            }
            // Dropped cleanly: mappings and descriptor gone.
            let log = shims::log_snapshot();
            let mapped = log.iter().filter(|e| matches!(e, ShimEvent::Mmap { addr, .. } if *addr != 0)).count();
            let unmapped = log.iter().filter(|e| matches!(e, ShimEvent::Munmap { ret: 0, .. })).count();
            if mapped != 3 || unmapped != 3 {
                fail(ctx, "mapping-count", format!("a built ring made {mapped} mappings and, once dropped, {unmapped} unmappings (expected 3 and 3)"));
            }
        }
        (Ok(ring), Err((errno, unsupported))) => {
            fail(ctx, "built-despite-refusal", format!("build returned a Ring although the kernel refused (errno {errno:?}, missing feature {unsupported})"));
            let _s = track::scope(track::TAG_A10);
            let _ = catch(|| drop(ring));
        }
        (Err((_, _, err)), Ok(_)) => {
            fail(ctx, "refused-without-cause", format!("build failed with {err} although the kernel accepted everything"));
        }
    }
    {
        let _s = track::scope(track::TAG_A10);
        drop(other);
    }
    if !ctx.failed() {
        let leaks = track::live_since(mark);
        if !leaks.is_empty() {
            fail(ctx, "heap-leaked", format!("{} heap blocks are still allocated after the ring(s) were dropped: {:?}", leaks.len(), leaks.iter().take(4).map(|b| (b.size, b.tag)).collect::<Vec<_>>()));
            track::forget_since(mark);
        }
        let fds_after = open_fds();
        if fds_after != fds_before {
            fail(ctx, "descriptor-table", format!("descriptor table changed: before {fds_before:?}, after {fds_after:?}"));
        }
    } else {
        track::forget_since(mark);
    }
    class
}

/// Exercise a freshly built ring: enable, queue until full, complete, fill the CQ.
fn probe(mut ring: Ring, cfg: &Cfg, ring_fd: i32, sq_entries: u32, cq_entries: u32, ctx: &mut Ctx, fail: &dyn Fn(&mut Ctx, &str, String)) {
    let _s = track::scope(track::TAG_A10);
    if cfg.disabled {
        // Submissions are refused until enabled.
        if let Err(e) = ring.enable() {
            fail(ctx, "enable-failed", format!("Ring::enable failed: {e}"));
            return;
        }
        if !sim::sim().ring(ring_fd).is_some_and(|r| r.enabled) {
            fail(ctx, "enable-not-issued", "Ring::enable did not issue IORING_REGISTER_ENABLE_RINGS".into());
            return;
        }
    }
    let sq = ring.sq();
    let raw = {
        let _h = track::scope(track::TAG_HARNESS);
        sim::sim().issue_fd()
    };
    let afd = unsafe { a10::AsyncFd::from_raw_fd(raw, sq.clone()) };
    // Bounded probe for huge queues.
    let n = sq_entries.min(300) as usize;
    let check_full = sq_entries <= 300;
    let waker = WakerHandle::new();
    let mut futs = Vec::new();
    for k in 0..n + usize::from(check_full) {
        let mut f = Box::pin(afd.truncate(1000 + k as u64));
        let mut cx = Context::from_waker(&waker.waker);
        let tail_before = sim::sim().ring(ring_fd).map_or(0, |r| r.sq_tail());
        let r = catch(|| std::future::Future::poll(f.as_mut(), &mut cx));
        let tail_after = sim::sim().ring(ring_fd).map_or(0, |r| r.sq_tail());
        match r {
            Err((msg, loc)) => {
                std::mem::forget(f);
                fail(ctx, "panic", format!("probe submission panicked at {loc}: {msg}"));
                return;
            }
            Ok(Poll::Ready(r)) => {
                fail(ctx, "probe", format!("probe operation resolved before the kernel saw it: {r:?}"));
                return;
            }
            Ok(Poll::Pending) => {
                let accepted = tail_after != tail_before;
                if k < n && !accepted {
                    fail(ctx, "queue-smaller-than-granted", format!("submission {k} was not accepted although the kernel granted {sq_entries} entries"));
                    return;
                }
                if k == n && accepted {
                    fail(ctx, "queue-larger-than-granted", format!("submission {k} was accepted although the kernel granted only {sq_entries} entries"));
                    return;
                }
            }
        }
        futs.push(f);
    }
    // Let the kernel consume and complete everything that was accepted.
    let hook: sim::EnterHook = Box::new(move |ring, info| {
        for s in &info.consumed {
            if ring.req(*s).is_some_and(|r| r.sqe.user_data >= 4 && !r.done) {
                ring.complete(*s, 0, 0, false);
            }
        }
    });
    sim::sim().enter_hook = Some(hook);
    for _ in 0..4 {
        if cfg.kernel_thread {
            let _h = track::scope(track::TAG_HARNESS);
            let mut s = sim::sim();
            if let Some(idx) = s.ring_index(ring_fd) {
                let serials = s.sqpoll_consume(idx);
                for serial in serials {
                    if s.rings[idx].req(serial).is_some_and(|r| r.sqe.user_data >= 4 && !r.done) {
                        s.rings[idx].complete(serial, 0, 0, false);
                    }
                }
            }
        }
        match catch(|| ring.poll(Some(Duration::ZERO))) {
            Err((msg, loc)) => {
                fail(ctx, "panic", format!("Ring::poll on the new ring panicked at {loc}: {msg}"));
                break;
            }
            Ok(Err(e)) => {
                fail(ctx, "ring-poll-error", format!("Ring::poll on the new ring failed: {e}"));
                break;
            }
            Ok(Ok(())) => {}
        }
    }
    sim::sim().enter_hook = None;
    let mut done = 0;
    for f in futs.iter_mut().take(n) {
        let mut cx = Context::from_waker(&waker.waker);
        if let Ok(Poll::Ready(Ok(()))) = catch(|| std::future::Future::poll(f.as_mut(), &mut cx)) {
            done += 1;
        }
    }
    if done != n && !ctx.failed() {
        fail(ctx, "probe-incomplete", format!("{done} of {n} probe operations completed on the new ring"));
    }
    drop(futs);
    // The completion queue accepts the granted number of entries: fill it
    // with bookkeeping completions and let the ring process them.
    let fill = cq_entries.min(4096);
    {
        let _h = track::scope(track::TAG_HARNESS);
        let mut s = sim::sim();
        if let Some(r) = s.ring(ring_fd) {
            for _ in 0..fill {
                r.post_raw(abi::Cqe { user_data: 1, res: 0, flags: 0 }, 0);
            }
        }
    }
    match catch(|| ring.poll(Some(Duration::ZERO))) {
        Err((msg, loc)) => fail(ctx, "panic", format!("processing a full completion queue panicked at {loc}: {msg}")),
        Ok(Err(e)) => fail(ctx, "ring-poll-error", format!("Ring::poll failed: {e}")),
        Ok(Ok(())) => {
            let left = sim::sim().ring(ring_fd).map_or(0, |r| r.cq_ready());
            if left != 0 {
                fail(ctx, "cq-not-drained", format!("{left} of {fill} completions left in a full completion queue"));
            }
        }
    }
    drop(afd);
    drop(sq);
    let _ = catch(|| drop(ring));
}

impl Cfg {
    fn idle_duration(&self) -> Option<(u64, u32)> {
        self.idle.or(self.idle_ms.map(|ms| ((ms / 1000) as u64, (ms % 1000) * 1_000_000)))
    }
}
