//! C08 — ReadBufPool buffers are conserved and exclusively owned.

use std::collections::BTreeMap;
use std::future::Future;
use std::pin::Pin;
use std::task::{Context, Poll};
use std::time::Duration;

use a10::io::{ReadBuf, ReadBufPool};
use proptest::prelude::*;
use serde::{Deserialize, Serialize};

use crate::abi;
use crate::common::{Ctx, KnownFinding, ShardOut, Tier, pick_index};
use crate::interp::waker::WakerHandle;
use crate::interp::world::{RingCfg, World};
use crate::runner::{Property, catch};
use crate::sim::{self, EnterInfo, SimRing};
use crate::track;

#[derive(Copy, Clone, Debug, Serialize, Deserialize, PartialEq, Eq)]
pub enum ReadKind {
    Read,
    Recv,
    MultishotRead,
    MultishotRecv,
}

#[derive(Clone, Debug, Serialize, Deserialize)]
pub enum PStep {
    Start(ReadKind),
    Poll { op: u16 },
    DropOp { op: u16 },
    /// Kernel completes (one CQE of) an in-flight pool read: `frac` of the
    /// buffer is filled; `more` keeps a multishot armed; `fail` posts an error.
    Complete { op: u16, frac: u16, more: bool, fail: bool },
    RingPoll,
    Truncate { buf: u16, frac: u16 },
    Extend { buf: u16, len: u8 },
    /// `ReadBuf::remove(start..end)`: `at`/`len` scale into the contents.
    Remove { buf: u16, at: u16, len: u16 },
    Release { buf: u16 },
    DropBuf { buf: u16, on_thread: bool },
    /// Read again into an owned buffer: `read` (0), `read_vectored` of a
    /// one-element array (1) or `recv_vectored` (2): the vectored forms hand
    /// the kernel an iovec built from the buffer's spare part.
    ReRead {
        buf: u16,
        #[serde(default)]
        form: u8,
        /// Empty the buffer first (1: truncate(0), 2: remove(..)): it still
        /// owns its slot and must be read into again.
        #[serde(default)]
        empty_first: u8,
    },
    ClonePool,
    DropPoolHandle,
}

#[derive(Clone, Debug, Serialize, Deserialize)]
pub struct SeqCase {
    pub pool_log2: u8,
    pub buf_size: u16,
    pub steps: Vec<PStep>,
    /// Buffers of `buf_size << big_shift` bytes (up to 2 GiB each, a pool of
    /// more than 4 GiB; address space only, the kernel writes a few KiB).
    #[serde(default)]
    pub big_shift: u8,
    /// Complete read -> ReadBuf -> give back cycles before the steps (walks
    /// the ring through the buffer ids).
    #[serde(default)]
    pub pre_cycles: u8,
    /// Before the pool of the case is created, a first `ReadBufPool::new` is
    /// refused by the kernel (IORING_REGISTER_PBUF_RING fails with the k-th
    /// of a few errnos): it must fail with that error and leave nothing
    /// behind.
    #[serde(default)]
    pub new_refused: Option<u8>,
}

/// C08b: ReadBufs released concurrently from several threads while the kernel
/// takes buffers, under the baton scheduler.
#[derive(Clone, Debug, Serialize, Deserialize)]
pub struct PoolSched {
    pub pool_log2: u8,
    pub buf_size: u16,
    /// Buffers taken (sequentially) before the threads start.
    pub take: u8,
    /// Sequential take+release cycles before that (moves the ring tail).
    pub pre_cycles: u8,
    /// Per releaser thread: how many of the taken buffers it gives back.
    pub releasers: Vec<u8>,
    /// Buffer selections of the kernel thread.
    pub kernel_selects: u8,
    pub pool_tape: Vec<u16>,
    /// Priority schedule (few preemptions, long runs) instead of the tape.
    #[serde(default)]
    pub pct: Option<crate::sched::Pct>,
}

#[derive(Clone, Debug, Serialize, Deserialize)]
#[serde(untagged)]
pub enum Case {
    Seq(SeqCase),
    Sched(PoolSched),
}

enum Fut {
    Single(Pin<Box<dyn Future<Output = std::io::Result<ReadBuf>>>>),
    Multi(Pin<Box<a10::io::MultishotRead<'static>>>),
    MultiRecv(Pin<Box<a10::net::MultishotRecv<'static>>>),
}

struct POp {
    kind: ReadKind,
    fut: Option<Fut>,
    user_data: u64,
    serial: Option<u64>,
    /// Results the kernel posted, not yet delivered: (bid, bytes) or error.
    posted: Vec<Result<(u16, Vec<u8>), i32>>,
    finished_posting: bool,
    done: bool,
    /// Re-read into an owned buffer: index of the buffer.
    into_owned: Option<usize>,
}

struct PBuf {
    buf: Option<ReadBuf>,
    bid: u16,
    content: Vec<u8>,
}

#[derive(Copy, Clone, Debug, PartialEq, Eq)]
enum Owner {
    Kernel,
    /// Held by a completion the kernel posted but the application has not
    /// received yet.
    InCompletion,
    Owned(usize),
    /// Delivered to an operation whose future was dropped (lost).
    Lost,
}

struct Exec<'c> {
    world: World,
    fd: usize,
    pools: Vec<ReadBufPool>,
    ops: Vec<POp>,
    bufs: Vec<PBuf>,
    owner: BTreeMap<u16, Owner>,
    base: usize,
    pool_size: u16,
    buf_size: usize,
    bgid: u16,
    ctx: &'c mut Ctx,
    events_seen: usize,
    classes: Vec<&'static str>,
    stop: bool,
    releases: u64,
}

struct ExecPtr(*mut ());
unsafe impl Send for ExecPtr {}

fn byte(seed: usize, j: usize) -> u8 {
    (seed.wrapping_mul(29).wrapping_add(j.wrapping_mul(5)).wrapping_add(3)) as u8
}

impl<'c> Exec<'c> {
    fn fail(&mut self, kind: &str, msg: String) {
        if self.ctx.violation(&format!("C08:{kind}"), msg) {
            self.stop = true;
        }
    }

    fn sync(&mut self) {
        let events = sim::events_since(self.events_seen);
        self.events_seen += events.len();
        for e in events {
            if let sim::SimEvent::Consumed { serial, sqe, .. } = e {
                if sqe.user_data >= 4 {
                    if let Some(op) = self.ops.iter_mut().find(|o| o.user_data == sqe.user_data && o.serial.is_none() && !o.finished_posting) {
                        op.serial = Some(serial);
                    }
                }
            }
        }
        for (sig, msg) in sim::take_violations() {
            if sig.starts_with("C01") {
                self.fail("pool-memory", msg);
            }
        }
        if let Some(u) = sim::take_unsupported() {
            self.ctx.infra(format!("unsupported simulator request: {u}"));
            self.stop = true;
        }
    }

    /// Ownership invariants that must hold after every step.
    fn invariants(&mut self, what: &str) {
        // ReadBuf contents are never overwritten.
        for i in 0..self.bufs.len() {
            if let Some(b) = &self.bufs[i].buf {
                if b.as_slice() != &self.bufs[i].content[..] {
                    let bid = self.bufs[i].bid;
                    self.fail("readbuf-overwritten", format!("after {what}: the bytes held by the ReadBuf for buffer {bid} changed"));
                    return;
                }
            }
        }
        // Offered set: well formed, no duplicates, never an owned buffer.
        let offered = sim::sim().the_ring().offered_buffers(self.bgid);
        let mut seen = std::collections::BTreeSet::new();
        for e in &offered {
            let well = e.bid < self.pool_size && e.addr as usize == self.base + e.bid as usize * self.buf_size && e.len as usize == self.buf_size;
            if !well {
                self.fail("malformed-entry", format!("after {what}: ring entry {{addr {:#x}, len {}, bid {}}} is not a buffer of the pool (base {:#x}, size {})", e.addr, e.len, e.bid, self.base, self.buf_size));
                return;
            }
            if !seen.insert(e.bid) {
                self.fail("offered-twice", format!("after {what}: buffer {} is offered to the kernel twice", e.bid));
                return;
            }
            match self.owner.get(&e.bid) {
                Some(Owner::Owned(i)) => {
                    let i = *i;
                    self.fail("offered-while-owned", format!("after {what}: buffer {} is offered to the kernel while ReadBuf #{i} owns it", e.bid));
                    return;
                }
                Some(Owner::InCompletion) => {
                    self.fail("offered-while-in-completion", format!("after {what}: buffer {} is offered to the kernel while a completion carrying it is pending", e.bid));
                    return;
                }
                _ => {}
            }
        }
        // Everything the model says is with the kernel must be offered.
        for (bid, o) in &self.owner {
            if *o == Owner::Kernel && !seen.contains(bid) {
                let bid = *bid;
                self.fail("buffer-lost", format!("after {what}: buffer {bid} is neither offered to the kernel nor owned by a ReadBuf"));
                return;
            }
        }
    }

    fn kernel_complete(&mut self, ring: &mut SimRing, i: usize, frac: u16, more: bool, fail: bool) {
        let Some(serial) = self.ops[i].serial else { return };
        let Some(req) = ring.req(serial).cloned() else { return };
        if req.done {
            return;
        }
        let multishot = matches!(self.ops[i].kind, ReadKind::MultishotRead | ReadKind::MultishotRecv);
        let more = more && multishot;
        if fail {
            let e = libc::ECONNRESET;
            ring.complete(serial, -e, 0, false);
            self.ops[i].posted.push(Err(e));
            self.ops[i].finished_posting = true;
            return;
        }
        if req.sqe.flags & abi::IOSQE_BUFFER_SELECT == 0 {
            // Second read into an owned buffer.
            let region = req.regions.iter().find(|r| r.what == "buffer" || r.what == "iovec-target").cloned();
            let size = region.as_ref().map_or(0, |r| r.len);
            // (Huge buffers only get their first pages written.)
            let n = ((frac as usize) * (size.min(8192) + 1)) >> 16;
            let data: Vec<u8> = (0..n).map(|j| byte(serial as usize, j)).collect();
            if let Some(r) = &region {
                if !sim::regions::write_region(r, 0, &data) {
                    self.fail("owned-buffer-moved", "destination of a read into an owned ReadBuf is not valid".into());
                }
                // Must lie inside the owned slot.
                if let Some(b) = self.ops[i].into_owned {
                    let slot = self.base + self.bufs[b].bid as usize * self.buf_size;
                    if r.addr < slot || r.addr + r.len > slot + self.buf_size {
                        self.fail("owned-read-outside-slot", format!("read into owned buffer {} targets {:#x}+{} outside its slot {slot:#x}+{}", self.bufs[b].bid, r.addr, r.len, self.buf_size));
                    }
                }
            }
            ring.complete(serial, n as i32, 0, false);
            self.ops[i].posted.push(Ok((u16::MAX, data)));
            self.ops[i].finished_posting = true;
            return;
        }
        if let Some(b) = self.ops[i].into_owned {
            self.fail("owned-read-selects-buffer", format!("a read into the ReadBuf that owns buffer {} asks the kernel to select a buffer (IOSQE_BUFFER_SELECT): the buffer it owns is not used and the selected one cannot be accounted for", self.bufs[b].bid));
            ring.complete(serial, -libc::ECANCELED, 0, false);
            self.ops[i].posted.push(Err(libc::ECANCELED));
            self.ops[i].finished_posting = true;
            return;
        }
        match ring.select_buffer(req.sqe.buf_group) {
            None => {
                ring.complete(serial, -libc::ENOBUFS, 0, false);
                self.ops[i].posted.push(Err(libc::ENOBUFS));
                self.ops[i].finished_posting = true;
                self.classes.push("enobufs");
            }
            Some(entry) => {
                let well = entry.bid < self.pool_size && entry.addr as usize == self.base + entry.bid as usize * self.buf_size && entry.len as usize == self.buf_size;
                if !well {
                    self.fail("malformed-entry", format!("the kernel took ring entry {{addr {:#x}, len {}, bid {}}} which is not a buffer of the pool", entry.addr, entry.len, entry.bid));
                    ring.complete(serial, -libc::EFAULT, 0, false);
                    self.ops[i].posted.push(Err(libc::EFAULT));
                    self.ops[i].finished_posting = true;
                    return;
                }
                match self.owner.get(&entry.bid) {
                    Some(Owner::Kernel) | Some(Owner::Lost) => {}
                    other => {
                        let other = other.copied();
                        self.fail("selected-owned-buffer", format!("the kernel was offered buffer {} which is {:?}", entry.bid, other));
                    }
                }
                // (Huge buffers only get their first pages written.)
                let n = ((frac as usize) * (self.buf_size.min(8192) + 1)) >> 16;
                let data: Vec<u8> = (0..n).map(|j| byte(serial as usize + self.releases as usize, j)).collect();
                unsafe { std::ptr::copy_nonoverlapping(data.as_ptr(), entry.addr as *mut u8, n) };
                self.owner.insert(entry.bid, Owner::InCompletion);
                let flags = abi::CQE_F_BUFFER | ((entry.bid as u32) << abi::CQE_BUFFER_SHIFT);
                ring.complete(serial, n as i32, flags, more);
                self.ops[i].posted.push(Ok((entry.bid, data)));
                if !more {
                    self.ops[i].finished_posting = true;
                }
                if self.ops[i].fut.is_none() {
                    // Delivered to an abandoned operation.
                    self.classes.push("completed-after-drop");
                }
            }
        }
    }

    fn poll_op(&mut self, i: usize) {
        let waker = WakerHandle::new();
        let mut cx = Context::from_waker(&waker.waker);
        let tail = self.world.sq_tail();
        let Some(fut) = self.ops[i].fut.as_mut() else { return };
        let r = {
            let _s = track::scope(track::TAG_A10);
            catch(|| match fut {
                Fut::Single(f) => f.as_mut().poll(&mut cx).map(Some),
                Fut::Multi(f) => f.as_mut().poll_next(&mut cx),
                Fut::MultiRecv(f) => f.as_mut().poll_next(&mut cx),
            })
        };
        let tail_after = self.world.sq_tail();
        if tail_after != tail && self.ops[i].user_data == 0 {
            let sqe = sim::sim().the_ring().read_sqe_slot(tail);
            self.ops[i].user_data = sqe.user_data;
        }
        match r {
            Err((msg, loc)) => {
                std::mem::forget(self.ops[i].fut.take());
                self.ops[i].done = true;
                self.fail("panic", format!("polling pool read {i} panicked at {loc}: {msg}"));
            }
            Ok(Poll::Pending) => {}
            Ok(Poll::Ready(None)) => {
                self.ops[i].done = true;
                if !self.ops[i].posted.is_empty() {
                    let n = self.ops[i].posted.len();
                    self.fail("results-dropped", format!("multishot read {i} ended with {n} posted results undelivered"));
                }
                self.drop_fut(i);
            }
            Ok(Poll::Ready(Some(res))) => {
                if self.ops[i].posted.is_empty() {
                    self.fail("made-up-result", format!("pool read {i} returned a result the kernel never posted"));
                    return;
                }
                let want = self.ops[i].posted.remove(0);
                match (res, want) {
                    (Ok(buf), Ok((bid, data))) => {
                        if bid == u16::MAX {
                            // Re-read into an owned buffer.
                            let b = self.ops[i].into_owned.unwrap();
                            self.bufs[b].content.extend_from_slice(&data);
                            if buf.as_slice() != &self.bufs[b].content[..] {
                                self.fail("reread-content", format!("re-read into buffer {} returned wrong contents", self.bufs[b].bid));
                            }
                            self.bufs[b].buf = Some(buf);
                        } else {
                            if buf.as_slice() != &data[..] {
                                self.fail("wrong-buffer", format!("pool read {i} returned {} bytes that are not what the kernel wrote into buffer {bid}", buf.len()));
                            }
                            let idx = self.bufs.len();
                            if !buf.is_empty() || data.is_empty() {
                                let addr = buf.as_slice().as_ptr().addr();
                                if !data.is_empty() && addr != self.base + bid as usize * self.buf_size {
                                    self.fail("wrong-slot", format!("ReadBuf for buffer {bid} points at {addr:#x}"));
                                }
                            }
                            self.owner.insert(bid, Owner::Owned(idx));
                            self.bufs.push(PBuf { buf: Some(buf), bid, content: data });
                        }
                    }
                    (Err(e), Err(want)) => {
                        if e.raw_os_error() != Some(want) {
                            self.fail("wrong-error", format!("pool read {i} failed with {e}, the kernel posted errno {want}"));
                        }
                        if let Some(b) = self.ops[i].into_owned {
                            // The owned buffer went down with the failed read.
                            let bid = self.bufs[b].bid;
                            self.owner.insert(bid, Owner::Kernel);
                        }
                    }
                    (got, want) => {
                        self.fail("result-mismatch", format!("pool read {i} returned {:?} but the kernel posted {:?}", got.map(|b| b.len()), want.map(|w| (w.0, w.1.len()))));
                    }
                }
                if matches!(self.ops[i].kind, ReadKind::Read | ReadKind::Recv) {
                    self.ops[i].done = true;
                    self.drop_fut(i);
                }
            }
        }
    }

    fn drop_fut(&mut self, i: usize) {
        let fut = self.ops[i].fut.take();
        let r = {
            let _s = track::scope(track::TAG_A10);
            catch(|| drop(fut))
        };
        if let Err((msg, loc)) = r {
            self.fail("panic", format!("dropping pool read {i} panicked at {loc}: {msg}"));
        }
    }

    fn live_bufs(&self) -> Vec<usize> {
        self.bufs.iter().enumerate().filter(|(_, b)| b.buf.is_some()).map(|(i, _)| i).collect()
    }

    fn give_back(&mut self, b: usize, how: &str) {
        let bid = self.bufs[b].bid;
        let before = sim::sim().the_ring().offered_buffers(self.bgid);
        let buf = self.bufs[b].buf.take();
        let r = {
            let _s = track::scope(track::TAG_A10);
            match how {
                "release" => catch(move || {
                    let mut buf = buf.unwrap();
                    buf.release();
                    // Releasing twice / dropping afterwards must not give it back again.
                    buf.release();
                    drop(buf);
                }),
                "thread" => catch(move || {
                    let buf = SendBuf(buf.unwrap());
                    std::thread::spawn(move || {
                        let _s = track::scope(track::TAG_A10);
                        let b = buf;
                        drop(b);
                    })
                    .join()
                    .unwrap()
                }),
                _ => catch(move || drop(buf)),
            }
        };
        if let Err((msg, loc)) = r {
            self.fail("panic", format!("giving back buffer {bid} panicked at {loc}: {msg}"));
            return;
        }
        self.releases += 1;
        if bid as u64 * self.buf_size as u64 > u32::MAX as u64 {
            self.classes.push("gave-back-buffer-beyond-4GiB");
        }
        let after = sim::sim().the_ring().offered_buffers(self.bgid);
        let new: Vec<u16> = after.iter().skip(before.len()).map(|e| e.bid).collect();
        if new != [bid] {
            self.fail("release-wrong", format!("giving back the ReadBuf of buffer {bid} ({how}) offered {new:?} to the kernel (expected exactly [{bid}])"));
        }
        self.owner.insert(bid, Owner::Kernel);
    }
}

struct SendBuf(ReadBuf);
unsafe impl Send for SendBuf {}

pub struct C08;

fn pstep() -> impl Strategy<Value = PStep> {
    let kind = prop_oneof![3 => Just(ReadKind::Read), 2 => Just(ReadKind::Recv), 2 => Just(ReadKind::MultishotRead), 2 => Just(ReadKind::MultishotRecv)];
    prop_oneof![
        5 => kind.prop_map(PStep::Start),
        8 => any::<u16>().prop_map(|op| PStep::Poll { op }),
        2 => any::<u16>().prop_map(|op| PStep::DropOp { op }),
        8 => (any::<u16>(), any::<u16>(), any::<bool>(), proptest::bool::weighted(0.08)).prop_map(|(op, frac, more, fail)| PStep::Complete { op, frac, more, fail }),
        6 => Just(PStep::RingPoll),
        2 => (any::<u16>(), prop_oneof![1 => Just(0u16), 2 => any::<u16>()]).prop_map(|(buf, frac)| PStep::Truncate { buf, frac }),
        1 => (any::<u16>(), any::<u8>()).prop_map(|(buf, len)| PStep::Extend { buf, len }),
        2 => (any::<u16>(), prop_oneof![2 => Just(0u16), 1 => any::<u16>()], any::<u16>()).prop_map(|(buf, at, len)| PStep::Remove { buf, at, len }),
        3 => any::<u16>().prop_map(|buf| PStep::Release { buf }),
        3 => (any::<u16>(), proptest::bool::weighted(0.3)).prop_map(|(buf, on_thread)| PStep::DropBuf { buf, on_thread }),
        4 => (any::<u16>(), 0u8..3, prop_oneof![3 => Just(0u8), 1 => Just(1u8), 1 => Just(2u8)]).prop_map(|(buf, form, empty_first)| PStep::ReRead { buf, form, empty_first }),
        1 => Just(PStep::ClonePool),
        1 => Just(PStep::DropPoolHandle),
    ]
}

impl Property for C08 {
    const ID: &'static str = "C08";
    type Case = Case;

    fn strategy(_tier: Tier) -> BoxedStrategy<Case> {
        let seq = (prop_oneof![4 => 0u8..=3, 1 => 4u8..=6], prop_oneof![1 => 1u16..8, 4 => 1u16..300, 1 => 4000u16..4096], proptest::collection::vec(pstep(), 0..80), prop_oneof![3 => Just(0u8), 1 => 0u8..=40], proptest::option::weighted(0.15, 0u8..5)).prop_map(|(pool_log2, buf_size, steps, pre_cycles, new_refused)| Case::Seq(SeqCase { pool_log2, buf_size, steps, big_shift: 0, pre_cycles, new_refused }));
        let big = (1u8..=3, 2048u16..=4096, 17u8..=19, proptest::collection::vec(pstep(), 0..60), 0u8..=12).prop_map(|(pool_log2, buf_size, big_shift, steps, pre_cycles)| Case::Seq(SeqCase { pool_log2, buf_size, steps, big_shift, pre_cycles, new_refused: None }));
        let sched = (0u8..=3, 1u16..64, 1u8..=8, 0u8..=9, proptest::collection::vec(1u8..=3, 1..=3), 0u8..=4, proptest::collection::vec(any::<u16>(), 0..80), crate::strat::maybe_pct(3, 80))
            .prop_map(|(pool_log2, buf_size, take, pre_cycles, releasers, kernel_selects, pool_tape, pct)| Case::Sched(PoolSched { pool_log2, buf_size, take, pre_cycles, releasers, kernel_selects, pool_tape, pct }));
        prop_oneof![9 => seq, 1 => big, 3 => sched].boxed()
    }

    fn cases(tier: Tier) -> u32 {
        tier.pick(12_000, 1_000_000)
    }

    fn run(case: &Case, ctx: &mut Ctx) {
        match case {
            Case::Seq(c) => run_case(c, ctx, 0),
            Case::Sched(c) => run_sched(c, ctx),
        }
    }

    fn extra(tier: Tier, _seed: u64, shard: u32, _of: u32, known: &[KnownFinding], out: &mut ShardOut) {
        // Long variant: > 65 536 release cycles on a small pool, so the 16-bit
        // ring tail wraps (shards 0 and 1; pool sizes 1 and 4).
        if shard > 1 {
            return;
        }
        let cycles = tier.pick(70_000u32, 200_000);
        let case = SeqCase { pool_log2: if shard == 0 { 0 } else { 2 }, buf_size: 16, steps: vec![], big_shift: 0, pre_cycles: 0, new_refused: None };
        let mut ctx = Ctx::new("C08", known, tier);
        run_case(&case, &mut ctx, cycles);
        out.evaluations += 1;
        out.nontrivial += 1;
        out.nontrivial_fps.push(crate::common::fnv(&format!("long-{shard}")));
        *out.classes.entry("tail-wrapped".into()).or_insert(0) += 1;
        out.extra.insert(format!("long_variant_pool{}_release_cycles", 1 << case.pool_log2), serde_json::json!(cycles));
        if let Some(e) = ctx.infra {
            out.infra_error = Some(e);
        }
        if let Some(f) = ctx.failure {
            let dir = crate::common::verif_root().join("replays").join("found");
            let _ = std::fs::create_dir_all(&dir);
            let path = dir.join(format!("C08-long-{shard}.json"));
            let _ = std::fs::write(&path, serde_json::to_string(&serde_json::json!({"property": "C08", "sig": f.sig, "msg": f.msg, "long_cycles": cycles, "case": case})).unwrap());
            out.violation = Some(crate::common::ShardViolation { sig: f.sig, msg: f.msg, replay: path.to_string_lossy().into_owned() });
        }
    }

    fn rule() -> &'static str {
        "proptest histories over pools of 1..64 buffers of 1..4096 bytes (one case in thirteen: 2..8 buffers of 256 MiB..2 GiB, pools beyond 4 GiB, address space only): single-shot and multishot pool reads/receives are started, polled, completed by the simulated kernel (which selects buffers from the ring exactly as K8 prescribes, incl. ENOBUFS and errors), dropped in flight; ReadBufs are edited, released (twice), dropped, dropped on another thread, re-read into; pool handles cloned/dropped. Ownership model bid -> Kernel | InCompletion | Owned(readbuf): every ring entry is well formed, never names an owned buffer, no bid is offered twice, a ReadBuf's bytes never change except by its own edits, release/drop offers exactly that bid exactly once, and at the end (no ReadBuf alive, nothing in flight) every buffer is offered again. Plus a long variant with > 65 536 release cycles (16-bit tail wrap). C08b (1 of 4 cases): after 0..9 sequential take/release cycles (so that the release under test writes ring slot 0 in some cases) 1..8 buffers are taken, then 1..3 releaser threads drop their ReadBufs while a kernel thread performs 0..4 buffer selections, all under the baton scheduler (scheduling points at the pool lock, the ring-tail load and before/after the ring-tail store) following a generated tape; oracle: the kernel never gets a buffer a live ReadBuf owns nor the same buffer twice, every selected entry is well formed, and afterwards every released buffer is offered exactly once. Non-trivial (scheduled) = a context switch inside a10 with concurrent releases or kernel selections. Non-trivial = all buffers were owned at once (ENOBUFS), or a pool read completed after its future was dropped, or the tail wrapped, or a buffer was dropped on another thread. Distinct = (pool class, classes, 16-bit case hash)."
    }

    fn assumptions() -> Vec<&'static str> {
        vec!["simulated kernel's provided-buffer ring handling follows K8", "interleavings are explored under sequential consistency only (C08b scheduled sub-check); the kernel reads the ring at a10's scheduling points, not between two machine instructions"]
    }
}

fn run_case(case: &SeqCase, ctx: &mut Ctx, long_cycles: u32) {
    let mut world = match World::new(&RingCfg::simple(4)) {
        Ok(w) => w,
        Err(e) => {
            ctx.infra(e);
            return;
        }
    };
    let fd = world.new_fd();
    let big_shift = case.big_shift.min(19);
    let pool_size: u16 = 1 << case.pool_log2.min(if big_shift > 0 { 3 } else { 6 });
    let buf_size = (case.buf_size.clamp(1, 4096) as usize) << big_shift;
    if let Some(k) = case.new_refused {
        let errno = [libc::ENOMEM, libc::EINVAL, libc::EEXIST, libc::EFAULT, libc::EBUSY][k as usize % 5];
        let mark = track::mark();
        sim::sim().cfg.register_fail = Some((abi::REGISTER_PBUF_RING, errno));
        let r = {
            let _s = track::scope(track::TAG_A10);
            catch(|| ReadBufPool::new(world.sq(), pool_size, buf_size.min(4096) as u32))
        };
        sim::sim().cfg.register_fail = None;
        match r {
            Err((msg, loc)) => {
                ctx.violation("C08:panic:pool-new-refused", format!("ReadBufPool::new panicked at {loc} when the kernel refused the registration: {msg}"));
                return;
            }
            Ok(Ok(p)) => {
                ctx.violation("C08:pool-built-despite-refusal", format!("ReadBufPool::new returned a pool although IORING_REGISTER_PBUF_RING failed with errno {errno}"));
                std::mem::forget(p);
                return;
            }
            Ok(Err(e)) if e.raw_os_error() != Some(errno) => {
                ctx.violation("C08:pool-new-wrong-error", format!("ReadBufPool::new failed with {e:?} although IORING_REGISTER_PBUF_RING failed with errno {errno}"));
                return;
            }
            Ok(Err(_)) => {}
        }
        let left = track::live_since(mark);
        if !left.is_empty() {
            ctx.violation("C08:refused-pool-leaked", format!("a refused ReadBufPool::new left {} allocations behind: {:?}", left.len(), left.iter().take(3).map(|b| (b.addr, b.size)).collect::<Vec<_>>()));
            track::forget_since(mark);
            return;
        }
        if sim::sim().the_ring().pbufs.len() != 0 {
            ctx.violation("C08:refused-pool-registered", "a refused ReadBufPool::new left a buffer group registered".to_string());
            return;
        }
        ctx.class("pool-new-refused");
    }
    let pool = {
        let _s = track::scope(track::TAG_A10);
        ReadBufPool::new(world.sq(), pool_size, buf_size as u32)
    };
    let pool = match pool {
        Ok(p) => p,
        Err(e) if big_shift > 0 && e.kind() == std::io::ErrorKind::OutOfMemory => {
            // No address space for a pool of several GiB: nothing to decide.
            ctx.skipped_steps += 1;
            ctx.class("big-pool-not-allocatable");
            return;
        }
        Err(e) => {
            ctx.infra(format!("ReadBufPool::new failed: {e}"));
            return;
        }
    };
    let (offered, bgid) = {
        let mut s = sim::sim();
        let ring = s.the_ring();
        let bgid = ring.pbufs.first().map_or(0, |p| p.bgid);
        (ring.offered_buffers(bgid), bgid)
    };
    if offered.len() != pool_size as usize {
        ctx.violation("C08:pool-setup", format!("a new pool of {pool_size} buffers offers {} entries", offered.len()));
        return;
    }
    let base = offered.iter().map(|e| e.addr as usize).min().unwrap();
    let mut exec = Exec {
        world,
        fd,
        pools: vec![pool],
        ops: Vec::new(),
        bufs: Vec::new(),
        owner: (0..pool_size).map(|b| (b, Owner::Kernel)).collect(),
        base,
        pool_size,
        buf_size,
        bgid,
        ctx,
        events_seen: sim::events_len(),
        classes: Vec::new(),
        stop: false,
        releases: 0,
    };
    exec.invariants("pool creation");

    let long_cycles = long_cycles + case.pre_cycles as u32;
    if long_cycles > 0 {
        // read -> complete -> poll -> drop, over and over.
        for cycle in 0..long_cycles {
            if exec.stop {
                break;
            }
            step(&mut exec, &PStep::Start(ReadKind::Read));
            step(&mut exec, &PStep::Poll { op: u16::MAX });
            step(&mut exec, &PStep::RingPoll);
            step(&mut exec, &PStep::Complete { op: u16::MAX, frac: ((cycle as u64 * 40_503) % 65_536) as u16, more: false, fail: false });
            step(&mut exec, &PStep::RingPoll);
            step(&mut exec, &PStep::Poll { op: u16::MAX });
            if cycle % 3 == 1 {
                step(&mut exec, &PStep::Release { buf: u16::MAX });
            } else {
                step(&mut exec, &PStep::DropBuf { buf: u16::MAX, on_thread: false });
            }
            // Keep the tables small.
            exec.ops.retain(|o| !o.done);
            if exec.bufs.len() > 64 {
                let keep: Vec<PBuf> = exec.bufs.drain(..).filter(|b| b.buf.is_some()).collect();
                exec.bufs = keep;
                for (i, b) in exec.bufs.iter().enumerate() {
                    exec.owner.insert(b.bid, Owner::Owned(i));
                }
            }
            sim::take_events();
            exec.events_seen = 0;
            sim::sim().the_ring().gc();
            sim::sim().the_ring().posted.clear();
        }
    }
    for s in &case.steps {
        if exec.stop {
            break;
        }
        step(&mut exec, s);
    }

    // End of history: drop all futures, let the kernel finish what is in
    // flight, drop all ReadBufs: every buffer must be offered again.
    let stop = exec.stop;
    for i in 0..exec.ops.len() {
        if exec.ops[i].fut.is_some() {
            exec.drop_fut(i);
        }
    }
    if !stop {
        for _ in 0..4 {
            let _ = catch(|| exec.world.poll_ring(Some(Duration::ZERO)));
        }
        exec.sync();
        // Whatever is still in flight is cancelled by the kernel without
        // consuming a buffer: complete with -ECANCELED.
        {
            let mut s = sim::sim();
            let ring = s.the_ring();
            let inflight: Vec<u64> = ring.inflight.iter().filter(|r| !r.done && r.sqe.user_data >= 4).map(|r| r.serial).collect();
            for serial in inflight {
                ring.complete(serial, -libc::ECANCELED, 0, false);
            }
        }
        for _ in 0..3 {
            let _ = catch(|| exec.world.poll_ring(Some(Duration::ZERO)));
        }
        for b in exec.live_bufs() {
            exec.give_back(b, "drop");
        }
        // Buffers the kernel handed to an operation nobody polled any more.
        let mut lost = Vec::new();
        for (bid, o) in exec.owner.iter_mut() {
            if *o == Owner::InCompletion {
                lost.push(*bid);
            }
        }
        let offered: Vec<u16> = sim::sim().the_ring().offered_buffers(bgid).iter().map(|e| e.bid).collect();
        let missing: Vec<u16> = (0..pool_size).filter(|b| !offered.contains(b)).collect();
        if !missing.is_empty() && !exec.stop {
            let abandoned: Vec<u16> = missing.iter().copied().filter(|b| lost.contains(b)).collect();
            if abandoned.len() == missing.len() {
                exec.fail("abandoned-completion-buffer-leak", format!("with no ReadBuf alive and nothing in flight, buffers {missing:?} are not available to the kernel: they were delivered in completions of pool reads whose future had been dropped and were never given back"));
            } else {
                exec.fail("not-conserved", format!("with no ReadBuf alive and nothing in flight, buffers {missing:?} of the pool are not available to the kernel"));
            }
        }
    }
    let mut classes = std::mem::take(&mut exec.classes);
    if exec.releases > 65_536 {
        classes.push("tail-wrapped");
    }
    let Exec { world, pools, bufs, ops, ctx, .. } = exec;
    {
        let _s = track::scope(track::TAG_A10);
        drop(ops);
        drop(bufs);
        drop(pools);
        drop(world);
    }
    if buf_size as u64 * pool_size as u64 > u32::MAX as u64 {
        classes.push("pool-beyond-4GiB");
    }
    classes.sort();
    classes.dedup();
    for c in &classes {
        ctx.class(c);
    }
    ctx.nontrivial = classes.iter().any(|c| matches!(*c, "enobufs" | "completed-after-drop" | "tail-wrapped" | "dropped-on-thread" | "pool-beyond-4GiB"));
    ctx.fingerprint = format!("pool{}x{}|{}|{:x}", pool_size, if buf_size < 8 { "tiny" } else if buf_size < 1000 { "small" } else if buf_size <= 4096 { "page" } else { "huge" }, classes.join("|"), crate::common::fnv(&format!("{case:?}")) & 0xffff);
}

fn step(exec: &mut Exec<'_>, s: &PStep) {
    exec.sync();
    let what = format!("{s:?}");
    match s {
        PStep::Start(kind) => {
            if exec.ops.iter().filter(|o| !o.done).count() >= 12 || exec.pools.is_empty() {
                exec.ctx.skipped_steps += 1;
                return;
            }
            let afd = exec.world.fd(exec.fd);
            let pool = &exec.pools[0];
            let fut = {
                let _s = track::scope(track::TAG_A10);
                match kind {
                    ReadKind::Read => Fut::Single(Box::pin(afd.read(pool.get()))),
                    ReadKind::Recv => Fut::Single(Box::pin(afd.recv(pool.get()))),
                    ReadKind::MultishotRead => Fut::Multi(Box::pin(afd.multishot_read(pool.clone()))),
                    ReadKind::MultishotRecv => Fut::MultiRecv(Box::pin(afd.multishot_recv(pool.clone()))),
                }
            };
            exec.ops.push(POp { kind: *kind, fut: Some(fut), user_data: 0, serial: None, posted: Vec::new(), finished_posting: false, done: false, into_owned: None });
        }
        PStep::Poll { op } => {
            let c: Vec<usize> = exec.ops.iter().enumerate().filter(|(_, o)| o.fut.is_some() && !o.done).map(|(i, _)| i).collect();
            if c.is_empty() {
                exec.ctx.skipped_steps += 1;
                return;
            }
            let i = if *op == u16::MAX { *c.last().unwrap() } else { c[pick_index(*op, c.len())] };
            exec.poll_op(i);
        }
        PStep::DropOp { op } => {
            let c: Vec<usize> = exec.ops.iter().enumerate().filter(|(_, o)| o.fut.is_some()).map(|(i, _)| i).collect();
            if c.is_empty() {
                exec.ctx.skipped_steps += 1;
                return;
            }
            let i = c[pick_index(*op, c.len())];
            if let Some(b) = exec.ops[i].into_owned {
                // The owned buffer goes down with the future; when the read
                // is still running it is given back once the kernel is done.
                let bid = exec.bufs[b].bid;
                exec.owner.insert(bid, Owner::Lost);
            }
            exec.drop_fut(i);
            // Undelivered results of a dropped operation are lost to the application.
            let posted = std::mem::take(&mut exec.ops[i].posted);
            for p in posted {
                if let Ok((bid, _)) = p {
                    if bid != u16::MAX {
                        exec.owner.insert(bid, Owner::InCompletion);
                    }
                }
            }
        }
        PStep::Complete { op, frac, more, fail } => {
            let c: Vec<usize> = exec.ops.iter().enumerate().filter(|(_, o)| o.serial.is_some() && !o.finished_posting).map(|(i, _)| i).collect();
            if c.is_empty() {
                exec.ctx.skipped_steps += 1;
                return;
            }
            let i = if *op == u16::MAX { *c.last().unwrap() } else { c[pick_index(*op, c.len())] };
            let mut s = sim::sim();
            let ring: *mut SimRing = s.the_ring();
            drop(s);
            exec.kernel_complete(unsafe { &mut *ring }, i, *frac, *more, *fail);
        }
        PStep::RingPoll => {
            let r = catch(|| exec.world.poll_ring(Some(Duration::ZERO)));
            match r {
                Err((msg, loc)) => exec.fail("panic", format!("Ring::poll panicked at {loc}: {msg}")),
                Ok(Err(e)) => exec.fail("ring-poll-error", format!("Ring::poll failed: {e}")),
                Ok(Ok(())) => {}
            }
        }
        PStep::Truncate { buf, frac } => {
            let c = exec.live_bufs();
            if c.is_empty() {
                exec.ctx.skipped_steps += 1;
                return;
            }
            let b = c[pick_index(*buf, c.len())];
            let n = ((*frac as usize) * (exec.bufs[b].content.len() + 1)) >> 16;
            exec.bufs[b].buf.as_mut().unwrap().truncate(n);
            exec.bufs[b].content.truncate(n);
        }
        PStep::Remove { buf, at, len } => {
            let c = exec.live_bufs();
            if c.is_empty() {
                exec.ctx.skipped_steps += 1;
                return;
            }
            let b = c[pick_index(*buf, c.len())];
            let have = exec.bufs[b].content.len();
            let start = ((*at as usize) * (have + 1)) >> 16;
            let end = start + (((*len as usize) * (have - start + 1)) >> 16);
            let r = catch(|| exec.bufs[b].buf.as_mut().unwrap().remove(start..end));
            if let Err((msg, loc)) = r {
                exec.fail("panic", format!("ReadBuf::remove({start}..{end}) on {have} bytes panicked at {loc}: {msg}"));
                return;
            }
            exec.bufs[b].content.drain(start..end);
            if start == 0 && end > 0 && end < have {
                exec.classes.push("prefix-removed");
            }
        }
        PStep::Extend { buf, len } => {
            let c = exec.live_bufs();
            if c.is_empty() {
                exec.ctx.skipped_steps += 1;
                return;
            }
            let b = c[pick_index(*buf, c.len())];
            let data: Vec<u8> = (0..*len as usize).map(|j| byte(900 + b, j)).collect();
            let fits = exec.bufs[b].content.len() + data.len() <= exec.buf_size;
            let r = exec.bufs[b].buf.as_mut().unwrap().extend_from_slice(&data);
            if r.is_ok() != fits {
                exec.fail("extend", format!("extend_from_slice of {} bytes on {} of {} returned {r:?}", data.len(), exec.bufs[b].content.len(), exec.buf_size));
            }
            if r.is_ok() {
                exec.bufs[b].content.extend_from_slice(&data);
            }
        }
        PStep::Release { buf } => {
            let c = exec.live_bufs();
            if c.is_empty() {
                exec.ctx.skipped_steps += 1;
                return;
            }
            let b = c[pick_index(*buf, c.len())];
            exec.give_back(b, "release");
        }
        PStep::DropBuf { buf, on_thread } => {
            let c = exec.live_bufs();
            if c.is_empty() {
                exec.ctx.skipped_steps += 1;
                return;
            }
            let b = if *buf == u16::MAX { *c.last().unwrap() } else { c[pick_index(*buf, c.len())] };
            if *on_thread {
                exec.classes.push("dropped-on-thread");
            }
            exec.give_back(b, if *on_thread { "thread" } else { "drop" });
        }
        PStep::ReRead { buf, form, empty_first } => {
            let c = exec.live_bufs();
            if c.is_empty() || exec.ops.iter().filter(|o| !o.done).count() >= 12 {
                exec.ctx.skipped_steps += 1;
                return;
            }
            let b = c[pick_index(*buf, c.len())];
            let mut owned = exec.bufs[b].buf.take().unwrap();
            match empty_first % 3 {
                1 => {
                    owned.truncate(0);
                    exec.bufs[b].content.clear();
                    exec.classes.push("reread-emptied");
                }
                2 => {
                    owned.remove(..);
                    exec.bufs[b].content.clear();
                    exec.classes.push("reread-emptied");
                }
                _ => {}
            }
            let afd = exec.world.fd(exec.fd);
            let fut = {
                let _s = track::scope(track::TAG_A10);
                match form % 3 {
                    0 => Fut::Single(Box::pin(afd.read(owned))),
                    1 => {
                        let f = afd.read_vectored([owned]);
                        Fut::Single(Box::pin(async move { f.await.map(|[b]| b) }))
                    }
                    _ => {
                        let f = afd.recv_vectored([owned]);
                        Fut::Single(Box::pin(async move { f.await.map(|([b], _)| b) }))
                    }
                }
            };
            exec.ops.push(POp { kind: ReadKind::Read, fut: Some(fut), user_data: 0, serial: None, posted: Vec::new(), finished_posting: false, done: false, into_owned: Some(b) });
            exec.classes.push("reread");
            if form % 3 != 0 {
                exec.classes.push("reread-vectored");
            }
        }
        PStep::ClonePool => {
            if let Some(p) = exec.pools.first() {
                if exec.pools.len() < 4 {
                    let c = p.clone();
                    exec.pools.push(c);
                }
            }
        }
        PStep::DropPoolHandle => {
            if exec.pools.len() > 1 {
                let p = exec.pools.pop();
                let _s = track::scope(track::TAG_A10);
                drop(p);
            }
        }
    }
    exec.sync();
    if !exec.stop {
        exec.invariants(&what);
    }
}

#[derive(Copy, Clone, Debug, PartialEq, Eq)]
enum BSt {
    Offered,
    Owned,
    Releasing,
    Selected,
}

struct SendBufs(Vec<(u16, ReadBuf)>);
unsafe impl Send for SendBufs {}

/// C08b: concurrent releases and kernel selections under the scheduler.
fn run_sched(case: &PoolSched, ctx: &mut Ctx) {
    use std::sync::{Arc, Mutex};
    let mut world = match World::new(&RingCfg::simple(4)) {
        Ok(w) => w,
        Err(e) => {
            ctx.infra(e);
            return;
        }
    };
    let fd = world.new_fd();
    let pool_size: u16 = 1 << case.pool_log2.min(3);
    let buf_size = case.buf_size.clamp(1, 4096) as usize;
    let pool = {
        let _s = track::scope(track::TAG_A10);
        ReadBufPool::new(world.sq(), pool_size, buf_size as u32)
    };
    let pool = match pool {
        Ok(p) => p,
        Err(e) => {
            ctx.infra(format!("ReadBufPool::new failed: {e}"));
            return;
        }
    };
    let (offered, bgid) = {
        let mut s = sim::sim();
        let ring = s.the_ring();
        let bgid = ring.pbufs.first().map_or(0, |p| p.bgid);
        (ring.offered_buffers(bgid), bgid)
    };
    if offered.len() != pool_size as usize {
        ctx.violation("C08:pool-setup", format!("a new pool of {pool_size} buffers offers {} entries", offered.len()));
        return;
    }
    let base = offered.iter().map(|e| e.addr as usize).min().unwrap();
    let mut exec = Exec {
        world,
        fd,
        pools: vec![pool],
        ops: Vec::new(),
        bufs: Vec::new(),
        owner: (0..pool_size).map(|b| (b, Owner::Kernel)).collect(),
        base,
        pool_size,
        buf_size,
        bgid,
        ctx,
        events_seen: sim::events_len(),
        classes: Vec::new(),
        stop: false,
        releases: 0,
    };
    let take_one = |exec: &mut Exec<'_>, frac: u16| {
        step(exec, &PStep::Start(ReadKind::Read));
        step(exec, &PStep::Poll { op: u16::MAX });
        step(exec, &PStep::RingPoll);
        step(exec, &PStep::Complete { op: u16::MAX, frac, more: false, fail: false });
        step(exec, &PStep::RingPoll);
        step(exec, &PStep::Poll { op: u16::MAX });
    };
    for k in 0..case.pre_cycles.min(12) {
        take_one(&mut exec, 30_000 + k as u16);
        step(&mut exec, &PStep::DropBuf { buf: u16::MAX, on_thread: false });
    }
    let take = (case.take as u16).clamp(1, pool_size);
    for k in 0..take {
        take_one(&mut exec, 20_000 + k);
    }
    exec.invariants("taking the buffers");
    if exec.stop || exec.ctx.failed() || exec.ctx.infra.is_some() {
        return;
    }
    let mut taken: Vec<(u16, ReadBuf)> = Vec::new();
    for b in exec.bufs.iter_mut() {
        if let Some(buf) = b.buf.take() {
            taken.push((b.bid, buf));
        }
    }
    let states: Arc<Mutex<BTreeMap<u16, BSt>>> = Arc::new(Mutex::new((0..pool_size).map(|b| (b, if taken.iter().any(|(t, _)| *t == b) { BSt::Owned } else { BSt::Offered })).collect()));
    let problems: Arc<Mutex<Vec<(String, String)>>> = Arc::new(Mutex::new(Vec::new()));
    let benign: Arc<Mutex<u32>> = Arc::new(Mutex::new(0));
    let mut threads: Vec<Box<dyn FnOnce() + Send>> = Vec::new();
    let nthreads = case.releasers.len().clamp(1, 3);
    let mut released_concurrently = 0;
    for t in 0..nthreads {
        let n = (case.releasers.get(t).copied().unwrap_or(1) as usize).min(taken.len());
        let mine = SendBufs(taken.drain(..n).collect());
        released_concurrently += mine.0.len();
        let states = states.clone();
        let problems = problems.clone();
        threads.push(Box::new(move || {
            let mine = mine;
            for (bid, buf) in mine.0 {
                states.lock().unwrap().insert(bid, BSt::Releasing);
                let r = {
                    let _s = track::scope(track::TAG_A10);
                    catch(move || drop(buf))
                };
                if let Err((m, l)) = r {
                    problems.lock().unwrap().push(("panic".into(), format!("dropping the ReadBuf of buffer {bid} panicked at {l}: {m}")));
                }
                let mut st = states.lock().unwrap();
                if st.get(&bid) == Some(&BSt::Releasing) {
                    st.insert(bid, BSt::Offered);
                }
            }
        }));
    }
    let nthreads_release = threads.len();
    {
        let states = states.clone();
        let problems = problems.clone();
        let benign = benign.clone();
        let n = case.kernel_selects.min(4);
        let (base, buf_size, pool_size) = (exec.base, exec.buf_size, exec.pool_size);
        threads.push(Box::new(move || {
            for _ in 0..n {
                crate::sched::point(crate::sched::Kind::Syscall);
                let entry = sim::sim().the_ring().select_buffer(bgid);
                let Some(e) = entry else { continue };
                let well = e.bid < pool_size && e.addr as usize == base + e.bid as usize * buf_size && e.len as usize == buf_size;
                if !well {
                    problems.lock().unwrap().push(("sched:malformed-entry".into(), format!("the kernel took ring entry {{addr {:#x}, len {}, bid {}}} which is not a buffer of the pool", e.addr, e.len, e.bid)));
                    continue;
                }
                let mut st = states.lock().unwrap();
                match st.get(&e.bid).copied() {
                    Some(BSt::Offered) => {
                        st.insert(e.bid, BSt::Selected);
                    }
                    Some(BSt::Releasing) => {
                        // Its owner is giving it up right now: nobody observes it any more.
                        st.insert(e.bid, BSt::Selected);
                        *benign.lock().unwrap() += 1;
                    }
                    Some(BSt::Owned) => problems.lock().unwrap().push(("sched:selected-owned-buffer".into(), format!("the kernel was offered buffer {} while a live ReadBuf owns it (the ring tail it read did not describe the ring)", e.bid))),
                    Some(BSt::Selected) => problems.lock().unwrap().push(("sched:selected-twice".into(), format!("the kernel was offered buffer {} a second time without a release in between", e.bid))),
                    None => {}
                }
            }
        }));
    }
    let outcome = crate::sched::run_either(&case.pct, &case.pool_tape, 20_000, false, threads);
    if outcome.over_budget {
        exec.ctx.infra("scheduler step budget exceeded");
    }
    for p in &outcome.panics {
        exec.fail("sched:panic", format!("thread panicked: {p}"));
    }
    if outcome.stuck {
        exec.fail("sched:deadlock", format!("no runnable thread; parked: {:?}", outcome.parked_at_end));
    }
    for (k, m) in problems.lock().unwrap().drain(..) {
        exec.fail(&k, m);
    }
    // Conservation.
    if !exec.stop && !exec.ctx.failed() {
        let offered: Vec<u16> = sim::sim().the_ring().offered_buffers(bgid).iter().map(|e| e.bid).collect();
        let st = states.lock().unwrap().clone();
        for (bid, s) in &st {
            let n = offered.iter().filter(|b| *b == bid).count();
            match s {
                BSt::Offered if n == 0 => exec.fail("sched:buffer-lost", format!("buffer {bid} was given back (concurrently with other releases) but is not offered to the kernel: ring holds {offered:?}")),
                BSt::Offered if n > 1 => exec.fail("sched:offered-twice", format!("buffer {bid} is offered to the kernel {n} times: ring holds {offered:?}")),
                BSt::Owned | BSt::Selected if n > 0 => exec.fail("sched:offered-while-owned", format!("buffer {bid} is {s:?} but also offered to the kernel: ring holds {offered:?}")),
                _ => {}
            }
        }
        if offered.len() > pool_size as usize {
            exec.fail("sched:ring-overfull", format!("the ring offers {} entries for a pool of {pool_size}", offered.len()));
        }
    }
    let mut classes = std::mem::take(&mut exec.classes);
    classes.push("scheduled");
    if outcome.interesting_switches > 0 {
        classes.push("switch-inside-a10");
    }
    if nthreads_release >= 2 && released_concurrently >= 2 {
        classes.push("concurrent-releases");
    }
    if *benign.lock().unwrap() > 0 {
        classes.push("selected-while-releasing");
    }
    let Exec { world, pools, bufs, ops, ctx, .. } = exec;
    {
        let _s = track::scope(track::TAG_A10);
        drop(taken);
        drop(ops);
        drop(bufs);
        drop(pools);
        drop(world);
    }
    classes.sort();
    classes.dedup();
    for c in &classes {
        ctx.class(c);
    }
    ctx.nontrivial = classes.contains(&"switch-inside-a10") && (classes.contains(&"concurrent-releases") || case.kernel_selects > 0);
    ctx.fingerprint = format!("sched|pool{}|{}|{:x}", pool_size, classes.join("|"), crate::common::fnv(&format!("{case:?}")) & 0xffff);
}
