//! C06b — dropping an operation while the Ring (on another thread) processes
//! its completion, decided under the baton scheduler (E4): whichever way the
//! race between the drop (status check, cancel request, status store) and the
//! completion handler ends, state and resources are released exactly once.

use std::future::Future;
use std::pin::Pin;
use std::sync::{Arc, Mutex};
use std::task::{Context, Poll};
use std::time::Duration;

use a10::Ring;
use serde::{Deserialize, Serialize};

use crate::abi;
use crate::common::Ctx;
use crate::interp::waker::WakerHandle;
use crate::interp::world::{RingCfg, World};
use crate::runner::catch;
use crate::sched;
use crate::sim::{self, SimEvent};
use crate::track;

#[derive(Clone, Debug, Serialize, Deserialize)]
pub struct DropCase {
    pub sq_log2: u8,
    /// Operations per dropper thread (1..=2 threads, 1..=2 operations).
    pub droppers: Vec<u8>,
    /// Ring::poll calls of the ring thread; before the k-th the kernel
    /// completes what is in flight if `complete_before_poll[k]`.
    pub polls: u8,
    pub complete_before_poll: Vec<bool>,
    /// Fill the submission queue before the drops (no room for a cancel).
    pub full_queue: bool,
    pub drop_tape: Vec<u16>,
    /// Priority schedule (few preemptions, long runs) instead of the tape.
    #[serde(default)]
    pub pct: Option<sched::Pct>,
}

type Fut = Pin<Box<a10::io::Write<'static, Vec<u8>>>>;

struct Slot {
    fut: Option<Fut>,
    user_data: u64,
    state: Option<(usize, u64)>,
    buffer: Option<(usize, u64)>,
}

struct SendSlots(Vec<Slot>);
unsafe impl Send for SendSlots {}
struct SendRing(Ring);
unsafe impl Send for SendRing {}

fn complete_inflight(ring_fd: i32) {
    let mut s = sim::sim();
    if let Some(idx) = s.ring_index(ring_fd) {
        let inflight: Vec<u64> = s.rings[idx].inflight.iter().filter(|r| !r.done && r.sqe.user_data >= 4).map(|r| r.serial).collect();
        for serial in inflight {
            s.rings[idx].complete(serial, 1, 0, false);
        }
    }
}

fn live(b: Option<(usize, u64)>) -> bool {
    b.is_some_and(|(addr, serial)| track::lookup(addr).is_some_and(|blk| blk.serial == serial))
}

pub fn run(case: &DropCase, ctx: &mut Ctx) -> Vec<&'static str> {
    let mut classes: Vec<&'static str> = Vec::new();
    let mut cfg = RingCfg::simple(case.sq_log2.clamp(1, 3));
    cfg.cq_log2 = Some(6);
    let mut world = match World::new(&cfg) {
        Ok(w) => w,
        Err(e) => {
            ctx.infra(e);
            return classes;
        }
    };
    let len = cfg.sq_entries() as usize;
    let fd = world.new_fd();
    let afd = world.fd(fd);
    let ring_fd = world.ring_fd;
    let nthreads = case.droppers.len().clamp(1, 2);
    let total: usize = (0..nthreads).map(|t| case.droppers.get(t).copied().unwrap_or(1).clamp(1, 2) as usize).sum();

    // Start every operation and let the kernel consume the submissions.
    let mut slots: Vec<Slot> = Vec::new();
    for k in 0..total.min(len) {
        let buf: Vec<u8> = {
            let _s = track::scope(track::TAG_RESOURCE);
            (0..32u8).map(|j| j.wrapping_mul(k as u8 + 3)).collect()
        };
        let buffer = track::lookup(buf.as_ptr().addr()).map(|b| (buf.as_ptr().addr(), b.serial));
        let mut fut: Fut = {
            let _s = track::scope(track::TAG_A10);
            Box::pin(afd.write(buf))
        };
        let tail = world.sq_tail();
        let w = WakerHandle::new();
        let mut cx = Context::from_waker(&w.waker);
        let r = {
            let _s = track::scope(track::TAG_A10);
            catch(|| fut.as_mut().poll(&mut cx))
        };
        if !matches!(r, Ok(Poll::Pending)) || world.sq_tail() == tail {
            ctx.infra(format!("C06b set-up: operation {k} did not submit ({:?})", r.map(|p| p.is_ready())));
            return classes;
        }
        let sqe = sim::sim().the_ring().read_sqe_slot(tail);
        let addr = (sqe.user_data & !1) as usize;
        let state = track::lookup(addr).map(|b| (addr, b.serial));
        slots.push(Slot { fut: Some(fut), user_data: sqe.user_data, state, buffer });
    }
    if let Err((m, l)) = catch(|| world.poll_ring(Some(Duration::ZERO))) {
        ctx.violation("C06:sched:panic", format!("Ring::poll panicked at {l}: {m}"));
        return classes;
    }
    // Optionally leave no room for cancel requests.
    let mut fillers: Vec<(Pin<Box<a10::fs::Truncate<'static>>>, WakerHandle)> = Vec::new();
    if case.full_queue {
        for k in 0..len {
            let mut f = {
                let _s = track::scope(track::TAG_A10);
                Box::pin(afd.truncate(0xF111 + k as u64))
            };
            let w = WakerHandle::new();
            let mut cx = Context::from_waker(&w.waker);
            let _ = {
                let _s = track::scope(track::TAG_A10);
                catch(|| f.as_mut().poll(&mut cx))
            };
            fillers.push((f, w));
        }
        classes.push("drop-with-full-queue");
    }
    let events_before = sim::events_len();

    let all_meta: Vec<(u64, Option<(usize, u64)>, Option<(usize, u64)>)> = slots.iter().map(|s| (s.user_data, s.state, s.buffer)).collect();
    let errors: Arc<Mutex<Vec<String>>> = Arc::new(Mutex::new(Vec::new()));
    let mut threads: Vec<Box<dyn FnOnce() + Send>> = Vec::new();
    let mut rest = slots;
    for t in 0..nthreads {
        let n = (case.droppers.get(t).copied().unwrap_or(1).clamp(1, 2) as usize).min(rest.len());
        let mine = SendSlots(rest.drain(..n).collect());
        let errors = errors.clone();
        threads.push(Box::new(move || {
            let mine = mine;
            for mut s in mine.0 {
                let fut = s.fut.take();
                let r = {
                    let _s = track::scope(track::TAG_A10);
                    catch(move || drop(fut))
                };
                if let Err((m, l)) = r {
                    errors.lock().unwrap().push(format!("dropping the operation panicked at {l}: {m}"));
                }
            }
        }));
    }
    let ring_slot: Arc<Mutex<Option<SendRing>>> = Arc::new(Mutex::new(world.ring.take().map(SendRing)));
    {
        let ring_slot = ring_slot.clone();
        let errors = errors.clone();
        let polls = case.polls.clamp(1, 3);
        let complete_before = case.complete_before_poll.clone();
        threads.push(Box::new(move || {
            let mut ring = ring_slot.lock().unwrap().take();
            for k in 0..polls {
                if complete_before.get(k as usize).copied().unwrap_or(true) {
                    sched::point(sched::Kind::Syscall);
                    complete_inflight(ring_fd);
                }
                if let Some(r) = ring.as_mut() {
                    let res = {
                        let _s = track::scope(track::TAG_A10);
                        catch(|| r.0.poll(Some(Duration::ZERO)))
                    };
                    match res {
                        Err((m, l)) => errors.lock().unwrap().push(format!("Ring::poll panicked at {l}: {m}")),
                        Ok(Err(e)) => errors.lock().unwrap().push(format!("Ring::poll failed: {e}")),
                        Ok(Ok(())) => {}
                    }
                }
            }
            *ring_slot.lock().unwrap() = ring;
        }));
    }
    let outcome = sched::run_either(&case.pct, &case.drop_tape, 20_000, false, threads);
    world.ring = ring_slot.lock().unwrap().take().map(|r| r.0);
    if outcome.over_budget {
        ctx.infra("scheduler step budget exceeded");
        return classes;
    }
    for p in &outcome.panics {
        ctx.violation("C06:sched:panic", format!("thread panicked: {p}"));
    }
    for e in errors.lock().unwrap().drain(..) {
        ctx.violation("C06:sched:panic", e);
    }
    if outcome.stuck {
        ctx.violation("C06:sched:deadlock", format!("no runnable thread; parked: {:?}", outcome.parked_at_end));
    }
    if outcome.interesting_switches > 0 {
        classes.push("switch-inside-a10");
    }
    for e in track::take_events() {
        match e {
            track::Event::ForeignFree { addr, size } => {
                ctx.violation("C06:sched:double-free", format!("free of {addr:#x} (size {size}) which is not a live block"));
            }
            track::Event::FreedWhileHeld { hold, block } => {
                ctx.violation("C06:sched:freed-early", format!("block {:#x}+{} freed while the kernel holds {} of request {}", block.addr, block.size, hold.what, hold.id));
            }
        }
    }

    // Wind down sequentially: the fillers go, the kernel finishes everything,
    // the Ring is polled until nothing is left.
    if !ctx.failed() {
        // Submissions published from here on are the wind-down's own.
        let tail_at_wind_down = world.sq_tail();
        {
            let _s = track::scope(track::TAG_A10);
            drop(fillers);
        }
        for _ in 0..6 {
            complete_inflight(ring_fd);
            if let Err((m, l)) = catch(|| world.poll_ring(Some(Duration::ZERO))) {
                ctx.violation("C06:sched:panic", format!("Ring::poll panicked at {l}: {m}"));
                break;
            }
        }
        for e in track::take_events() {
            if let track::Event::ForeignFree { addr, size } = e {
                ctx.violation("C06:sched:double-free", format!("free of {addr:#x} (size {size}) which is not a live block"));
            }
        }
        // Cancel requests: at most one per dropped operation, each naming it.
        let cancels: Vec<u64> = sim::events_since(events_before.min(sim::events_len())).iter().filter_map(|e| if let SimEvent::Consumed { sqe, position, .. } = e { (sqe.opcode == abi::OP_ASYNC_CANCEL && *position < tail_at_wind_down).then_some(sqe.addr) } else { None }).collect();
        for c in &cancels {
            if !all_meta.iter().any(|(ud, ..)| ud == c) {
                ctx.violation("C06:sched:foreign-cancel", format!("a cancel request targets user_data {c:#x}, which is none of the dropped operations"));
            }
        }
        for (ud, ..) in &all_meta {
            if cancels.iter().filter(|c| *c == ud).count() > 1 {
                ctx.violation("C06:sched:cancelled-twice", format!("operation {ud:#x} was the target of more than one cancel request"));
            }
        }
        if !ctx.failed() {
            for (k, (ud, state, buffer)) in all_meta.iter().enumerate() {
                if live(*state) {
                    ctx.violation("C06:sched:state-leaked", format!("operation {k} (user_data {ud:#x}) was dropped while the Ring processed completions on another thread; its final completion was consumed and the Ring polled repeatedly, yet its state block is still allocated"));
                    break;
                }
                if live(*buffer) {
                    ctx.violation("C06:sched:resources-leaked", format!("operation {k} (user_data {ud:#x}): its buffer is still allocated after the final completion was consumed"));
                    break;
                }
            }
        }
    }
    {
        let _s = track::scope(track::TAG_A10);
        drop(rest);
        drop(world);
    }
    sim::take_violations();
    track::take_events();
    classes
}
