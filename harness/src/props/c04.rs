//! C04 — submission queue integrity (C04a: sequential histories with
//! over-subscription and counter wrap-around).

use proptest::prelude::*;

use serde::{Deserialize, Serialize};

use super::c04b::{self, SchedCase};
use crate::common::{Ctx, Tier};
use crate::strat;
use crate::interp::{self, History, Oracles};
use crate::runner::Property;

/// C04a sequential histories or C04b scheduled programs.
#[derive(Clone, Debug, Serialize, Deserialize)]
#[serde(untagged)]
pub enum Case {
    Seq(History),
    Sched(SchedCase),
}

pub struct C04;

impl Property for C04 {
    const ID: &'static str = "C04";
    type Case = Case;

    fn strategy(_tier: Tier) -> BoxedStrategy<Case> {
        let seq = (strat::ring_cfg(3), proptest::collection::vec(strat::step(strat::kind_basic().boxed(), 1, 1), 0..80)).prop_map(|(cfg, steps)| Case::Seq(History { cfg, steps, teardown: None }));
        let sched = (0u8..=2, 1u8..=2, proptest::collection::vec(1u8..=3, 2..=4), 0u8..4, proptest::bool::weighted(0.3), proptest::bool::weighted(0.25), proptest::collection::vec(any::<u16>(), 0..120), strat::maybe_pct(3, 120), proptest::bool::weighted(0.3))
            .prop_map(|(sq_log2, gap, submitters, polls, sqpoll, drop_ring, tape, pct, single_issuer)| Case::Sched(SchedCase { sq_log2, gap, submitters, polls, sqpoll, drop_ring, tape, pct, single_issuer }));
        prop_oneof![3 => seq, 2 => sched].boxed()
    }

    fn cases(tier: Tier) -> u32 {
        tier.pick(20_000, 2_000_000)
    }

    fn run(case: &Case, ctx: &mut Ctx) {
        let case = match case {
            Case::Seq(h) => h,
            Case::Sched(sc) => {
                let classes = c04b::run(sc, ctx);
                for c in &classes {
                    ctx.class(c);
                }
                ctx.class("scheduled");
                ctx.nontrivial = classes.contains(&"switch-inside-a10") && classes.contains(&"over-subscribed");
                ctx.fingerprint = format!("sched|sq{}|gap{}|t{}|{}|{:x}", 1 << sc.sq_log2.min(2), sc.gap, sc.submitters.len(), classes.join("|"), crate::common::fnv(&format!("{sc:?}")) & 0xffff);
                return;
            }
        };
        let oracles = Oracles { c04: true, ..Oracles::default() };
        let feats = interp::execute(case, oracles, ctx);
        ctx.nontrivial = feats.contains("queue-full") || feats.contains("sq-wrapped");
        for f in &feats {
            if true {
                ctx.class(f);
            }
        }
        ctx.fingerprint = super::fingerprint(case, &feats);
    }

    fn rule() -> &'static str {
        "proptest histories over rings of 1..8 submission entries with generated start counters (0, 2^31-k, 2^32-k, arbitrary): operations are started and polled with deliberate over-subscription, the kernel consumes on Ring::poll; oracle: multiset and order of consumed SQEs == accepted submissions, each byte-equal to an independently written encoding, queue-full => Pending without publishing, room => accepted. Non-trivial = the history hit queue-full or the SQ counters crossed 2^32. Distinct = distinct (ring class, feature set) fingerprints. C04b (2 of 5 cases): 2..4 submitter threads x 1..3 operations into a 1..4-entry queue primed to len-1 or len-2 entries, a poller thread (Ring::poll) or the SQPOLL kernel thread consuming, optionally dropping the Ring while they submit (then every published entry must have been passed to the kernel by the drop and late submitters refused), all under a baton scheduler (one runnable thread; scheduling points at a10's lock/try_lock/kernel-shared loads/tail store and at every simulated system call) following a generated choice tape; afterwards everything is driven to completion sequentially; oracle: every entry the kernel consumed is a well-formed submission of exactly one operation, none twice, none missing, all operations resolve. Non-trivial (scheduled) = a context switch happened inside a10 and there were more operations than slots."
    }

    fn assumptions() -> Vec<&'static str> {
        vec![
            "simulated kernel obeys DESIGN.md section 3 (K1-K12)",
            "interleavings are explored under sequential consistency only (C04b scheduled sub-check); the sufficiency of the fence/release ordering on weak memory is not decided",
        ]
    }
}
