//! Counting wakers.
//!
//! A waker's identity is its data pointer *and* its vtable
//! (`Waker::will_wake`). A handle can have a *sibling*: a second waker over
//! the same block (same data pointer) with another vtable and its own
//! counter, which is what combinators that keep one state block and encode
//! the branch in the vtable, or data-less wakers, look like to the code under
//! test. Code that compares only the data pointers takes the two for the same
//! waker.

use std::sync::Arc;
use std::sync::atomic::{AtomicU64, AtomicUsize, Ordering};
use std::task::{RawWaker, RawWakerVTable, Wake, Waker};

pub struct CountWaker {
    pub wakes: AtomicU64,
    /// Wakes through the sibling vtable.
    pub wakes_b: AtomicU64,
    /// Live `WakerHandle`s over this block (each holds two references).
    handles: AtomicUsize,
    /// Process-wide sequence number of the latest wake through the first
    /// vtable (0 = never): the order in which the code under test woke wakers.
    pub last_seq: AtomicU64,
    /// The same for the sibling vtable.
    pub last_seq_b: AtomicU64,
}

static WAKE_SEQ: AtomicU64 = AtomicU64::new(1);

fn stamp(cell: &CountWaker) {
    cell.last_seq.store(WAKE_SEQ.fetch_add(1, Ordering::SeqCst), Ordering::SeqCst);
}

fn stamp_b(cell: &CountWaker) {
    cell.last_seq_b.store(WAKE_SEQ.fetch_add(1, Ordering::SeqCst), Ordering::SeqCst);
}

impl Wake for CountWaker {
    fn wake(self: Arc<Self>) {
        self.wakes.fetch_add(1, Ordering::SeqCst);
        stamp(&self);
        // An executor thread parked (under the baton scheduler) for this task.
        crate::sched::notify(crate::sched::Reason::Token(Arc::as_ptr(&self) as u64));
    }
    fn wake_by_ref(self: &Arc<Self>) {
        self.wakes.fetch_add(1, Ordering::SeqCst);
        stamp(self);
        crate::sched::notify(crate::sched::Reason::Token(Arc::as_ptr(self) as u64));
    }
}

unsafe fn b_clone(data: *const ()) -> RawWaker {
    unsafe { Arc::increment_strong_count(data.cast::<CountWaker>()) };
    RawWaker::new(data, &VTABLE_B)
}

unsafe fn b_wake(data: *const ()) {
    let cell = unsafe { Arc::from_raw(data.cast::<CountWaker>()) };
    cell.wakes_b.fetch_add(1, Ordering::SeqCst);
    stamp_b(&cell);
    crate::sched::notify(crate::sched::Reason::Token(Arc::as_ptr(&cell) as u64));
}

unsafe fn b_wake_by_ref(data: *const ()) {
    let cell = unsafe { &*data.cast::<CountWaker>() };
    cell.wakes_b.fetch_add(1, Ordering::SeqCst);
    stamp_b(cell);
    crate::sched::notify(crate::sched::Reason::Token(data as u64));
}

unsafe fn b_drop(data: *const ()) {
    drop(unsafe { Arc::from_raw(data.cast::<CountWaker>()) });
}

static VTABLE_B: RawWakerVTable = RawWakerVTable::new(b_clone, b_wake, b_wake_by_ref, b_drop);

pub struct WakerHandle {
    pub cell: Arc<CountWaker>,
    pub waker: Waker,
    side_b: bool,
}

impl Clone for WakerHandle {
    fn clone(&self) -> WakerHandle {
        self.cell.handles.fetch_add(1, Ordering::SeqCst);
        WakerHandle { cell: self.cell.clone(), waker: self.waker.clone(), side_b: self.side_b }
    }
}

impl Drop for WakerHandle {
    fn drop(&mut self) {
        self.cell.handles.fetch_sub(1, Ordering::SeqCst);
    }
}

impl WakerHandle {
    pub fn new() -> WakerHandle {
        let cell = Arc::new(CountWaker { wakes: AtomicU64::new(0), wakes_b: AtomicU64::new(0), handles: AtomicUsize::new(1), last_seq: AtomicU64::new(0), last_seq_b: AtomicU64::new(0) });
        let waker = Waker::from(cell.clone());
        WakerHandle { cell, waker, side_b: false }
    }
    /// A different waker (`will_wake` is false both ways) with the same data
    /// pointer as this one: same block, other vtable, own counter.
    pub fn sibling(&self) -> WakerHandle {
        self.cell.handles.fetch_add(1, Ordering::SeqCst);
        let data = Arc::into_raw(self.cell.clone()).cast::<()>();
        // SAFETY: the vtable functions treat `data` as the `Arc<CountWaker>`
        // reference handed over here.
        let waker = unsafe { Waker::from_raw(RawWaker::new(data, &VTABLE_B)) };
        debug_assert!(!waker.will_wake(&self.waker) && waker.data() == self.waker.data());
        WakerHandle { cell: self.cell.clone(), waker, side_b: true }
    }
    /// The waker a task presents when it "has a new waker": alternately a
    /// sibling of the current one (same data pointer) and a brand new one.
    pub fn replacement(&self) -> WakerHandle {
        if self.side_b { WakerHandle::new() } else { self.sibling() }
    }
    /// Scheduler token notified by every wake of this waker.
    pub fn token(&self) -> u64 {
        Arc::as_ptr(&self.cell) as u64
    }
    pub fn wakes(&self) -> u64 {
        if self.side_b { self.cell.wakes_b.load(Ordering::SeqCst) } else { self.cell.wakes.load(Ordering::SeqCst) }
    }
    /// Sequence number of the latest wake of this waker (0 = never).
    pub fn last_wake_seq(&self) -> u64 {
        if self.side_b { self.cell.last_seq_b.load(Ordering::SeqCst) } else { self.cell.last_seq.load(Ordering::SeqCst) }
    }
    /// Number of clones of the waker held by others (the tested code).
    pub fn foreign_refs(&self) -> usize {
        // Two per handle: its `cell` and its `waker`.
        Arc::strong_count(&self.cell).saturating_sub(2 * self.cell.handles.load(Ordering::SeqCst))
    }
}
