//! E4: baton-passing scheduler (real OS threads, exactly one runnable at a
//! time). Filled in by the scheduled drivers; with no scheduler active every
//! point is a no-op.

use std::sync::atomic::{AtomicBool, Ordering};

#[derive(Copy, Clone, Debug, PartialEq, Eq)]
pub enum Kind {
    /// Entry of a simulated system call.
    Syscall,
    /// A point inside a10 (see `a10::verif::Point`).
    A10(a10::verif::Point),
}

pub(crate) static ACTIVE: AtomicBool = AtomicBool::new(false);

#[inline]
pub fn point(kind: Kind) {
    if ACTIVE.load(Ordering::Relaxed) {
        imp::yield_point(kind, 0);
    }
}

pub mod imp;
pub use imp::*;
