//! Common machinery: per-case context, known findings, evidence, replay.

use std::collections::{BTreeMap, BTreeSet};
use std::path::PathBuf;

use serde::{Deserialize, Serialize};
use serde_json::Value;

#[derive(Copy, Clone, Debug, PartialEq, Eq)]
pub enum Tier {
    Quick,
    Thorough,
}

impl Tier {
    pub fn name(self) -> &'static str {
        match self {
            Tier::Quick => "quick",
            Tier::Thorough => "thorough",
        }
    }
    pub fn parse(s: &str) -> Option<Tier> {
        match s {
            "quick" => Some(Tier::Quick),
            "thorough" => Some(Tier::Thorough),
            _ => None,
        }
    }
    /// Pick by tier.
    pub fn pick<T>(self, quick: T, thorough: T) -> T {
        match self {
            Tier::Quick => quick,
            Tier::Thorough => thorough,
        }
    }
}

pub fn verif_root() -> PathBuf {
    if let Ok(root) = std::env::var("VERIF_ROOT") {
        return PathBuf::from(root);
    }
    PathBuf::from("/verif")
}

#[derive(Clone, Debug, Serialize, Deserialize)]
pub struct Failure {
    pub sig: String,
    pub msg: String,
}

#[derive(Clone, Debug)]
pub struct KnownFinding {
    pub property: String,
    pub sig: String,
    pub text: String,
}

/// Parse KNOWN_FINDINGS.txt: lines `known: property=<id> sig=<sig> <text>`;
/// `fixed:` lines and comments suppress nothing.
pub fn load_known(property: &str) -> Vec<KnownFinding> {
    let path = verif_root().join("KNOWN_FINDINGS.txt");
    let Ok(text) = std::fs::read_to_string(path) else { return Vec::new() };
    let mut out = Vec::new();
    for line in text.lines() {
        let line = line.trim();
        let Some(rest) = line.strip_prefix("known:") else { continue };
        let mut prop = None;
        let mut sig = None;
        let mut words = Vec::new();
        for w in rest.split_whitespace() {
            if let Some(p) = w.strip_prefix("property=") {
                prop = Some(p.to_string());
            } else if let Some(s) = w.strip_prefix("sig=") {
                sig = Some(s.to_string());
            } else {
                words.push(w);
            }
        }
        if let (Some(p), Some(s)) = (prop, sig) {
            if p == property {
                out.push(KnownFinding { property: p, sig: s, text: words.join(" ") });
            }
        }
    }
    out
}

/// Per-case context handed to a property driver.
pub struct Ctx {
    pub property: &'static str,
    known: BTreeSet<String>,
    /// Replay/strict mode: known findings are failures too.
    pub strict: bool,
    pub known_hits: BTreeMap<String, u64>,
    pub failure: Option<Failure>,
    pub classes: BTreeSet<String>,
    pub fingerprint: String,
    pub nontrivial: bool,
    pub skipped_steps: u64,
    /// Infrastructure problem (unsupported simulator request, harness
    /// inconsistency): exit 2, never a violation.
    pub infra: Option<String>,
    pub tier: Tier,
}

impl Ctx {
    pub fn new(property: &'static str, known: &[KnownFinding], tier: Tier) -> Ctx {
        Ctx {
            property,
            known: known.iter().map(|k| k.sig.clone()).collect(),
            strict: false,
            known_hits: BTreeMap::new(),
            failure: None,
            classes: BTreeSet::new(),
            fingerprint: String::new(),
            nontrivial: false,
            skipped_steps: 0,
            infra: None,
            tier,
        }
    }

    /// Is `sig` a listed known finding (so the driver should adopt the
    /// observed behaviour and continue)?
    pub fn is_known(&self, sig: &str) -> bool {
        !self.strict && self.known.contains(sig)
    }

    /// Report a violation. Returns `true` if the case must stop (it is not a
    /// listed known finding), `false` if it is known and the driver should
    /// carry on with the finding excluded.
    pub fn violation(&mut self, sig: &str, msg: impl Into<String>) -> bool {
        if self.is_known(sig) {
            *self.known_hits.entry(sig.to_string()).or_insert(0) += 1;
            return false;
        }
        if self.failure.is_none() {
            let f = Failure { sig: sig.to_string(), msg: msg.into() };
            // Also where the hang monitor can see it: a case that hangs in
            // the aftermath of a violation reports that violation.
            if self.property == self.sig_property(&f.sig) {
                *PENDING_VIOLATION.lock().unwrap_or_else(|e| e.into_inner()) = Some(format!("{} {}", f.sig, f.msg));
            }
            self.failure = Some(f);
        }
        true
    }

    fn sig_property<'s>(&self, sig: &'s str) -> &'s str {
        sig.split(':').next().unwrap_or("")
    }

    pub fn failed(&self) -> bool {
        self.failure.is_some() || self.infra.is_some()
    }

    pub fn class(&mut self, name: &str) {
        if !self.classes.contains(name) {
            self.classes.insert(name.to_string());
        }
    }

    pub fn infra(&mut self, msg: impl Into<String>) {
        if self.infra.is_none() {
            self.infra = Some(msg.into());
        }
    }
}

/// What one shard worker reports to the parent.
#[derive(Clone, Debug, Default, Serialize, Deserialize)]
pub struct ShardOut {
    pub evaluations: u64,
    pub nontrivial: u64,
    pub nontrivial_fps: Vec<u64>,
    pub classes: BTreeMap<String, u64>,
    pub samples: Vec<Value>,
    pub known_hits: BTreeMap<String, u64>,
    pub violation: Option<ShardViolation>,
    pub infra_error: Option<String>,
    pub skipped_steps: u64,
    pub replayed: u64,
    /// Free-form extra coverage keys (e.g. exhaustive table sizes).
    pub extra: BTreeMap<String, Value>,
    pub notes: Vec<String>,
}

#[derive(Clone, Debug, Serialize, Deserialize)]
pub struct ShardViolation {
    pub sig: String,
    pub msg: String,
    pub replay: String,
}

pub fn fnv(s: &str) -> u64 {
    let mut h: u64 = 0xcbf29ce484222325;
    for b in s.as_bytes() {
        h ^= *b as u64;
        h = h.wrapping_mul(0x100000001b3);
    }
    h
}

/// Monotone index mapping (never `%`, so shrinking an index shrinks the
/// behaviour): maps a u16 onto `0..len`.
pub fn pick_index(raw: u16, len: usize) -> usize {
    if len == 0 {
        return 0;
    }
    ((raw as usize) * len) >> 16
}

/// The first violation the running case reported (see `Ctx::violation`).
pub static PENDING_VIOLATION: std::sync::Mutex<Option<String>> = std::sync::Mutex::new(None);
