//! Multi-completion operations under the simulated kernel: multishot accept
//! (many results, then one end) and zero-copy sends (result completion with
//! IORING_CQE_F_MORE, then the notification), mixed with single-shot writes.
//! Shared by C01 (memory held until the *last* completion), C02 (every result
//! once, in kernel order, end exactly once; two-step operations resolve after
//! the second completion with the value of the first) and C06 (drop cancels
//! exactly it, state reclaimed exactly once after the final completion).

use std::collections::{BTreeMap, BTreeSet, VecDeque};
use std::future::Future;
use std::pin::Pin;
use std::sync::{Arc, Mutex};
use std::task::{Context, Poll};
use std::time::Duration;

use proptest::prelude::*;
use serde::{Deserialize, Serialize};

use crate::abi::{self, Sqe};
use crate::common::{Ctx, pick_index};
use crate::interp::CancelChoice;
use crate::interp::waker::WakerHandle;
use crate::interp::world::{RingCfg, World};
use crate::runner::catch;
use crate::sim::{self, CancelOutcome, SimEvent};
use crate::track;

#[derive(Clone, Debug, Serialize, Deserialize, PartialEq, Eq)]
pub enum MKind {
    /// `AsyncFd::multishot_accept()`.
    Accept,
    /// `AsyncFd::send(Vec<u8>).zc()`.
    SendZc { len: u16 },
    /// `AsyncFd::send_vectored([Vec<u8>; 2]).zc()`.
    SendVecZc { a: u16, b: u16 },
    /// `AsyncFd::write(Vec<u8>)` (single completion; mixed in).
    Write { len: u16 },
    /// `Ring::pollable(sq)` of a second ring: a multishot poll whose results
    /// all look the same (the poll mask), unlike accepted connections.
    Pollable,
    /// `Signals::receive_signals()`: an owned iterator over single reads of a
    /// (real) signalfd; one operation state is reset and reused for every
    /// item. `into_inner`: it is taken apart with `into_inner()` instead of
    /// being dropped.
    Signals { into_inner: bool },
}

impl MKind {
    fn multishot(&self) -> bool {
        matches!(self, MKind::Accept | MKind::Pollable)
    }
    fn zero_copy(&self) -> bool {
        matches!(self, MKind::SendZc { .. } | MKind::SendVecZc { .. })
    }
}

#[derive(Clone, Debug, Serialize, Deserialize)]
pub enum MStep {
    Poll { op: u16, fresh_waker: bool },
    /// The kernel posts the next completion of operation `op`. Multishot:
    /// a result (`ok`: a new connection, else an error which is always the
    /// last); `last` ends the multishot with this completion. Zero-copy:
    /// first the result (`ok` with `frac` of the bytes sent, or an error;
    /// `last` on an error means the early-failure form without notification),
    /// then the notification.
    Post { op: u16, ok: bool, last: bool, frac: u16 },
    RingPoll,
    Drop { op: u16, cancel: CancelChoice },
    /// The kernel ends operation `op` with -EINTR / -ECANCELED although nobody
    /// asked for that (final completion, no F_MORE): a10 must re-issue it.
    Fault {
        op: u16,
        eintr: bool,
        /// Zero-copy sends: the interrupted result carries IORING_CQE_F_MORE
        /// and the notification follows (what Linux 6.18 posts for a cancelled
        /// SEND_ZC), instead of the single-completion form.
        #[serde(default)]
        notif: bool,
    },
    /// Drop the Ring while operations are in flight (queue handles and the
    /// descriptor stay alive); afterwards only futures are dropped and the
    /// kernel posts what it still owes (zero-copy notifications).
    DropRing,
}

#[derive(Clone, Debug, Serialize, Deserialize)]
pub struct MultiCase {
    pub sq_log2: u8,
    pub ops: Vec<MKind>,
    pub multi_steps: Vec<MStep>,
}

pub fn strategy() -> impl Strategy<Value = MultiCase> {
    let kind = prop_oneof![
        4 => Just(MKind::Accept),
        2 => Just(MKind::Pollable),
        2 => any::<bool>().prop_map(|into_inner| MKind::Signals { into_inner }),
        3 => (1u16..600).prop_map(|len| MKind::SendZc { len }),
        2 => (0u16..300, 1u16..300).prop_map(|(a, b)| MKind::SendVecZc { a, b }),
        1 => (1u16..300).prop_map(|len| MKind::Write { len }),
    ];
    let cancel = prop_oneof![Just(CancelChoice::Wins), Just(CancelChoice::Already), Just(CancelChoice::NotFound)];
    let step = prop_oneof![
        5 => (any::<u16>(), any::<bool>()).prop_map(|(op, fresh_waker)| MStep::Poll { op, fresh_waker }),
        8 => (any::<u16>(), prop::bool::weighted(0.9), prop::bool::weighted(0.12), any::<u16>()).prop_map(|(op, ok, last, frac)| MStep::Post { op, ok, last, frac }),
        4 => Just(MStep::RingPoll),
        1 => (any::<u16>(), cancel).prop_map(|(op, cancel)| MStep::Drop { op, cancel }),
        1 => (any::<u16>(), any::<bool>(), any::<bool>()).prop_map(|(op, eintr, notif)| MStep::Fault { op, eintr, notif }),
    ];
    let steps = (proptest::collection::vec(step, 0..70), proptest::option::weighted(0.2, any::<u16>())).prop_map(|(mut steps, ring_drop): (Vec<MStep>, Option<u16>)| {
        if let Some(at) = ring_drop {
            let at = pick_index(at, steps.len() + 1);
            steps.insert(at, MStep::DropRing);
        }
        steps
    });
    let general = (1u8..=3, proptest::collection::vec(kind, 1..=4), steps).prop_map(|(sq_log2, ops, multi_steps)| MultiCase { sq_log2, ops, multi_steps });
    // Teardown shape: a zero-copy send whose notification is outstanding when
    // the Ring is dropped (the one kind of operation that is still running
    // after that), followed by generated drops/notifications.
    let cancel2 = prop_oneof![Just(CancelChoice::Wins), Just(CancelChoice::Already)];
    let tail_step = prop_oneof![
        3 => (any::<u16>(), cancel2).prop_map(|(op, cancel)| MStep::Drop { op, cancel }),
        2 => (any::<u16>(), any::<bool>(), any::<u16>()).prop_map(|(op, ok, frac)| MStep::Post { op, ok, last: false, frac }),
        3 => (any::<u16>(), any::<bool>()).prop_map(|(op, fresh_waker)| MStep::Poll { op, fresh_waker }),
    ];
    let zc_kind = prop_oneof![(1u16..600).prop_map(|len| MKind::SendZc { len }), (0u16..300, 1u16..300).prop_map(|(a, b)| MKind::SendVecZc { a, b })];
    let kind2 = prop_oneof![Just(MKind::Accept), Just(MKind::Pollable), (1u16..300).prop_map(|len| MKind::Write { len }), (1u16..600).prop_map(|len| MKind::SendZc { len })];
    let teardown = (zc_kind, proptest::collection::vec(kind2, 0..=2), any::<bool>(), any::<bool>(), any::<u16>(), proptest::collection::vec(tail_step, 0..8)).prop_map(|(first, rest, drop_before_ring, poll_between, frac, tail)| {
        let mut ops = vec![first];
        ops.extend(rest);
        let mut steps = Vec::new();
        for k in 0..ops.len() {
            // Start every operation (queue of 8 entries: room for all).
            steps.push(MStep::Poll { op: (k as u32 * 65536 / ops.len() as u32) as u16, fresh_waker: false });
        }
        steps.push(MStep::RingPoll);
        steps.push(MStep::Post { op: 0, ok: true, last: false, frac });
        if poll_between {
            steps.push(MStep::RingPoll);
        }
        if drop_before_ring {
            steps.push(MStep::Drop { op: 0, cancel: CancelChoice::Already });
        }
        steps.push(MStep::DropRing);
        steps.extend(tail);
        MultiCase { sq_log2: 3, ops, multi_steps: steps }
    });
    prop_oneof![5 => general, 1 => teardown]
}

enum Fut {
    Accept(Pin<Box<a10::net::MultishotAccept<'static>>>),
    Pollable(Pin<Box<a10::poll::Pollable>>),
    Signals(Pin<Box<a10::process::ReceiveSignals>>),
    Count(Pin<Box<dyn Future<Output = std::io::Result<usize>>>>),
}

/// One completion the kernel posted for an operation.
#[derive(Clone, Debug)]
struct Item {
    seq: u64,
    res: i32,
    flags: u32,
}

struct Op {
    kind: MKind,
    fut: Option<Fut>,
    waker: WakerHandle,
    wakes_at_poll: u64,
    last_poll_pending: bool,
    started: bool,
    user_data: u64,
    serial: Option<u64>,
    /// Posted, not yet consumed by a10.
    in_cq: VecDeque<Item>,
    /// Consumed by a10 (Ring::poll), not yet handed to the consumer.
    delivered: VecDeque<Item>,
    final_posted: bool,
    final_consumed: bool,
    /// Zero-copy: the first (result) completion.
    zc_first: Option<i32>,
    zc_first_consumed: bool,
    zc_saw_notif: bool,
    /// The consumer saw the end / the resolution.
    done: bool,
    dropped_running: bool,
    state_serial: Option<u64>,
    /// (address, tracker serial) of every buffer block given to the operation.
    buffers: Vec<(usize, u64)>,
    total_len: usize,
    yielded: usize,
    posted_count: usize,
    /// The submission as first published (a re-issue must be identical).
    first_sqe: Option<Sqe>,
    /// A fault was consumed and everything before it yielded: the next poll
    /// must re-issue the operation.
    restarts: usize,
    /// Signals: the sender pid scripted for the read in flight, and the
    /// descriptor number of the signalfd.
    sig_pid: u32,
    sig_fd: i32,
}

struct Exec<'c> {
    world: World,
    fd: usize,
    ops: Vec<Op>,
    ctx: &'c mut Ctx,
    prop: &'static str,
    events_seen: usize,
    consumed_seqs: BTreeSet<u64>,
    classes: Vec<&'static str>,
    stop: bool,
    accepted: Vec<a10::AsyncFd>,
    cancel_script: Arc<Mutex<BTreeMap<u64, CancelChoice>>>,
    ring_gone: bool,
    /// A second ring, the one `Pollable` operations watch.
    other: Option<(a10::Ring, i32)>,
}

const ERRS: &[i32] = &[libc::EMFILE, libc::ECONNABORTED, libc::ENOMEM, libc::EPIPE, libc::ECONNRESET, libc::ENOBUFS];

impl<'c> Exec<'c> {
    fn on(&self, p: &str) -> bool {
        // C05 (every completion reaches its operation once, in publication
        // order) is judged by the same per-operation FIFO as C02.
        // C12 (teardown): the Ring dropped with multi-completion operations
        // abandoned or in flight; judged by C06's reclaim/double-free audit
        // and C01's kernel-held-memory audit.
        self.prop == p || (self.prop == "C05" && p == "C02") || (self.prop == "C12" && (p == "C06" || p == "C01"))
            // C09 (transparent restart): with and without the interruption the
            // caller sees the same results, so C02's FIFO judges C09 too.
            || (self.prop == "C09" && p == "C02")
    }

    fn fail(&mut self, prop: &str, kind: &str, msg: String) {
        if !self.on(prop) && kind != "panic" {
            return;
        }
        let p = self.prop;
        if self.ctx.violation(&format!("{p}:multi:{kind}"), msg) {
            self.stop = true;
        }
    }

    fn ring_words(&self) -> (u32, u32, u32) {
        let mut s = sim::sim();
        match s.ring(self.world.ring_fd) {
            Some(r) => (r.sq_head_shared(), r.sq_tail(), r.sq_entries),
            None => (0, 0, 1),
        }
    }

    fn sync(&mut self) {
        let events = sim::events_since(self.events_seen);
        self.events_seen += events.len();
        for e in events {
            match e {
                SimEvent::Consumed { serial, sqe, .. } if sqe.user_data >= 4 => {
                    if let Some(op) = self.ops.iter_mut().find(|o| o.started && o.user_data == sqe.user_data && o.serial.is_none()) {
                        op.serial = Some(serial);
                    }
                }
                SimEvent::Posted { seq, req, cqe, .. } => {
                    if let Some(op) = self.ops.iter_mut().find(|o| o.serial == Some(req)) {
                        op.in_cq.push_back(Item { seq, res: cqe.res, flags: cqe.flags });
                        op.posted_count += 1;
                        if cqe.flags & abi::CQE_F_MORE == 0 {
                            op.final_posted = true;
                        }
                    }
                }
                _ => {}
            }
        }
        // What has a10 consumed?
        let consumed: Vec<u64> = {
            let mut s = sim::sim();
            match s.ring(self.world.ring_fd) {
                Some(ring) => {
                    let head = ring.cq_head();
                    let ready = ring.cq_tail().wrapping_sub(head);
                    ring.posted.iter().filter(|p| p.position.is_some_and(|pos| pos.wrapping_sub(head) >= ready)).map(|p| p.seq).collect()
                }
                None => Vec::new(),
            }
        };
        for seq in consumed {
            if self.consumed_seqs.insert(seq) {
                for op in &mut self.ops {
                    while op.in_cq.front().is_some_and(|i| i.seq == seq) {
                        let item = op.in_cq.pop_front().unwrap();
                        let is_final = item.flags & abi::CQE_F_MORE == 0;
                        let zc = op.kind.zero_copy();
                        if zc {
                            if item.flags & abi::CQE_F_NOTIF != 0 {
                                // Carries no result.
                                op.zc_saw_notif = true;
                            } else {
                                op.zc_first_consumed = true;
                                if is_final {
                                    // Early failure form.
                                    op.zc_first = Some(item.res);
                                }
                            }
                        } else {
                            op.delivered.push_back(item);
                        }
                        if is_final {
                            op.final_consumed = true;
                        }
                    }
                }
            }
        }
        for (sig, msg) in sim::take_violations() {
            if sig.starts_with("C01") {
                let kind = sig.splitn(2, ':').nth(1).unwrap_or("memory").to_string();
                self.fail("C01", &kind, msg);
            }
        }
        for e in track::take_events() {
            match e {
                track::Event::FreedWhileHeld { hold, block } => {
                    if hold.what == "op-state" {
                        let p = if self.on("C06") { "C06" } else { "C01" };
                        self.fail(p, "state-freed-early", format!("operation state block {:#x} freed before the final completion of its request was visible", block.addr));
                    } else {
                        self.fail("C01", &format!("freed-while-held:{}", hold.what), format!("block {:#x}+{} freed while the kernel holds {} {:#x}+{} (request {})", block.addr, block.size, hold.what, hold.addr, hold.len, hold.id));
                    }
                }
                track::Event::ForeignFree { addr, size } => {
                    let p = if self.on("C06") { "C06" } else { "C01" };
                    self.fail(p, "double-free", format!("free of {addr:#x} (size {size}) which is not a live block"));
                }
            }
        }
        if let Some(u) = sim::take_unsupported() {
            self.ctx.infra(format!("unsupported simulator request: {u}"));
            self.stop = true;
        }
    }

    fn is_multishot(&self, i: usize) -> bool {
        self.ops[i].kind.multishot()
    }

    fn build(&mut self, i: usize) {
        let afd = self.world.fd(self.fd);
        let kind = self.ops[i].kind.clone();
        let mk = |n: usize, seed: usize| -> Vec<u8> {
            let _s = track::scope(track::TAG_RESOURCE);
            (0..n).map(|j| (j.wrapping_mul(13).wrapping_add(seed * 7 + 1)) as u8).collect()
        };
        let mut buffers = Vec::new();
        let mut note = |v: &Vec<u8>| {
            if v.capacity() > 0 {
                if let Some(b) = track::lookup(v.as_ptr().addr()) {
                    buffers.push((v.as_ptr().addr(), b.serial));
                }
            }
        };
        let fut = match kind {
            MKind::Accept => {
                let _s = track::scope(track::TAG_A10);
                Fut::Accept(Box::pin(afd.multishot_accept()))
            }
            MKind::Pollable => {
                let sq = self.world.sq();
                let other = &self.other.as_ref().expect("second ring").0;
                let _s = track::scope(track::TAG_A10);
                Fut::Pollable(Box::pin(other.pollable(sq)))
            }
            MKind::Signals { .. } => {
                let sq = self.world.sq();
                let _s = track::scope(track::TAG_A10);
                let signals = a10::process::Signals::from_signals(sq, [a10::process::Signal::USER2]).expect("signalfd");
                let text = format!("{signals:?}");
                self.ops[i].sig_fd = text.split("fd: AsyncFd { fd: ").nth(1).and_then(|r| r.split(',').next()).and_then(|n| n.trim().parse::<i32>().ok()).unwrap_or(-1);
                Fut::Signals(Box::pin(signals.receive_signals()))
            }
            MKind::SendZc { len } => {
                let v = mk(len as usize, i);
                note(&v);
                self.ops[i].total_len = len as usize;
                let _s = track::scope(track::TAG_A10);
                Fut::Count(Box::pin(afd.send(v).zc()))
            }
            MKind::SendVecZc { a, b } => {
                let (va, vb) = (mk(a as usize, i), mk(b as usize, i + 9));
                note(&va);
                note(&vb);
                self.ops[i].total_len = a as usize + b as usize;
                let _s = track::scope(track::TAG_A10);
                Fut::Count(Box::pin(afd.send_vectored([va, vb]).zc()))
            }
            MKind::Write { len } => {
                let v = mk(len as usize, i);
                note(&v);
                self.ops[i].total_len = len as usize;
                let _s = track::scope(track::TAG_A10);
                Fut::Count(Box::pin(afd.write(v)))
            }
        };
        self.ops[i].buffers = buffers;
        self.ops[i].fut = Some(fut);
    }

    fn drop_ring(&mut self) {
        if self.ring_gone {
            return;
        }
        self.sync();
        let r = {
            let _s = track::scope(track::TAG_A10);
            catch(|| self.world.drop_ring())
        };
        self.ring_gone = true;
        self.classes.push("ring-dropped-early");
        if let Err((msg, loc)) = r {
            self.fail(self.prop, "panic", format!("dropping the Ring panicked at {loc}: {msg}"));
            return;
        }
        self.sync();
        if self.ops.iter().any(|o| o.started && !o.final_posted && o.fut.is_some()) {
            self.classes.push("running-after-ring-drop");
        }
        // Everything the Ring's drop consumed is now final for a10.
        for i in 0..self.ops.len() {
            if self.ops[i].dropped_running {
                if self.ops[i].final_consumed {
                    self.check_reclaimed(i, "after the Ring was dropped and consumed the final completion of the dropped operation");
                } else if !self.ops[i].final_posted {
                    self.check_live(i, "by the Ring's drop although the kernel has not posted its final completion");
                }
            }
        }
    }

    /// Drop a future after the Ring is gone.
    fn drop_after_ring(&mut self, i: usize) {
        self.sync();
        let (_, tail, _) = self.ring_words();
        let kernel_done = !self.ops[i].started || self.ops[i].final_posted;
        let fut = self.ops[i].fut.take();
        let r = {
            let _s = track::scope(track::TAG_A10);
            catch(|| drop(fut))
        };
        self.ops[i].done = true;
        if let Err((msg, loc)) = r {
            self.fail(self.prop, "panic", format!("dropping operation {i} after the Ring panicked at {loc}: {msg}"));
            return;
        }
        let (_, tail_after, _) = self.ring_words();
        if tail_after != tail {
            self.fail("C06", "submission-after-ring-drop", format!("dropping operation {i} after the Ring was dropped published {} submissions nobody will submit", tail_after.wrapping_sub(tail)));
        }
        self.sync();
        if !kernel_done {
            self.classes.push("dropped-after-ring-while-kernel-holds");
            self.check_live(i, "when its future was dropped after the Ring, although the kernel has not posted the operation's final completion");
        }
    }

    /// The kernel ended operation `i` with an interruption that a10 answers
    /// by re-issuing it at its next poll.
    fn restart_is_due(&self, i: usize) -> bool {
        let is_fault = |res: i32, flags: u32| (res == -libc::EINTR || res == -libc::ECANCELED) && flags & abi::CQE_F_MORE == 0;
        let zc = matches!(self.ops[i].kind, MKind::SendZc { .. } | MKind::SendVecZc { .. });
        if self.is_multishot(i) || !zc {
            self.ops[i].delivered.front().is_some_and(|x| is_fault(x.res, x.flags))
        } else {
            self.ops[i].final_consumed && self.ops[i].zc_first.is_some_and(|r| r == -libc::EINTR || r == -libc::ECANCELED)
        }
    }

    fn poll(&mut self, raw: u16, fresh_waker: bool) {
        // After the Ring is gone only operations the kernel already has are
        // polled (nothing can be submitted or re-issued any more): what the
        // Ring's drop consumed is handed out, everything else stays pending,
        // and memory the kernel still holds stays where it is.
        let c: Vec<usize> = (0..self.ops.len()).filter(|i| self.ops[*i].fut.is_some() && !self.ops[*i].done && (!self.ring_gone || (self.ops[*i].started && !self.restart_is_due(*i)))).collect();
        if c.is_empty() {
            self.ctx.skipped_steps += 1;
            return;
        }
        let i = c[pick_index(raw, c.len())];
        if self.ring_gone {
            self.classes.push("polled-after-ring-drop");
            if !self.ops[i].final_posted {
                self.classes.push("polled-after-ring-drop-while-kernel-holds");
            }
        }
        self.sync();
        let (head, tail, entries) = self.ring_words();
        let full = tail.wrapping_sub(head) >= entries;
        if fresh_waker {
            self.ops[i].waker = self.ops[i].waker.replacement();
        }
        let wakes = self.ops[i].waker.wakes();
        let waker = self.ops[i].waker.waker.clone();
        let mut cx = Context::from_waker(&waker);
        #[derive(Debug)]
        enum Got {
            Pending,
            End,
            Fd(a10::AsyncFd),
            Unit,
            /// A received signal: the sender's pid.
            Sig(u32),
            Count(usize),
            Err(Option<i32>, String),
        }
        let r = {
            let fut = self.ops[i].fut.as_mut().unwrap();
            let _s = track::scope(track::TAG_A10);
            catch(|| match fut {
                Fut::Accept(f) => match f.as_mut().poll_next(&mut cx) {
                    Poll::Pending => Got::Pending,
                    Poll::Ready(None) => Got::End,
                    Poll::Ready(Some(Ok(fd))) => Got::Fd(fd),
                    Poll::Ready(Some(Err(e))) => Got::Err(e.raw_os_error(), e.to_string()),
                },
                Fut::Pollable(f) => match f.as_mut().poll_next(&mut cx) {
                    Poll::Pending => Got::Pending,
                    Poll::Ready(None) => Got::End,
                    Poll::Ready(Some(Ok(()))) => Got::Unit,
                    Poll::Ready(Some(Err(e))) => Got::Err(e.raw_os_error(), e.to_string()),
                },
                Fut::Signals(f) => match f.as_mut().poll_next(&mut cx) {
                    Poll::Pending => Got::Pending,
                    Poll::Ready(None) => Got::End,
                    Poll::Ready(Some(Ok(info))) => Got::Sig(info.pid()),
                    Poll::Ready(Some(Err(e))) => Got::Err(e.raw_os_error(), e.to_string()),
                },
                Fut::Count(f) => match f.as_mut().poll(&mut cx) {
                    Poll::Pending => Got::Pending,
                    Poll::Ready(Ok(n)) => Got::Count(n),
                    Poll::Ready(Err(e)) => Got::Err(e.raw_os_error(), e.to_string()),
                },
            })
        };
        self.ops[i].wakes_at_poll = wakes;
        let got = match r {
            Ok(g) => g,
            Err((msg, loc)) => {
                std::mem::forget(self.ops[i].fut.take());
                self.ops[i].done = true;
                self.fail(self.prop, "panic", format!("polling operation {i} ({:?}) panicked at {loc}: {msg}", self.ops[i].kind));
                return;
            }
        };
        let (_, tail_after, _) = self.ring_words();
        let published = tail_after.wrapping_sub(tail);
        let name = format!("operation {i} ({:?})", self.ops[i].kind);
        self.ops[i].last_poll_pending = matches!(got, Got::Pending);
        if self.ring_gone {
            self.sync();
            if self.ops[i].started && !self.ops[i].final_posted {
                self.check_live(i, "by a poll after the Ring was dropped, although the kernel has not posted the operation's final completion");
            }
        }

        if !self.ops[i].started {
            // First submission.
            if !matches!(got, Got::Pending) {
                self.fail("C02", "made-up-result", format!("{name} resolved with {got:?} before it was ever submitted"));
                self.ops[i].done = true;
                return;
            }
            if full {
                if published != 0 {
                    self.fail("C02", "submitted-into-full-queue", format!("{name} published a submission into a full queue"));
                }
                self.classes.push("blocked-on-full-queue");
                return;
            }
            if published != 1 {
                self.fail("C02", "not-submitted", format!("{name} polled with room in the queue published {published} submissions"));
                return;
            }
            let sqe = sim::sim().the_ring().read_sqe_slot(tail);
            self.ops[i].started = true;
            self.ops[i].user_data = sqe.user_data;
            self.ops[i].first_sqe = Some(sqe);
            let addr = (sqe.user_data & !1) as usize;
            self.ops[i].state_serial = track::lookup(addr).map(|b| b.serial);
            let want_op = match self.ops[i].kind {
                MKind::Accept => abi::OP_ACCEPT,
                MKind::SendZc { .. } => abi::OP_SEND_ZC,
                MKind::SendVecZc { .. } => abi::OP_SENDMSG_ZC,
                MKind::Write { .. } => abi::OP_WRITE,
                MKind::Pollable => abi::OP_POLL_ADD,
                MKind::Signals { .. } => abi::OP_READ,
            };
            let bad_poll = self.ops[i].kind == MKind::Pollable && (sqe.len & abi::POLL_ADD_MULTI == 0 || Some(sqe.fd) != self.other.as_ref().map(|o| o.1));
            if sqe.opcode != want_op || bad_poll || (self.ops[i].kind == MKind::Accept && sqe.ioprio & abi::ACCEPT_MULTISHOT == 0) {
                self.fail("C02", "wrong-request", format!("{name} published {sqe:?}"));
            }
            if self.ops.iter().enumerate().any(|(k, o)| k != i && o.started && o.user_data == sqe.user_data && !(o.final_consumed && o.fut.is_none())) {
                self.fail("C02", "user-data-collision", format!("{name} uses user_data {:#x} which a live operation already uses", sqe.user_data));
            }
            return;
        }
        // A fault (-EINTR / -ECANCELED final completion) at the head of what is
        // left to hand out: the operation is re-issued, transparently.
        let is_fault = |res: i32, flags: u32| (res == -libc::EINTR || res == -libc::ECANCELED) && flags & abi::CQE_F_MORE == 0;
        let zc = matches!(self.ops[i].kind, MKind::SendZc { .. } | MKind::SendVecZc { .. });
        let restart_due = if self.is_multishot(i) || !zc {
            self.ops[i].delivered.front().is_some_and(|x| is_fault(x.res, x.flags))
        } else {
            self.ops[i].final_consumed && self.ops[i].zc_first.is_some_and(|r| r == -libc::EINTR || r == -libc::ECANCELED)
        };
        if restart_due {
            self.classes.push("restart");
            match got {
                Got::Pending => {}
                Got::Err(raw, ref text) => {
                    self.fail("C09", "fault-visible", format!("{name} handed the interruption to the caller: {text} ({raw:?})"));
                    self.ops[i].done = true;
                    return;
                }
                ref other => {
                    self.fail("C09", "fault-visible", format!("{name} resolved with {other:?} after the kernel interrupted it (it must be re-issued)"));
                    self.ops[i].done = true;
                    return;
                }
            }
            if full {
                if published != 0 {
                    self.fail("C09", "resubmitted-into-full-queue", format!("{name} re-issued into a full queue"));
                }
                // Stays due: the next poll with room re-issues it.
                return;
            }
            if published != 1 {
                self.fail("C09", "not-restarted", format!("{name} was interrupted by the kernel and re-polled with room in the queue, but published {published} submissions (expected the re-issue)"));
                self.ops[i].done = true;
                return;
            }
            let sqe = sim::sim().the_ring().read_sqe_slot(tail);
            if Some(sqe) != self.ops[i].first_sqe {
                self.fail("C09", "resubmission-differs", format!("{name}: the re-issued submission {sqe:?} differs from the original {:?}", self.ops[i].first_sqe));
            }
            let op = &mut self.ops[i];
            op.serial = None;
            op.delivered.clear();
            op.in_cq.clear();
            op.final_posted = false;
            op.final_consumed = false;
            op.zc_first = None;
            op.zc_first_consumed = false;
            op.zc_saw_notif = false;
            op.restarts += 1;
            return;
        }
        if published != 0 {
            self.fail("C02", "resubmitted", format!("{name} published {published} more submissions on a re-poll"));
        }

        if self.is_multishot(i) {
            match self.ops[i].delivered.front().cloned() {
                Some(item) => {
                    let want_fd = item.res;
                    match got {
                        Got::Fd(fd) if item.res >= 0 => {
                            let num = crate::interp::ops::sim_fd_number(&fd);
                            if num != want_fd {
                                // Which posted result is it, if any?
                                let pos = self.ops[i].delivered.iter().position(|x| x.res == num);
                                let other = self.ops.iter().enumerate().find(|(k, o)| *k != i && (o.delivered.iter().any(|x| x.res == num) || o.in_cq.iter().any(|x| x.res == num))).map(|(k, _)| k);
                                match (pos, other) {
                                    (Some(p), _) => self.fail("C02", "out-of-order", format!("{name} yielded connection {num}, which is result #{} of its queue; the kernel posted {want_fd} first (queue: {:?})", p + 1, self.ops[i].delivered.iter().map(|x| x.res).collect::<Vec<_>>())),
                                    (None, Some(k)) => self.fail("C02", "foreign-result", format!("{name} yielded connection {num}, which the kernel posted for operation {k}")),
                                    (None, None) => self.fail("C02", "made-up-result", format!("{name} yielded connection {num}, which the kernel never posted for it (expected {want_fd})")),
                                }
                            }
                            self.accepted.push(fd);
                            self.ops[i].delivered.pop_front();
                            self.ops[i].yielded += 1;
                        }
                        Got::Unit if item.res >= 0 && self.ops[i].kind == MKind::Pollable => {
                            // Readiness results carry no value: only their
                            // number can be checked (none lost, none twice).
                            self.ops[i].delivered.pop_front();
                            self.ops[i].yielded += 1;
                        }
                        Got::Err(raw, _) if item.res < 0 => {
                            if raw != Some(-item.res) {
                                self.fail("C02", "wrong-value", format!("{name} yielded error {raw:?}, the kernel posted errno {}", -item.res));
                            }
                            self.ops[i].delivered.pop_front();
                            self.ops[i].yielded += 1;
                        }
                        Got::Pending => {
                            self.fail("C02", "lost-result", format!("{name} returned Pending although Ring::poll consumed {} results for it that were not yielded yet", self.ops[i].delivered.len()));
                        }
                        Got::End => {
                            self.fail("C02", "ended-early", format!("{name} ended with {} consumed results not yielded", self.ops[i].delivered.len()));
                            self.ops[i].done = true;
                        }
                        other => {
                            self.fail("C02", "wrong-value", format!("{name} yielded {other:?}, the kernel posted res {}", item.res));
                            self.ops[i].delivered.pop_front();
                        }
                    }
                }
                None => match got {
                    Got::Pending => {
                        if self.ops[i].final_consumed {
                            self.fail("C02", "no-end", format!("{name} returned Pending although its final completion was consumed and every result was yielded"));
                        }
                    }
                    Got::End => {
                        if !self.ops[i].final_consumed {
                            self.fail("C02", "ended-early", format!("{name} ended although the kernel has not posted (or a10 not consumed) a final completion"));
                        }
                        self.ops[i].done = true;
                        self.classes.push("multishot-ended");
                        self.drop_finished(i);
                    }
                    other => {
                        if let Got::Fd(fd) = other {
                            let num = crate::interp::ops::sim_fd_number(&fd);
                            self.accepted.push(fd);
                            self.fail("C02", "duplicate-or-made-up", format!("{name} yielded connection {num} although every consumed result had already been yielded (a result twice, or one the kernel never posted)"));
                        } else {
                            self.fail("C02", "duplicate-or-made-up", format!("{name} yielded {other:?} although every consumed result had already been yielded"));
                        }
                    }
                },
            }
        } else {
            // Single result (zero-copy: after the second completion).
            let zc = self.ops[i].kind.zero_copy();
            let first = if zc { self.ops[i].zc_first } else { self.ops[i].delivered.front().map(|x| x.res) };
            match got {
                Got::Pending => {
                    if self.ops[i].final_consumed {
                        self.fail("C02", "lost-result", format!("{name} returned Pending although its final completion was consumed"));
                    }
                }
                Got::Count(_) | Got::Err(..) | Got::Sig(_) if !self.ops[i].final_consumed => {
                    let detail = if zc && self.ops[i].zc_first_consumed { "only the first of its two completions was consumed (the notification is outstanding)" } else { "its completion was not consumed" };
                    self.fail("C02", "resolved-early", format!("{name} resolved with {got:?} although {detail}"));
                    self.ops[i].done = true;
                }
                Got::Sig(pid) if matches!(self.ops[i].kind, MKind::Signals { .. }) => {
                    if first.is_none_or(|f| f < 0) || pid != self.ops[i].sig_pid {
                        self.fail("C02", "wrong-value", format!("{name} yielded a signal from pid {pid}, the kernel's result was {first:?} with sender pid {}", self.ops[i].sig_pid));
                    }
                    // The iterator re-arms: the same state is reset and the
                    // next poll submits the next read.
                    let op = &mut self.ops[i];
                    op.started = false;
                    op.serial = None;
                    op.delivered.clear();
                    op.in_cq.clear();
                    op.final_posted = false;
                    op.final_consumed = false;
                    op.yielded += 1;
                    self.classes.push("signal-yielded");
                    if self.ops[i].yielded >= 2 {
                        self.classes.push("state-reused");
                    }
                }
                Got::Count(n) => {
                    if first != Some(n as i32) {
                        self.fail("C02", "wrong-value", format!("{name} resolved with {n}, the kernel's result was {first:?}"));
                    }
                    self.ops[i].done = true;
                    if zc {
                        self.classes.push("zc-resolved");
                    }
                    self.drop_finished(i);
                }
                Got::Err(raw, text) => {
                    if first.is_none_or(|f| f >= 0) || raw != first.map(|f| -f) {
                        self.fail("C02", "wrong-value", format!("{name} failed with {text} ({raw:?}), the kernel's result was {first:?}"));
                    }
                    self.ops[i].done = true;
                    self.drop_finished(i);
                }
                other => {
                    self.fail("C02", "wrong-value", format!("{name} resolved with {other:?}"));
                    self.ops[i].done = true;
                }
            }
        }
    }

    /// Drop a future that has returned its end: nothing may be published and
    /// the state must be gone.
    fn drop_finished(&mut self, i: usize) {
        let (_, tail, _) = self.ring_words();
        let fut = self.ops[i].fut.take();
        let r = {
            let _s = track::scope(track::TAG_A10);
            catch(|| drop(fut))
        };
        if let Err((msg, loc)) = r {
            self.fail(self.prop, "panic", format!("dropping finished operation {i} panicked at {loc}: {msg}"));
            return;
        }
        let (_, tail_after, _) = self.ring_words();
        let mut published = tail_after.wrapping_sub(tail);
        if matches!(self.ops[i].kind, MKind::Signals { .. }) {
            // The signal handle's descriptor is closed with it.
            let sig_fd = self.ops[i].sig_fd;
            let mut s = sim::sim();
            let ring = s.the_ring();
            let closes = (0..published.min(8)).filter(|k| {
                let q = ring.read_sqe_slot(tail.wrapping_add(*k));
                q.opcode == abi::OP_CLOSE && q.fd == sig_fd
            });
            published -= closes.count() as u32;
        }
        if published != 0 {
            self.fail("C06", "cancel-after-finish", format!("dropping finished operation {i} published {published} submissions"));
        }
        self.check_reclaimed(i, "after the operation finished and its future was dropped");
    }

    fn state_live(&self, i: usize) -> bool {
        let op = &self.ops[i];
        match op.state_serial {
            Some(serial) => track::lookup((op.user_data & !1) as usize).is_some_and(|b| b.serial == serial),
            None => false,
        }
    }

    fn buffers_live(&self, i: usize) -> Option<usize> {
        self.ops[i].buffers.iter().find(|(addr, serial)| !track::lookup(*addr).is_some_and(|b| b.serial == *serial)).map(|(a, _)| *a)
    }

    fn check_reclaimed(&mut self, i: usize, when: &str) {
        if self.ops[i].state_serial.is_some() && self.state_live(i) {
            self.fail("C06", "state-leaked", format!("operation {i} ({:?}): state block {:#x} still allocated {when}", self.ops[i].kind, self.ops[i].user_data & !1));
        }
        let leaked: Vec<usize> = self.ops[i].buffers.iter().filter(|(addr, serial)| track::lookup(*addr).is_some_and(|b| b.serial == *serial)).map(|(a, _)| *a).collect();
        if !leaked.is_empty() {
            self.fail("C06", "resources-leaked", format!("operation {i} ({:?}): buffers {leaked:x?} still allocated {when}", self.ops[i].kind));
        }
    }

    fn check_live(&mut self, i: usize, when: &str) {
        if self.ops[i].state_serial.is_some() && !self.state_live(i) {
            let p = if self.on("C06") { "C06" } else { "C01" };
            self.fail(p, "state-freed-early", format!("operation {i} ({:?}): state block {:#x} was freed {when}", self.ops[i].kind, self.ops[i].user_data & !1));
        }
        if let Some(addr) = self.buffers_live(i) {
            let p = if self.on("C06") { "C06" } else { "C01" };
            self.fail(p, "buffer-freed-early", format!("operation {i} ({:?}): buffer {addr:#x} was freed {when}", self.ops[i].kind));
        }
    }

    fn drop_op(&mut self, raw: u16, cancel: CancelChoice) {
        let c: Vec<usize> = (0..self.ops.len()).filter(|i| self.ops[*i].fut.is_some()).collect();
        if c.is_empty() {
            self.ctx.skipped_steps += 1;
            return;
        }
        let i = c[pick_index(raw, c.len())];
        if self.ring_gone {
            self.drop_after_ring(i);
        } else {
            self.drop_one(i, cancel);
        }
    }

    fn drop_one(&mut self, i: usize, cancel: CancelChoice) {
        self.sync();
        let (head, tail, entries) = self.ring_words();
        let full = tail.wrapping_sub(head) >= entries;
        let running = self.ops[i].started && !self.ops[i].final_consumed;
        if running {
            self.cancel_script.lock().unwrap().insert(self.ops[i].user_data, cancel);
        }
        let fut = self.ops[i].fut.take();
        let into_inner = matches!(self.ops[i].kind, MKind::Signals { into_inner: true });
        let r = {
            let _s = track::scope(track::TAG_A10);
            catch(|| match fut {
                Some(Fut::Signals(f)) if into_inner => {
                    // SAFETY: the iterator is not used again.
                    let it = *unsafe { Pin::into_inner_unchecked(f) };
                    let signals = it.into_inner();
                    drop(signals);
                }
                other => drop(other),
            })
        };
        if into_inner {
            self.classes.push("into-inner");
        }
        self.ops[i].done = true;
        if let Err((msg, loc)) = r {
            self.fail(self.prop, "panic", format!("dropping operation {i} panicked at {loc}: {msg}"));
            return;
        }
        let (_, tail_after, _) = self.ring_words();
        let published = tail_after.wrapping_sub(tail);
        let mut new_sqes = Vec::new();
        {
            let mut s = sim::sim();
            let ring = s.the_ring();
            for k in 0..published.min(8) {
                new_sqes.push(ring.read_sqe_slot(tail.wrapping_add(k)));
            }
        }
        // The signal handle goes with its iterator: the close of its
        // descriptor is not part of the cancellation protocol.
        let sig_fd = self.ops[i].sig_fd;
        if matches!(self.ops[i].kind, MKind::Signals { .. }) {
            new_sqes.retain(|q| !(q.opcode == abi::OP_CLOSE && q.fd == sig_fd));
        }
        let ud = self.ops[i].user_data;
        let point = if !self.ops[i].started {
            "not-started"
        } else if self.ops[i].final_consumed {
            "final-consumed"
        } else if self.ops[i].zc_first_consumed {
            "between-the-two-completions"
        } else if self.ops[i].posted_count > 0 {
            "after-some-results"
        } else {
            "in-flight"
        };
        if running && !full {
            let mut want = Sqe::zeroed();
            want.opcode = abi::OP_ASYNC_CANCEL;
            want.addr = ud;
            want.user_data = 2;
            want.flags = abi::IOSQE_CQE_SKIP_SUCCESS;
            if !(new_sqes.len() == 1 && new_sqes[0] == want) {
                self.fail("C06", "cancel-missing-or-wrong", format!("dropping running operation {i} ({:?}, user_data {ud:#x}, {point}) with room in the queue published {new_sqes:?}; expected exactly one ASYNC_CANCEL targeting it", self.ops[i].kind));
            }
        } else if !new_sqes.is_empty() {
            let why = if running { "the queue was full" } else { "the operation was not running" };
            self.fail("C06", "unexpected-cancel", format!("dropping operation {i} ({point}) published {new_sqes:?} although {why}"));
        }
        if running {
            self.ops[i].dropped_running = true;
            self.classes.push("dropped-while-running");
            match point {
                "between-the-two-completions" => self.classes.push("dropped-between-two-completions"),
                "after-some-results" => self.classes.push("dropped-after-some-results"),
                _ => {}
            }
            if full {
                self.classes.push("drop-with-full-queue");
            }
            self.check_live(i, &format!("when its future was dropped while the operation was still running ({point})"));
        } else {
            self.check_reclaimed(i, &format!("after dropping a future whose operation was not running ({point})"));
        }
    }

    fn post(&mut self, raw: u16, ok: bool, last: bool, frac: u16) {
        self.sync();
        let c: Vec<usize> = (0..self.ops.len()).filter(|i| self.ops[*i].serial.is_some() && !self.ops[*i].final_posted).collect();
        if c.is_empty() {
            self.ctx.skipped_steps += 1;
            return;
        }
        let i = c[pick_index(raw, c.len())];
        let serial = self.ops[i].serial.unwrap();
        let mut s = sim::sim();
        let Some(req) = s.the_ring().req(serial).cloned() else { return };
        if req.done {
            return;
        }
        let errno = ERRS[(frac as usize + i) % ERRS.len()];
        match self.ops[i].kind {
            MKind::Accept => {
                if ok {
                    let fd = s.issue_fd();
                    s.the_ring().complete(serial, fd, 0, !last);
                } else {
                    s.the_ring().complete(serial, -errno, 0, false);
                }
                if self.ops[i].fut.is_none() {
                    self.classes.push("completed-after-drop");
                }
            }
            MKind::Write { len } => {
                let n = ((frac as usize) * (len as usize + 1)) >> 16;
                let res = if ok { n as i32 } else { -errno };
                s.the_ring().complete(serial, res, 0, false);
            }
            MKind::Signals { .. } => {
                if ok {
                    let pid = 300_000 + (frac as u32) * 8 + self.ops[i].posted_count as u32 % 8;
                    let mut info: libc::signalfd_siginfo = unsafe { std::mem::zeroed() };
                    info.ssi_signo = libc::SIGUSR2 as u32;
                    info.ssi_pid = pid;
                    let raw = unsafe { std::slice::from_raw_parts((&raw const info).cast::<u8>(), size_of::<libc::signalfd_siginfo>()) };
                    let wrote = req.regions.iter().find(|r| r.what == "buffer").is_some_and(|r| r.len >= raw.len() && sim::regions::write_region(r, 0, raw));
                    if !wrote {
                        drop(s);
                        self.fail("C01", "region-not-owned", format!("operation {i}: the signalfd read designates no valid {}-byte destination", raw.len()));
                        return;
                    }
                    s.the_ring().complete(serial, raw.len() as i32, 0, false);
                    drop(s);
                    self.ops[i].sig_pid = pid;
                } else {
                    s.the_ring().complete(serial, -errno, 0, false);
                }
                if self.ops[i].fut.is_none() {
                    self.classes.push("completed-after-drop");
                }
            }
            MKind::Pollable => {
                // Every readiness result is the same poll mask.
                if ok {
                    s.the_ring().complete(serial, libc::EPOLLIN, 0, !last);
                } else {
                    s.the_ring().complete(serial, -errno, 0, false);
                }
                if self.ops[i].fut.is_none() {
                    self.classes.push("completed-after-drop");
                }
                if self.ops[i].in_cq.back().is_some_and(|x| x.res == libc::EPOLLIN) || self.ops[i].delivered.back().is_some_and(|x| x.res == libc::EPOLLIN) {
                    self.classes.push("identical-adjacent-results");
                }
            }
            MKind::SendZc { .. } | MKind::SendVecZc { .. } => {
                if req.zc_notif_pending {
                    s.the_ring().complete(serial, 0, abi::CQE_F_NOTIF, false);
                    if self.ops[i].fut.is_none() {
                        self.classes.push("completed-after-drop");
                    }
                } else if !ok && last {
                    // Early failure: one completion, no notification.
                    s.the_ring().complete(serial, -errno, 0, false);
                    drop(s);
                    self.ops[i].zc_first = Some(-errno);
                } else {
                    let n = ((frac as usize) * (self.ops[i].total_len + 1)) >> 16;
                    let res = if ok { n as i32 } else { -errno };
                    s.the_ring().complete(serial, res, 0, true);
                    if let Some(r) = s.the_ring().req_mut(serial) {
                        r.zc_notif_pending = true;
                    }
                    drop(s);
                    self.ops[i].zc_first = Some(res);
                }
            }
        }
    }

    fn fault(&mut self, raw: u16, eintr: bool, notif: bool) {
        self.sync();
        // Only operations whose future is alive (a dropped one is being
        // cancelled anyway) and which have not posted anything final yet; a
        // zero-copy send only before its result completion.
        let c: Vec<usize> = (0..self.ops.len()).filter(|i| self.ops[*i].serial.is_some() && !self.ops[*i].final_posted && self.ops[*i].fut.is_some() && self.ops[*i].zc_first.is_none()).collect();
        if c.is_empty() {
            self.ctx.skipped_steps += 1;
            return;
        }
        let i = c[pick_index(raw, c.len())];
        let serial = self.ops[i].serial.unwrap();
        let e = if eintr { libc::EINTR } else { libc::ECANCELED };
        let mut s = sim::sim();
        if s.the_ring().req(serial).is_some_and(|r| !r.done) {
            let zc = self.ops[i].kind.zero_copy();
            if zc && notif {
                // Result with F_MORE; the notification is posted by a later
                // Post step.
                s.the_ring().complete(serial, -e, 0, true);
                if let Some(r) = s.the_ring().req_mut(serial) {
                    r.zc_notif_pending = true;
                }
                self.classes.push("kernel-interruption-with-notification");
            } else {
                s.the_ring().complete(serial, -e, 0, false);
            }
            drop(s);
            if zc {
                self.ops[i].zc_first = Some(-e);
            }
            self.classes.push("kernel-interruption");
        }
    }

    fn ring_poll(&mut self) {
        if self.ring_gone {
            self.ctx.skipped_steps += 1;
            return;
        }
        self.sync();
        // A completion is waiting in the queue for an operation whose state
        // block is already gone: a10 would now follow a dangling pointer.
        // Reported before it does (what follows would be heap corruption,
        // whose symptoms depend on the allocator).
        for i in 0..self.ops.len() {
            if self.ops[i].started && self.ops[i].state_serial.is_some() && !self.ops[i].in_cq.is_empty() && !self.state_live(i) {
                let p = if self.on("C06") { "C06" } else { "C01" };
                self.fail(p, "completion-for-freed-state", format!("operation {i} ({:?}): {} completions of its request are still in the completion queue but its state block {:#x} has already been freed", self.ops[i].kind, self.ops[i].in_cq.len(), self.ops[i].user_data & !1));
                if self.on(p) {
                    self.stop = true;
                    return;
                }
            }
        }
        let before: Vec<(bool, u64)> = self.ops.iter().map(|o| (o.final_consumed, o.waker.wakes())).collect();
        let delivered_before: Vec<usize> = self.ops.iter().map(|o| o.delivered.len()).collect();
        let r = catch(|| self.world.poll_ring(Some(Duration::ZERO)));
        match r {
            Err((msg, loc)) => {
                self.fail(self.prop, "panic", format!("Ring::poll panicked at {loc}: {msg}"));
                return;
            }
            Ok(Err(e)) => {
                self.fail("C02", "poll-error", format!("Ring::poll failed: {e}"));
                return;
            }
            Ok(Ok(())) => {}
        }
        self.sync();
        // C03: an operation whose last poll returned Pending must have had the
        // waker of that poll invoked when this Ring::poll consumed the first
        // completion that makes it ready (multishot: any completion;
        // otherwise the final one, for a zero-copy send the notification).
        for i in 0..self.ops.len() {
            let op = &self.ops[i];
            if op.fut.is_none() || !op.last_poll_pending || !op.started {
                continue;
            }
            let ready_now = if op.kind.multishot() { op.delivered.len() > delivered_before[i] || (op.final_consumed && !before[i].0) } else { op.final_consumed && !before[i].0 };
            if ready_now {
                self.classes.push("completion-while-pending");
                if op.waker.wakes() <= op.wakes_at_poll {
                    let kind = op.kind.clone();
                    self.fail("C03", "completion-not-woken", format!("Ring::poll consumed the completion that makes operation {i} ({kind:?}) ready, but the waker given to its most recent poll was not invoked"));
                }
            }
        }
        for i in 0..self.ops.len() {
            let newly = self.ops[i].delivered.len() - delivered_before[i].min(self.ops[i].delivered.len());
            if newly >= 3 {
                self.classes.push(">=3-results-in-one-poll");
            }
            if self.ops[i].delivered.len() >= 3 && self.ops[i].fut.is_some() {
                self.classes.push(">=3-results-queued");
            }
            // Reclamation of dropped operations.
            if self.ops[i].dropped_running {
                if self.ops[i].final_consumed {
                    if !before[i].0 {
                        self.check_reclaimed(i, "after the Ring::poll that consumed the final completion of the dropped operation");
                        self.classes.push("reclaimed-after-final");
                    }
                } else {
                    self.check_live(i, "although the final completion of the dropped operation has not been consumed yet");
                }
            } else if self.ops[i].fut.is_some() && self.ops[i].started && !self.ops[i].final_consumed {
                self.check_live(i, "while the operation is still running");
            }
        }
    }
}

/// Run one multi-completion case; returns the classes observed.
pub fn run(case: &MultiCase, ctx: &mut Ctx, prop: &'static str) -> Vec<&'static str> {
    let mut cfg = RingCfg::simple(case.sq_log2.clamp(1, 3));
    cfg.cq_log2 = Some(7);
    let mut world = match World::new(&cfg) {
        Ok(w) => w,
        Err(e) => {
            ctx.infra(e);
            return Vec::new();
        }
    };
    let fd = world.new_fd();
    // The ring Pollable operations watch (built second: `the_ring()` stays
    // the main one).
    let other = if case.ops.iter().take(4).any(|k| *k == MKind::Pollable) {
        let r = {
            let _s = track::scope(track::TAG_A10);
            a10::Ring::config().with_submission_queue_size(2).build()
        };
        match r {
            Ok(r) => {
                let ofd = sim::sim().rings.iter().filter(|r| !r.closed).map(|r| r.fd).find(|f| *f != world.ring_fd);
                match ofd {
                    Some(ofd) => Some((r, ofd)),
                    None => {
                        ctx.infra("second ring not found in the simulator");
                        return Vec::new();
                    }
                }
            }
            Err(e) => {
                ctx.infra(format!("building the second ring failed: {e}"));
                return Vec::new();
            }
        }
    } else {
        None
    };
    let cancel_script: Arc<Mutex<BTreeMap<u64, CancelChoice>>> = Arc::new(Mutex::new(BTreeMap::new()));
    {
        let script = cancel_script.clone();
        let hook: sim::CancelHook = Box::new(move |_ring, req, target| {
            let choice = script.lock().unwrap().get(&req.sqe.addr).copied();
            match (choice, target) {
                (_, None) => CancelOutcome::NotFound,
                (Some(CancelChoice::Wins), Some(_)) | (None, Some(_)) => CancelOutcome::Wins,
                (Some(CancelChoice::Already), Some(_)) => CancelOutcome::Already,
                (Some(CancelChoice::NotFound), Some(_)) => CancelOutcome::NotFound,
            }
        });
        sim::sim().cancel_hook = Some(hook);
    }
    let ops = case
        .ops
        .iter()
        .take(4)
        .map(|k| Op {
            kind: k.clone(),
            fut: None,
            waker: WakerHandle::new(),
            wakes_at_poll: 0,
            last_poll_pending: false,
            started: false,
            user_data: 0,
            serial: None,
            in_cq: VecDeque::new(),
            delivered: VecDeque::new(),
            final_posted: false,
            final_consumed: false,
            zc_first: None,
            zc_first_consumed: false,
            zc_saw_notif: false,
            done: false,
            dropped_running: false,
            state_serial: None,
            buffers: Vec::new(),
            total_len: 0,
            yielded: 0,
            posted_count: 0,
            first_sqe: None,
            restarts: 0,
            sig_pid: 0,
            sig_fd: -1,
        })
        .collect();
    let mut exec = Exec { world, fd, ops, ctx, prop, events_seen: sim::events_len(), consumed_seqs: BTreeSet::new(), classes: Vec::new(), stop: false, accepted: Vec::new(), cancel_script, ring_gone: false, other };
    for i in 0..exec.ops.len() {
        exec.build(i);
    }
    for s in &case.multi_steps {
        if exec.stop {
            break;
        }
        match s {
            MStep::Poll { op, fresh_waker } => exec.poll(*op, *fresh_waker),
            MStep::Post { op, ok, last, frac } => exec.post(*op, *ok, *last, *frac),
            MStep::RingPoll => exec.ring_poll(),
            MStep::Drop { op, cancel } => exec.drop_op(*op, *cancel),
            MStep::DropRing => exec.drop_ring(),
            MStep::Fault { op, eintr, notif } => exec.fault(*op, *eintr, *notif),
        }
    }

    // Wind down: drop every future, let the kernel finish everything, poll
    // until a10 has seen it: nothing may be left.
    if !exec.stop && exec.ring_gone {
        for i in 0..exec.ops.len() {
            if exec.ops[i].fut.is_some() && !exec.stop {
                exec.drop_after_ring(i);
            }
        }
        // The kernel posts what it still owes; only now may memory go.
        for i in 0..exec.ops.len() {
            if let Some(serial) = exec.ops[i].serial {
                let mut s = sim::sim();
                if let Some(ring) = s.ring(exec.world.ring_fd) {
                    if ring.req(serial).is_some_and(|r| !r.done) {
                        let notif = ring.req(serial).is_some_and(|r| r.zc_notif_pending);
                        if notif {
                            ring.complete(serial, 0, abi::CQE_F_NOTIF, false);
                        } else {
                            ring.complete(serial, -libc::ECANCELED, 0, false);
                        }
                    }
                }
            }
        }
        exec.sync();
    }
    if !exec.stop && !exec.ring_gone {
        for i in 0..exec.ops.len() {
            if exec.ops[i].fut.is_some() {
                exec.drop_one(i, CancelChoice::Wins);
            }
        }
        for round in 0..6 {
            if exec.stop {
                break;
            }
            exec.ring_poll();
            // Whatever is still in flight finishes now.
            for i in 0..exec.ops.len() {
                if let Some(serial) = exec.ops[i].serial {
                    if !exec.ops[i].final_posted {
                        let mut s = sim::sim();
                        let pending_notif = s.the_ring().req(serial).is_some_and(|r| r.zc_notif_pending && !r.done);
                        let alive = s.the_ring().req(serial).is_some_and(|r| !r.done);
                        if alive {
                            if pending_notif {
                                s.the_ring().complete(serial, 0, abi::CQE_F_NOTIF, false);
                            } else {
                                s.the_ring().complete(serial, -libc::ECANCELED, 0, false);
                            }
                        }
                    }
                }
            }
            let _ = round;
        }
        exec.sync();
        for i in 0..exec.ops.len() {
            if exec.stop {
                break;
            }
            if exec.ops[i].started && exec.ops[i].final_consumed {
                exec.check_reclaimed(i, "at the end of the history (every future dropped, every final completion consumed)");
            } else if exec.ops[i].started && exec.ops[i].serial.is_some() {
                exec.fail("C06", "final-not-consumed", format!("operation {i}: the final completion was posted but repeated Ring::poll calls did not consume it"));
            }
        }
    }
    sim::sim().cancel_hook = None;
    let mut classes = std::mem::take(&mut exec.classes);
    let Exec { world, ops, accepted, other, .. } = exec;
    {
        let _s = track::scope(track::TAG_A10);
        drop(ops);
        drop(accepted);
    }
    let mut world = world;
    if world.ring.is_some() {
        for _ in 0..3 {
            let _ = catch(|| world.poll_ring(Some(Duration::ZERO)));
        }
    }
    {
        let _s = track::scope(track::TAG_A10);
        drop(world);
        drop(other);
    }
    sim::take_violations();
    track::take_events();
    classes.sort();
    classes.dedup();
    classes
}
