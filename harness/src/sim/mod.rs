//! E1: simulated kernel. See DESIGN.md section 3 for the fidelity rules
//! (K1..K12) this code is restricted to.

use std::collections::{BTreeMap, VecDeque};
use std::ffi::c_int;
use std::sync::atomic::{AtomicU32, Ordering};
use std::sync::{Mutex, MutexGuard};

use crate::abi::{self, Cqe, Params, Sqe};
use crate::shims;
use crate::track;

pub mod regions;

pub use regions::Region;

/// Offsets of the fields inside the rings region (layout of a 6.18 kernel).
#[derive(Copy, Clone, Debug)]
pub struct Layout {
    pub sq_head: u32,
    pub sq_tail: u32,
    pub cq_head: u32,
    pub cq_tail: u32,
    pub sq_mask: u32,
    pub cq_mask: u32,
    pub sq_entries: u32,
    pub cq_entries: u32,
    pub sq_dropped: u32,
    pub sq_flags: u32,
    pub cq_flags: u32,
    pub cq_overflow: u32,
    pub cqes: u32,
}

impl Layout {
    pub const KERNEL_6_18: Layout = Layout {
        sq_head: 0,
        sq_tail: 4,
        cq_head: 8,
        cq_tail: 12,
        sq_mask: 16,
        cq_mask: 20,
        sq_entries: 24,
        cq_entries: 28,
        sq_dropped: 32,
        sq_flags: 36,
        cq_flags: 40,
        cq_overflow: 44,
        cqes: 64,
    };
    /// A different, equally legal layout (the kernel only promises the
    /// offsets it reports in `io_uring_params`).
    pub const ALTERNATE: Layout = Layout {
        sq_head: 64,
        sq_tail: 128,
        cq_head: 192,
        cq_tail: 256,
        sq_mask: 260,
        cq_mask: 264,
        sq_entries: 268,
        cq_entries: 272,
        sq_dropped: 276,
        sq_flags: 280,
        cq_flags: 284,
        cq_overflow: 288,
        cqes: 320,
    };
}

/// Parameters for rings created by the next `io_uring_setup` calls.
#[derive(Clone, Debug)]
pub struct SimCfg {
    pub sq_start: u32,
    pub cq_start: u32,
    /// Feature bits removed from the reported feature word.
    pub features_remove: u32,
    /// Make `io_uring_setup` fail with this errno.
    pub setup_errno: Option<i32>,
    /// Make the n-th `io_uring_register` with this opcode fail: (opcode, errno).
    pub register_fail: Option<(u32, i32)>,
    pub layout: Layout,
}

impl Default for SimCfg {
    fn default() -> SimCfg {
        SimCfg {
            sq_start: 0,
            cq_start: 0,
            features_remove: 0,
            setup_errno: None,
            register_fail: None,
            layout: Layout::KERNEL_6_18,
        }
    }
}

#[derive(Clone, Debug)]
pub struct Req {
    pub serial: u64,
    pub sqe: Sqe,
    /// Regions of user memory this request designates.
    pub regions: Vec<Region>,
    /// Number of CQEs generated (posted to the ring or the overflow list, or
    /// suppressed by CQE_SKIP_SUCCESS) so far.
    pub cqes: u32,
    /// The final completion was generated.
    pub done: bool,
    /// For zero copy sends: the first (result) CQE was generated, waiting for
    /// the notification.
    pub zc_notif_pending: bool,
}

#[derive(Clone, Debug)]
pub struct PostedCqe {
    pub seq: u64,
    pub cqe: Cqe,
    /// Serial of the request it belongs to, 0 for bookkeeping/raw CQEs.
    pub req: u64,
    /// Ring position (free running counter value) once it is in the ring.
    pub position: Option<u32>,
}

#[derive(Clone, Debug)]
pub enum SimEvent {
    Setup { fd: i32, params_in: Params, sq_entries: u32, cq_entries: u32 },
    Enter { fd: i32, to_submit: u32, min_complete: u32, flags: u32, timeout_ns: Option<u64>, ret: i32, errno: i32, consumed: u32, pending: u32 },
    Consumed { serial: u64, sqe: Sqe, position: u32 },
    Register { fd: i32, opcode: u32, nr_args: u32, ret: i32, errno: i32 },
    Posted { seq: u64, req: u64, cqe: Cqe, overflowed: bool },
    Skipped { req: u64 },
    Close { via: CloseVia, fd: i32, direct: bool },
    RingClosed { fd: i32 },
}

#[derive(Copy, Clone, Debug, PartialEq, Eq)]
pub enum CloseVia {
    Sqe,
    FilesUpdate,
}

#[derive(Copy, Clone, Debug, PartialEq, Eq)]
pub enum CancelOutcome {
    /// The target completes with -ECANCELED, the cancel request succeeds.
    Wins,
    /// The target is already completing; cancel gets -EALREADY.
    Already,
    /// As if the target was already gone: -ENOENT (the target still completes
    /// later through the normal path).
    NotFound,
}

#[derive(Copy, Clone, Debug, PartialEq, Eq)]
pub enum WaitOutcome {
    /// Something was posted, re-evaluate.
    Progress,
    /// The wait timed out.
    Timeout,
    /// Interrupted by a signal.
    Interrupted,
    /// Nothing can ever satisfy this wait.
    Stuck,
}

pub struct PbufRing {
    pub addr: usize,
    pub entries: u32,
    pub bgid: u16,
    /// Kernel's private head.
    pub head: u16,
}

pub struct EnterInfo {
    pub fd: i32,
    pub to_submit: u32,
    pub min_complete: u32,
    pub flags: u32,
    pub timeout_ns: Option<u64>,
    pub consumed: Vec<u64>,
    /// Published-but-unconsumed SQEs when the call was made.
    pub pending: u32,
}

pub type EnterHook = Box<dyn FnMut(&mut SimRing, &EnterInfo) + Send>;
pub type WaitHook = Box<dyn FnMut(&mut SimRing, &EnterInfo) -> WaitOutcome + Send>;
pub type CancelHook = Box<dyn FnMut(&SimRing, &Req, Option<&Req>) -> CancelOutcome + Send>;

pub struct SimRing {
    pub fd: i32,
    pub flags: u32,
    pub sq_entries: u32,
    pub cq_entries: u32,
    pub layout: Layout,
    /// Offset of the submission index array (rings set up without
    /// IORING_SETUP_NO_SQARRAY).
    pub sq_array_off: Option<u32>,
    pub params_in: Params,
    mem: *mut u8,
    mem_len: usize,
    sqes: *mut Sqe,
    sqes_len: usize,
    /// Kernel private SQ head.
    pub k_sq_head: u32,
    pub inflight: Vec<Req>,
    pub overflow: VecDeque<PostedCqe>,
    pub pbufs: Vec<PbufRing>,
    /// Direct descriptor table: Some(backing real fd or -1) per slot.
    pub files: Vec<Option<i32>>,
    pub files_registered: bool,
    pub enabled: bool,
    pub closed: bool,
    pub sqpoll_idle: bool,
    /// The kernel thread is prompt: it consumes whatever is published
    /// whenever the application enters the kernel (unless it is idle and not
    /// woken). Otherwise only the driver's explicit kernel-thread steps consume.
    pub sqpoll_auto: bool,
    /// K14: the task a SINGLE_ISSUER ring is bound to (thread id).
    pub submitter_tid: Option<i32>,
    /// K15: submissions (by user_data) the kernel refuses at submission
    /// time, with the errno it reports.
    pub prep_refuse: Vec<(u64, i32)>,
    pub posted: Vec<PostedCqe>,
    pub next_seq: u64,
    /// Requests cancelled by SYNC_CANCEL.
    pub sync_cancels: u32,
    /// K13 (IORING_SETUP_DEFER_TASKRUN): completions produced by task work
    /// that has not run yet; they become visible when the submitter enters
    /// the kernel with IORING_ENTER_GETEVENTS.
    pub deferred: VecDeque<PostedCqe>,
    /// The simulator is executing the submission path of io_uring_enter:
    /// completions generated now are posted directly (inline completion).
    pub inline: bool,
}

unsafe impl Send for SimRing {}

pub struct Sim {
    pub rings: Vec<SimRing>,
    pub cfg: SimCfg,
    pub enter_hook: Option<EnterHook>,
    pub wait_hook: Option<WaitHook>,
    pub cancel_hook: Option<CancelHook>,
    /// Descriptors issued by the simulator: fd -> still open.
    pub issued_fds: BTreeMap<i32, bool>,
    /// The worker's own descriptor 0, parked while a case uses the number
    /// for a descriptor it hands to a10 (see `issue_fd_low`).
    pub saved_stdin: Option<i32>,
    next_fd: i32,
    scratch_fd: i32,
    register_count: BTreeMap<u32, u32>,
    pub would_block_forever: u32,
}

static SIM: Mutex<Option<Sim>> = Mutex::new(None);
static EVENTS: Mutex<Vec<SimEvent>> = Mutex::new(Vec::new());
static VIOLATIONS: Mutex<Vec<(String, String)>> = Mutex::new(Vec::new());
static NEXT_SERIAL: std::sync::atomic::AtomicU64 = std::sync::atomic::AtomicU64::new(1);
static PENDING_CLOSES: Mutex<Vec<i32>> = Mutex::new(Vec::new());

/// Append to the global (totally ordered) simulator event log.
pub fn ev(e: SimEvent) {
    EVENTS.lock().unwrap_or_else(|e| e.into_inner()).push(e);
}

pub fn take_events() -> Vec<SimEvent> {
    std::mem::take(&mut *EVENTS.lock().unwrap_or_else(|e| e.into_inner()))
}

pub fn events_len() -> usize {
    EVENTS.lock().unwrap_or_else(|e| e.into_inner()).len()
}

pub fn events_since(n: usize) -> Vec<SimEvent> {
    EVENTS.lock().unwrap_or_else(|e| e.into_inner())[n..].to_vec()
}

/// Record a violation detected by the simulator itself.
pub fn violation(sig: &str, msg: String) {
    VIOLATIONS.lock().unwrap_or_else(|e| e.into_inner()).push((sig.to_string(), msg));
}

pub fn take_violations() -> Vec<(String, String)> {
    std::mem::take(&mut *VIOLATIONS.lock().unwrap_or_else(|e| e.into_inner()))
}

static UNSUPPORTED: Mutex<Option<String>> = Mutex::new(None);

/// The tested code asked for something the simulator doesn't model: the case
/// is aborted with exit 2 (never a violation).
pub fn set_unsupported(msg: String) {
    let mut u = UNSUPPORTED.lock().unwrap_or_else(|e| e.into_inner());
    if u.is_none() {
        *u = Some(msg);
    }
}

/// The next `io_uring_enter` that consumed nothing fails with this errno
/// instead of waiting (0: no injection). Set from inside an enter hook.
static FAIL_ENTER: std::sync::atomic::AtomicI32 = std::sync::atomic::AtomicI32::new(0);

pub fn fail_next_enter(errno: i32) {
    FAIL_ENTER.store(errno, Ordering::SeqCst);
}

pub(crate) fn take_fail_enter() -> i32 {
    FAIL_ENTER.swap(0, Ordering::SeqCst)
}

pub fn take_unsupported() -> Option<String> {
    UNSUPPORTED.lock().unwrap_or_else(|e| e.into_inner()).take()
}

fn next_serial() -> u64 {
    NEXT_SERIAL.fetch_add(1, Ordering::Relaxed)
}

/// Called by the `close` shim for every successful close.
pub fn on_close(fd: i32) {
    match SIM.try_lock() {
        Ok(mut guard) => {
            if let Some(sim) = guard.as_mut() {
                sim.handle_close(fd);
            }
        }
        Err(_) => PENDING_CLOSES.lock().unwrap_or_else(|e| e.into_inner()).push(fd),
    }
}

/// Function called (without the simulator lock held) when an `enter` has to
/// block in scheduled (multi-thread) mode.
pub type BlockFn = fn(fd: i32) -> WaitOutcome;
static BLOCK_FN: Mutex<Option<BlockFn>> = Mutex::new(None);

static SQPOLL_WAKE_TOKEN: Mutex<Option<u64>> = Mutex::new(None);

/// Scheduler token to notify when an enter wakes the SQPOLL kernel thread.
pub fn set_sqpoll_wake_token(t: Option<u64>) {
    *SQPOLL_WAKE_TOKEN.lock().unwrap_or_else(|e| e.into_inner()) = t;
}

/// The Ring of a case is built on the main thread and handed to the thread
/// that uses it before its first use: bind a SINGLE_ISSUER ring to the calling
/// thread (equivalent to building it there).
pub fn bind_submitter_here(fd: i32) {
    let mut s = sim();
    if let Some(r) = s.ring(fd) {
        if r.submitter_tid.is_some() {
            r.submitter_tid = Some(unsafe { libc::gettid() });
        }
    }
}

pub fn sqpoll_wake_token() -> Option<u64> {
    *SQPOLL_WAKE_TOKEN.lock().unwrap_or_else(|e| e.into_inner())
}

pub fn set_block_fn(f: Option<BlockFn>) {
    *BLOCK_FN.lock().unwrap_or_else(|e| e.into_inner()) = f;
}

pub struct SimGuard(MutexGuard<'static, Option<Sim>>);

impl std::ops::Deref for SimGuard {
    type Target = Sim;
    fn deref(&self) -> &Sim {
        self.0.as_ref().unwrap()
    }
}
impl std::ops::DerefMut for SimGuard {
    fn deref_mut(&mut self) -> &mut Sim {
        self.0.as_mut().unwrap()
    }
}

/// Lock the simulator (creating it on first use).
pub fn sim() -> SimGuard {
    let mut guard = SIM.lock().unwrap_or_else(|e| e.into_inner());
    if guard.is_none() {
        let scratch_fd = unsafe { libc::memfd_create(c"a10verif-scratch".as_ptr(), libc::MFD_CLOEXEC) };
        assert!(scratch_fd >= 0, "memfd_create failed");
        *guard = Some(Sim {
            rings: Vec::new(),
            cfg: SimCfg::default(),
            enter_hook: None,
            wait_hook: None,
            cancel_hook: None,
            issued_fds: BTreeMap::new(),
            saved_stdin: None,
            next_fd: first_issued_fd(),
            scratch_fd,
            register_count: BTreeMap::new(),
            would_block_forever: 0,
        });
    }
    let pending = std::mem::take(&mut *PENDING_CLOSES.lock().unwrap_or_else(|e| e.into_inner()));
    for fd in pending {
        guard.as_mut().unwrap().handle_close(fd);
    }
    SimGuard(guard)
}

/// First descriptor number handed out by the simulator (numbers are never
/// reused within a case). Chosen from the descriptor limit at install time.
pub static FIRST_ISSUED_FD_DYN: std::sync::atomic::AtomicI32 = std::sync::atomic::AtomicI32::new(3000);

pub fn first_issued_fd() -> i32 {
    FIRST_ISSUED_FD_DYN.load(Ordering::Relaxed)
}

static TABLE: a10::verif::SyscallTable = a10::verif::SyscallTable {
    setup: sys_setup,
    enter: sys_enter,
    register: sys_register,
};

/// Install the simulator under a10.
pub fn install() {
    // Make sure descriptor numbers up to FIRST_ISSUED_FD + n can be used.
    unsafe {
        let mut lim: libc::rlimit = std::mem::zeroed();
        if libc::getrlimit(libc::RLIMIT_NOFILE, &mut lim) == 0 {
            let want = 1 << 20;
            let new = if lim.rlim_max == libc::RLIM_INFINITY { want } else { lim.rlim_max.min(want) };
            if lim.rlim_cur < new {
                lim.rlim_cur = new;
                libc::setrlimit(libc::RLIMIT_NOFILE, &lim);
            }
            if libc::getrlimit(libc::RLIMIT_NOFILE, &mut lim) == 0 && lim.rlim_cur < 8192 {
                FIRST_ISSUED_FD_DYN.store((lim.rlim_cur / 2) as i32, Ordering::Relaxed);
            }
        }
    }
    drop(sim());
    a10::verif::install_syscalls(Some(&TABLE));
}

pub fn uninstall() {
    a10::verif::install_syscalls(None);
}

fn set_errno(e: i32) {
    unsafe { *libc::__errno_location() = e };
}

fn fail(e: i32) -> Option<c_int> {
    set_errno(e);
    Some(-1)
}

fn round_up_pow2(n: u32) -> u32 {
    n.checked_next_power_of_two().unwrap_or(1 << 31)
}

const MAX_ENTRIES: u32 = 32768;
const MAX_CQ_ENTRIES: u32 = 2 * MAX_ENTRIES;
const PAGE: usize = 4096;

impl Sim {
    /// Reset between cases: all rings must be gone (leftovers are torn down),
    /// hooks and configuration cleared.
    pub fn reset(&mut self) {
        for ring in std::mem::take(&mut self.rings) {
            ring.destroy();
        }
        for (fd, open) in std::mem::take(&mut self.issued_fds) {
            if open {
                shims::raw_close(fd);
                if fd == 0 {
                    self.restore_stdin();
                }
            }
        }
        self.cfg = SimCfg::default();
        take_events();
        take_violations();
        take_unsupported();
        self.enter_hook = None;
        self.wait_hook = None;
        self.cancel_hook = None;
        self.next_fd = first_issued_fd();
        self.register_count.clear();
        self.would_block_forever = 0;
        track::release_all();
    }

    pub fn ring(&mut self, fd: i32) -> Option<&mut SimRing> {
        self.rings.iter_mut().find(|r| r.fd == fd && !r.closed)
    }

    pub fn ring_index(&self, fd: i32) -> Option<usize> {
        self.rings.iter().position(|r| r.fd == fd && !r.closed)
    }

    /// The only live ring (most drivers use exactly one).
    pub fn the_ring(&mut self) -> &mut SimRing {
        self.rings.iter_mut().find(|r| !r.closed).expect("no live simulated ring")
    }

    fn handle_close(&mut self, fd: i32) {
        if self.ring_index(fd).is_some() {
            self.ring_fd_closed(fd);
        } else {
            self.note_fd_closed(fd);
        }
    }

    /// Issue a new real descriptor with a number never used before in this case.
    pub fn issue_fd(&mut self) -> i32 {
        let n = self.next_fd;
        self.next_fd += 1;
        let r = unsafe { libc::dup3(self.scratch_fd, n, libc::O_CLOEXEC) };
        assert!(r == n, "dup3 to {n} failed: {}", std::io::Error::last_os_error());
        self.issued_fds.insert(n, true);
        n
    }

    /// Issue descriptor number 0 (the lowest number, which the kernel hands
    /// out in a process that runs without a standard input): the worker's own
    /// descriptor 0 is parked meanwhile and put back the moment the issued
    /// one is closed. `None` if the number is in use by this case already.
    pub fn issue_fd_low(&mut self) -> Option<i32> {
        if self.issued_fds.get(&0).copied().unwrap_or(false) {
            return None;
        }
        if self.saved_stdin.is_none() {
            let s = unsafe { libc::fcntl(0, libc::F_DUPFD_CLOEXEC, 200) };
            if s < 0 {
                return None;
            }
            self.saved_stdin = Some(s);
        }
        let r = unsafe { libc::dup3(self.scratch_fd, 0, libc::O_CLOEXEC) };
        if r != 0 {
            return None;
        }
        self.issued_fds.insert(0, true);
        Some(0)
    }

    /// Put the worker's own descriptor 0 back.
    pub fn restore_stdin(&mut self) {
        if let Some(s) = self.saved_stdin {
            unsafe { libc::dup2(s, 0) };
        }
    }

    /// Called by the close shim observer (driver side) to mark an issued fd closed.
    pub fn note_fd_closed(&mut self, fd: i32) {
        if let Some(open) = self.issued_fds.get_mut(&fd) {
            if *open && fd == 0 {
                *open = false;
                self.restore_stdin();
                return;
            }
            *open = false;
        }
    }

    fn setup(&mut self, entries: u32, p: *mut Params) -> Option<c_int> {
        let params_in = unsafe { p.read() };
        if let Some(e) = self.cfg.setup_errno {
            return fail(e);
        }
        let flags = params_in.flags;
        let known = abi::SETUP_SQPOLL
            | abi::SETUP_SQ_AFF
            | abi::SETUP_CQSIZE
            | abi::SETUP_CLAMP
            | abi::SETUP_ATTACH_WQ
            | abi::SETUP_R_DISABLED
            | abi::SETUP_SUBMIT_ALL
            | abi::SETUP_COOP_TASKRUN
            | abi::SETUP_TASKRUN_FLAG
            | abi::SETUP_SINGLE_ISSUER
            | abi::SETUP_DEFER_TASKRUN
            | abi::SETUP_NO_SQARRAY;
        if flags & !known != 0 {
            set_unsupported(format!("io_uring_setup flags {flags:#x}"));
            return fail(libc::EINVAL);
        }
        // Kernel rules (io_uring_create / io_uring_sanitise_params).
        if params_in.resv.iter().any(|r| *r != 0) {
            return fail(libc::EINVAL);
        }
        let mut sq_entries = entries;
        if sq_entries == 0 {
            return fail(libc::EINVAL);
        }
        if sq_entries > MAX_ENTRIES {
            if flags & abi::SETUP_CLAMP == 0 {
                return fail(libc::EINVAL);
            }
            sq_entries = MAX_ENTRIES;
        }
        let sq_entries = round_up_pow2(sq_entries);
        let cq_entries = if flags & abi::SETUP_CQSIZE != 0 {
            let mut cq = params_in.cq_entries;
            if cq == 0 {
                return fail(libc::EINVAL);
            }
            if cq > MAX_CQ_ENTRIES {
                if flags & abi::SETUP_CLAMP == 0 {
                    return fail(libc::EINVAL);
                }
                cq = MAX_CQ_ENTRIES;
            }
            let cq = round_up_pow2(cq);
            if cq < sq_entries {
                return fail(libc::EINVAL);
            }
            cq
        } else {
            2 * sq_entries
        };
        if flags & abi::SETUP_DEFER_TASKRUN != 0 && flags & abi::SETUP_SINGLE_ISSUER == 0 {
            return fail(libc::EINVAL);
        }
        if flags & abi::SETUP_SQPOLL != 0
            && flags & (abi::SETUP_COOP_TASKRUN | abi::SETUP_TASKRUN_FLAG | abi::SETUP_DEFER_TASKRUN) != 0
        {
            return fail(libc::EINVAL);
        }
        if flags & abi::SETUP_TASKRUN_FLAG != 0
            && flags & (abi::SETUP_COOP_TASKRUN | abi::SETUP_DEFER_TASKRUN) == 0
        {
            return fail(libc::EINVAL);
        }
        if flags & abi::SETUP_SQ_AFF != 0 && flags & abi::SETUP_SQPOLL == 0 {
            // The kernel ignores... no: io_sq_offload_create returns EINVAL
            // when SQ_AFF is given without SQPOLL.
            return fail(libc::EINVAL);
        }
        if flags & abi::SETUP_SQ_AFF != 0 {
            let ncpu = unsafe { libc::sysconf(libc::_SC_NPROCESSORS_CONF) } as u32;
            if params_in.sq_thread_cpu >= ncpu {
                return fail(libc::EINVAL);
            }
        }
        if flags & abi::SETUP_ATTACH_WQ != 0 {
            let wq = params_in.wq_fd as i32;
            if self.ring_index(wq).is_none() {
                return fail(libc::EBADF);
            }
        }

        let layout = self.cfg.layout;
        // Without IORING_SETUP_NO_SQARRAY the ring memory also holds the
        // submission index array behind the completion entries (rings_size():
        // cache-line aligned, sq_entries 32-bit indices, zeroed), and the
        // kernel takes the SQE index of every submission from it (K17).
        let cqes_end = layout.cqes as usize + cq_entries as usize * 16;
        let sq_array_off = if flags & abi::SETUP_NO_SQARRAY == 0 { Some(cqes_end.next_multiple_of(64) as u32) } else { None };
        let ring_bytes = match sq_array_off {
            Some(off) => (off as usize + sq_entries as usize * 4).next_multiple_of(PAGE),
            None => cqes_end.next_multiple_of(PAGE),
        };
        let sqes_bytes = (sq_entries as usize * 64).next_multiple_of(PAGE);
        let fd = unsafe { libc::memfd_create(c"a10verif-ring".as_ptr(), libc::MFD_CLOEXEC) };
        if fd < 0 {
            return Some(-1);
        }
        if unsafe { libc::ftruncate(fd, (ring_bytes + sqes_bytes) as i64) } != 0 {
            shims::raw_close(fd);
            return fail(libc::ENOMEM);
        }
        let prot = libc::PROT_READ | libc::PROT_WRITE;
        let mem = shims::raw_mmap(ring_bytes, prot, libc::MAP_SHARED, fd, 0);
        let sqes = shims::raw_mmap(sqes_bytes, prot, libc::MAP_SHARED, fd, ring_bytes as i64);
        assert!(mem != libc::MAP_FAILED && sqes != libc::MAP_FAILED);
        shims::register_simfd(shims::SimFd { fd, ring_bytes, sqes_off: ring_bytes, sqes_bytes });

        let mut ring = SimRing {
            fd,
            flags,
            sq_entries,
            cq_entries,
            layout,
            sq_array_off,
            params_in,
            mem: mem.cast(),
            mem_len: ring_bytes,
            sqes: sqes.cast(),
            sqes_len: sqes_bytes,
            k_sq_head: self.cfg.sq_start,
            inflight: Vec::new(),
            overflow: VecDeque::new(),
            pbufs: Vec::new(),
            files: Vec::new(),
            files_registered: false,
            enabled: flags & abi::SETUP_R_DISABLED == 0,
            closed: false,
            sqpoll_idle: false,
            sqpoll_auto: false,
            prep_refuse: Vec::new(),
            submitter_tid: if flags & abi::SETUP_SINGLE_ISSUER != 0 && flags & abi::SETUP_R_DISABLED == 0 { Some(unsafe { libc::gettid() }) } else { None },
            posted: Vec::new(),
            next_seq: 1,
            sync_cancels: 0,
            deferred: VecDeque::new(),
            inline: false,
        };
        ring.word(layout.sq_head).store(self.cfg.sq_start, Ordering::Relaxed);
        ring.word(layout.sq_tail).store(self.cfg.sq_start, Ordering::Relaxed);
        ring.word(layout.cq_head).store(self.cfg.cq_start, Ordering::Relaxed);
        ring.word(layout.cq_tail).store(self.cfg.cq_start, Ordering::Relaxed);
        ring.word(layout.sq_mask).store(sq_entries - 1, Ordering::Relaxed);
        ring.word(layout.cq_mask).store(cq_entries - 1, Ordering::Relaxed);
        ring.word(layout.sq_entries).store(sq_entries, Ordering::Relaxed);
        ring.word(layout.cq_entries).store(cq_entries, Ordering::Relaxed);
        // Unpublished CQ slots hold garbage as far as user space is concerned.
        ring.poison_unpublished(0);

        let out = unsafe { &mut *p };
        out.sq_entries = sq_entries;
        out.cq_entries = cq_entries;
        out.features = abi::FEATURES_6_18 & !self.cfg.features_remove;
        out.sq_off = abi::SqOffsets {
            head: layout.sq_head,
            tail: layout.sq_tail,
            ring_mask: layout.sq_mask,
            ring_entries: layout.sq_entries,
            flags: layout.sq_flags,
            dropped: layout.sq_dropped,
            array: sq_array_off.unwrap_or(0),
            resv1: 0,
            user_addr: 0,
        };
        out.cq_off = abi::CqOffsets {
            head: layout.cq_head,
            tail: layout.cq_tail,
            ring_mask: layout.cq_mask,
            ring_entries: layout.cq_entries,
            overflow: layout.cq_overflow,
            cqes: layout.cqes,
            flags: layout.cq_flags,
            resv1: 0,
            user_addr: 0,
        };
        ev(SimEvent::Setup { fd, params_in, sq_entries, cq_entries });
        self.rings.push(ring);
        Some(fd)
    }

    /// Observe that the tested code closed ring descriptor `fd`.
    pub fn ring_fd_closed(&mut self, fd: i32) {
        if let Some(idx) = self.ring_index(fd) {
            ev(SimEvent::RingClosed { fd });
            let ring = &mut self.rings[idx];
            ring.closed = true;
            // Requests die with the ring.
            for req in &ring.inflight {
                track::release(req.serial);
            }
            shims::unregister_simfd(fd);
        }
    }
}

impl SimRing {
    fn word(&self, off: u32) -> &AtomicU32 {
        debug_assert!((off as usize) + 4 <= self.mem_len);
        unsafe { &*self.mem.add(off as usize).cast::<AtomicU32>() }
    }

    pub fn sq_head_shared(&self) -> u32 {
        self.word(self.layout.sq_head).load(Ordering::Acquire)
    }
    pub fn sq_tail(&self) -> u32 {
        self.word(self.layout.sq_tail).load(Ordering::Acquire)
    }
    pub fn cq_head(&self) -> u32 {
        self.word(self.layout.cq_head).load(Ordering::Acquire)
    }
    pub fn cq_tail(&self) -> u32 {
        self.word(self.layout.cq_tail).load(Ordering::Acquire)
    }
    pub fn sq_flags(&self) -> u32 {
        self.word(self.layout.sq_flags).load(Ordering::Acquire)
    }
    fn set_sq_flag(&self, flag: u32, on: bool) {
        if on {
            self.word(self.layout.sq_flags).fetch_or(flag, Ordering::AcqRel);
        } else {
            self.word(self.layout.sq_flags).fetch_and(!flag, Ordering::AcqRel);
        }
    }
    pub fn is_sqpoll(&self) -> bool {
        self.flags & abi::SETUP_SQPOLL != 0
    }

    /// Published but not yet consumed SQEs.
    pub fn sq_pending(&self) -> u32 {
        self.sq_tail().wrapping_sub(self.k_sq_head)
    }

    /// CQEs in the ring not yet consumed by user space.
    pub fn cq_ready(&self) -> u32 {
        self.cq_tail().wrapping_sub(self.cq_head())
    }

    fn cqe_slot(&self, position: u32) -> *mut Cqe {
        let idx = position & (self.cq_entries - 1);
        unsafe { self.mem.add(self.layout.cqes as usize).cast::<Cqe>().add(idx as usize) }
    }

    pub fn read_sqe_slot(&self, position: u32) -> Sqe {
        let idx = position & (self.sq_entries - 1);
        unsafe { self.sqes.add(idx as usize).read_volatile() }
    }

    /// Fill every CQ slot outside `[head, tail)` with `poison`-derived garbage
    /// (K4: the kernel owns those slots). `poison == 0` uses a fixed pattern
    /// that looks like a skipped entry with a wild pointer.
    pub fn poison_unpublished(&mut self, poison: u64) {
        let head = self.cq_head();
        let tail = self.cq_tail();
        let used = tail.wrapping_sub(head).min(self.cq_entries);
        for i in used..self.cq_entries {
            let pos = head.wrapping_add(i);
            let cqe = if poison == 0 {
                Cqe { user_data: 0, res: -0x5a5a, flags: 0 }
            } else {
                Cqe { user_data: poison, res: -0x5a5a - (i as i32), flags: 0 }
            };
            unsafe { self.cqe_slot(pos).write_volatile(cqe) };
        }
    }

    /// Write a specific CQE in every unpublished slot.
    pub fn scribble_unpublished(&mut self, cqe: Cqe) {
        let head = self.cq_head();
        let tail = self.cq_tail();
        let used = tail.wrapping_sub(head).min(self.cq_entries);
        for i in used..self.cq_entries {
            let pos = head.wrapping_add(i);
            unsafe { self.cqe_slot(pos).write_volatile(cqe) };
        }
    }

    /// Consume up to `max` published SQEs (K2). Returns the serials.
    pub fn consume(&mut self, max: u32, publish: bool) -> Vec<u64> {
        let tail = self.sq_tail();
        let avail = tail.wrapping_sub(self.k_sq_head);
        let n = max.min(avail).min(self.sq_entries);
        let mut serials = Vec::new();
        for _ in 0..n {
            let position = self.k_sq_head;
            let sqe = match self.sq_array_off {
                None => self.read_sqe_slot(position),
                Some(off) => {
                    // io_get_sqe(): the index comes from the array; an index
                    // out of range is counted as dropped and ends the batch.
                    let idx = self.word(off + 4 * (position & (self.sq_entries - 1))).load(Ordering::Acquire);
                    if idx >= self.sq_entries {
                        self.k_sq_head = self.k_sq_head.wrapping_add(1);
                        let d = self.word(self.layout.sq_dropped).load(Ordering::Relaxed);
                        self.word(self.layout.sq_dropped).store(d.wrapping_add(1), Ordering::Relaxed);
                        break;
                    }
                    unsafe { self.sqes.add(idx as usize).read_volatile() }
                }
            };
            self.k_sq_head = self.k_sq_head.wrapping_add(1);
            let serial = next_serial();
            ev(SimEvent::Consumed { serial, sqe, position });
            let mut req = Req { serial, sqe, regions: Vec::new(), cqes: 0, done: false, zc_notif_pending: false };
            req.regions = regions::decode(self, &req.sqe);
            for region in &req.regions {
                regions::take_hold(serial, region, &req.sqe);
            }
            self.inflight.push(req);
            serials.push(serial);
        }
        if (n > 0 || !serials.is_empty()) && publish {
            self.publish_sq_head();
        }
        serials
    }

    /// Publish the kernel's SQ head (done once per batch, K2).
    pub fn publish_sq_head(&mut self) {
        self.word(self.layout.sq_head).store(self.k_sq_head, Ordering::Release);
    }

    pub fn req(&self, serial: u64) -> Option<&Req> {
        self.inflight.iter().find(|r| r.serial == serial)
    }

    pub fn req_mut(&mut self, serial: u64) -> Option<&mut Req> {
        self.inflight.iter_mut().find(|r| r.serial == serial)
    }

    /// In-flight (not yet finally completed) request with this user_data.
    pub fn find_by_user_data(&self, user_data: u64) -> Option<&Req> {
        self.inflight.iter().find(|r| !r.done && r.sqe.user_data == user_data)
    }

    /// Post a raw CQE (K4): into the ring if there is room and nothing is
    /// waiting in the overflow list, else onto the overflow list.
    pub fn post_raw(&mut self, cqe: Cqe, req: u64) -> u64 {
        let seq = self.next_seq;
        self.next_seq += 1;
        let posted = PostedCqe { seq, cqe, req, position: None };
        if self.flags & abi::SETUP_DEFER_TASKRUN != 0 && !self.inline {
            // K13: produced by task work, which only runs when the submitter
            // task enters the kernel to wait for events.
            self.deferred.push_back(posted.clone());
            ev(SimEvent::Posted { seq, req, cqe, overflowed: false });
            self.posted.push(posted);
            // A task waiting in io_uring_enter is woken to run the work.
            crate::sched::notify(crate::sched::Reason::Ring(self.fd));
            return seq;
        }
        let overflowed = !(self.overflow.is_empty() && self.cq_ready() < self.cq_entries);
        ev(SimEvent::Posted { seq, req, cqe, overflowed });
        self.posted.push(posted.clone());
        self.place(posted);
        seq
    }

    /// Put a generated completion into the ring, or on the overflow list.
    fn place(&mut self, posted: PostedCqe) {
        let overflowed = !(self.overflow.is_empty() && self.cq_ready() < self.cq_entries);
        if overflowed {
            self.overflow.push_back(posted);
            self.set_sq_flag(abi::SQ_CQ_OVERFLOW, true);
        } else {
            let tail = self.cq_tail();
            unsafe { self.cqe_slot(tail).write_volatile(posted.cqe) };
            if let Some(p) = self.posted.iter_mut().rev().find(|p| p.seq == posted.seq) {
                p.position = Some(tail);
            }
            self.word(self.layout.cq_tail).store(tail.wrapping_add(1), Ordering::Release);
            if posted.req != 0 && posted.cqe.flags & abi::CQE_F_MORE == 0 {
                // The final completion is visible: user space may process it
                // (and free the operation state) from now on.
                track::release(posted.req | regions::STATE_HOLD);
            }
            crate::sched::notify(crate::sched::Reason::Ring(self.fd));
        }
    }

    /// K13: run the deferred task work (io_uring_enter with GETEVENTS).
    pub fn flush_deferred(&mut self) -> u32 {
        let mut n = 0;
        while let Some(p) = self.deferred.pop_front() {
            self.place(p);
            n += 1;
        }
        n
    }

    /// Move overflowed CQEs into the ring while there is room.
    pub fn flush_overflow(&mut self) -> u32 {
        let mut n = 0;
        while !self.overflow.is_empty() && self.cq_ready() < self.cq_entries {
            let o = self.overflow.pop_front().unwrap();
            let tail = self.cq_tail();
            unsafe { self.cqe_slot(tail).write_volatile(o.cqe) };
            if let Some(p) = self.posted.iter_mut().find(|p| p.seq == o.seq) {
                p.position = Some(tail);
            }
            if o.req != 0 && o.cqe.flags & abi::CQE_F_MORE == 0 {
                track::release(o.req | regions::STATE_HOLD);
            }
            crate::sched::notify(crate::sched::Reason::Ring(self.fd));
            self.word(self.layout.cq_tail).store(tail.wrapping_add(1), Ordering::Release);
            n += 1;
        }
        if self.overflow.is_empty() {
            self.set_sq_flag(abi::SQ_CQ_OVERFLOW, false);
        }
        n
    }

    /// Generate a completion for request `serial` (K3). `more` = the request
    /// stays armed (multishot) / a notification follows (zero copy).
    /// Returns the CQE sequence number, or None if the CQE was suppressed by
    /// CQE_SKIP_SUCCESS.
    pub fn complete(&mut self, serial: u64, res: i32, extra_flags: u32, more: bool) -> Option<u64> {
        let req = self.req_mut(serial).expect("complete: unknown request");
        assert!(!req.done, "complete: request {serial} already finished (harness bug)");
        let sqe = req.sqe;
        let mut flags = extra_flags;
        if more {
            flags |= abi::CQE_F_MORE;
        }
        req.cqes += 1;
        if !more {
            req.done = true;
        }
        let skip = !more && res >= 0 && sqe.flags & abi::IOSQE_CQE_SKIP_SUCCESS != 0 && extra_flags & abi::CQE_F_NOTIF == 0;
        if !more {
            // K6: the kernel is done with the memory of this request.
            track::release(serial);
        }
        if skip {
            ev(SimEvent::Skipped { req: serial });
            track::release(serial | regions::STATE_HOLD);
            return None;
        }
        let cqe = Cqe { user_data: sqe.user_data, res, flags };
        Some(self.post_raw(cqe, serial))
    }

    /// Drop finished requests from the in-flight table (kept until now so the
    /// driver can inspect them).
    pub fn gc(&mut self) {
        self.inflight.retain(|r| !r.done);
    }

    pub fn pbuf(&mut self, bgid: u16) -> Option<&mut PbufRing> {
        self.pbufs.iter_mut().find(|p| p.bgid == bgid)
    }

    /// K8: select the next provided buffer of group `bgid`.
    pub fn select_buffer(&mut self, bgid: u16) -> Option<abi::Buf> {
        let p = self.pbufs.iter_mut().find(|p| p.bgid == bgid)?;
        // The tail lives in the `resv` field of the first entry.
        let tail = unsafe { &*((p.addr + 14) as *const std::sync::atomic::AtomicU16) }.load(Ordering::Acquire);
        if p.head == tail {
            return None;
        }
        let idx = (p.head as u32) & (p.entries - 1);
        let entry = unsafe { ((p.addr + idx as usize * 16) as *const abi::Buf).read_volatile() };
        p.head = p.head.wrapping_add(1);
        Some(entry)
    }

    /// Entries currently offered to the kernel in group `bgid`: `[head, tail)`.
    pub fn offered_buffers(&self, bgid: u16) -> Vec<abi::Buf> {
        let Some(p) = self.pbufs.iter().find(|p| p.bgid == bgid) else { return Vec::new() };
        let tail = unsafe { &*((p.addr + 14) as *const std::sync::atomic::AtomicU16) }.load(Ordering::Acquire);
        let mut out = Vec::new();
        let mut h = p.head;
        while h != tail {
            let idx = (h as u32) & (p.entries - 1);
            out.push(unsafe { ((p.addr + idx as usize * 16) as *const abi::Buf).read_volatile() });
            h = h.wrapping_add(1);
            if out.len() > 70_000 {
                break;
            }
        }
        out
    }

    /// Entries offered in every registered group (drivers with one pool).
    pub fn offered_buffers_all(&self) -> Vec<abi::Buf> {
        let mut out = Vec::new();
        for p in &self.pbufs {
            out.extend(self.offered_buffers(p.bgid));
        }
        out
    }

    /// Allocate a direct descriptor slot.
    pub fn alloc_direct(&mut self) -> Option<u32> {
        let idx = self.files.iter().position(Option::is_none)?;
        self.files[idx] = Some(-1);
        Some(idx as u32)
    }

    fn destroy(self) {
        shims::unregister_simfd(self.fd);
        shims::raw_munmap(self.mem.cast(), self.mem_len);
        shims::raw_munmap(self.sqes.cast(), self.sqes_len);
        // The descriptor may or may not have been closed by the tested code.
        if !self.closed {
            shims::raw_close(self.fd);
        }
        for req in &self.inflight {
            track::release(req.serial);
        }
    }
}

mod syscalls;
use syscalls::{sys_enter, sys_register, sys_setup};
