//! C04b — submission queue integrity under concurrent submitters, decided
//! under a baton-passing scheduler (E4): 2..4 submitter threads poll
//! operations into a nearly full 1..4-entry queue while a poller thread (or
//! the SQPOLL kernel thread) consumes; every accepted submission must reach
//! the kernel exactly once and unmodified.

use std::future::Future;
use std::pin::Pin;
use std::sync::{Arc, Mutex};
use std::task::{Context, Poll};
use std::time::Duration;

use a10::Ring;
use serde::{Deserialize, Serialize};

use crate::abi;
use crate::common::Ctx;
use crate::interp::waker::WakerHandle;
use crate::interp::world::{RingCfg, World};
use crate::runner::catch;
use crate::sched;
use crate::sim::{self, SimEvent};
use crate::track;

#[derive(Clone, Debug, Serialize, Deserialize)]
pub struct SchedCase {
    pub sq_log2: u8,
    /// Queue is primed with `len - gap` entries (gap 1 or 2).
    pub gap: u8,
    /// Operations per submitter thread (2..=4 threads, 1..=3 operations).
    pub submitters: Vec<u8>,
    /// Ring::poll calls of the poller thread.
    pub polls: u8,
    pub sqpoll: bool,
    /// The poller thread drops the Ring after its polls, while the submitters
    /// may still be submitting.
    #[serde(default)]
    pub drop_ring: bool,
    pub tape: Vec<u16>,
    /// Priority schedule (few preemptions, long runs) instead of the tape.
    #[serde(default)]
    pub pct: Option<sched::Pct>,
    /// Ring built with single_issuer() (and defer_task_run()): only the
    /// Ring's thread enters the kernel, any thread may still queue
    /// submissions through a SubmissionQueue.
    #[serde(default)]
    pub single_issuer: bool,
}

type Fut = Pin<Box<a10::fs::Truncate<'static>>>;

struct SendFuts(Vec<(u64, Fut, WakerHandle)>);
unsafe impl Send for SendFuts {}
struct SendRing(Ring);
unsafe impl Send for SendRing {}

const TAG_BASE: u64 = 0xC04B_0000_0000;

pub fn run(case: &SchedCase, ctx: &mut Ctx) -> Vec<&'static str> {
    let mut classes: Vec<&'static str> = Vec::new();
    let mut cfg = RingCfg::simple(case.sq_log2.min(2));
    cfg.sqpoll = case.sqpoll;
    cfg.defer_taskrun = case.single_issuer && !case.sqpoll;
    cfg.cq_log2 = Some(6);
    let mut world = match World::new(&cfg) {
        Ok(w) => w,
        Err(e) => {
            ctx.infra(e);
            return classes;
        }
    };
    let len = cfg.sq_entries() as usize;
    let fd = world.new_fd();
    let afd = world.fd(fd);
    let ring_fd = world.ring_fd;
    let mut next_tag = 0u64;
    let mut new_fut = |next_tag: &mut u64| -> (u64, Fut, WakerHandle) {
        let tag = TAG_BASE + *next_tag;
        *next_tag += 1;
        let f = {
            let _s = track::scope(track::TAG_A10);
            Box::pin(afd.truncate(tag))
        };
        (tag, f, WakerHandle::new())
    };
    let poll_once = |f: &mut (u64, Fut, WakerHandle)| -> Result<bool, String> {
        let mut cx = Context::from_waker(&f.2.waker);
        let r = {
            let _s = track::scope(track::TAG_A10);
            catch(|| f.1.as_mut().poll(&mut cx))
        };
        match r {
            Err((m, l)) => Err(format!("poll panicked at {l}: {m}")),
            Ok(Poll::Ready(r)) => match r {
                Ok(()) => Ok(true),
                Err(e) => Err(format!("operation failed: {e}")),
            },
            Ok(Poll::Pending) => Ok(false),
        }
    };

    // Prime the queue (sequentially).
    let primed_n = len.saturating_sub(case.gap.clamp(1, 2) as usize);
    let mut all: Vec<(u64, Fut, WakerHandle)> = Vec::new();
    for _ in 0..primed_n {
        let mut f = new_fut(&mut next_tag);
        if let Err(e) = poll_once(&mut f) {
            ctx.violation("C04:sched:panic", e);
            return classes;
        }
        all.push(f);
    }
    let events_before = sim::events_len();

    // Threads.
    let nthreads = case.submitters.len().clamp(2, 4);
    let results: Arc<Mutex<Vec<SendFuts>>> = Arc::new(Mutex::new(Vec::new()));
    let errors: Arc<Mutex<Vec<String>>> = Arc::new(Mutex::new(Vec::new()));
    let mut threads: Vec<Box<dyn FnOnce() + Send>> = Vec::new();
    for t in 0..nthreads {
        let nops = case.submitters.get(t).copied().unwrap_or(1).clamp(1, 3);
        let mut futs = SendFuts((0..nops).map(|_| new_fut(&mut next_tag)).collect());
        let results = results.clone();
        let errors = errors.clone();
        threads.push(Box::new(move || {
            let futs_ref = &mut futs;
            for f in futs_ref.0.iter_mut() {
                let mut cx = Context::from_waker(&f.2.waker);
                let r = {
                    let _s = track::scope(track::TAG_A10);
                    catch(|| f.1.as_mut().poll(&mut cx))
                };
                match r {
                    Err((m, l)) => errors.lock().unwrap().push(format!("submitter poll panicked at {l}: {m}")),
                    Ok(Poll::Ready(r)) => errors.lock().unwrap().push(format!("operation resolved on first poll: {r:?}")),
                    Ok(Poll::Pending) => {}
                }
            }
            results.lock().unwrap().push(futs);
        }));
    }
    // Poller thread / kernel thread.
    let ring_slot: Arc<Mutex<Option<SendRing>>> = Arc::new(Mutex::new(world.ring.take().map(SendRing)));
    {
        let ring_slot = ring_slot.clone();
        let errors = errors.clone();
        let polls = case.polls.min(4);
        let sqpoll = case.sqpoll;
        let drop_ring = case.drop_ring;
        threads.push(Box::new(move || {
            let mut ring = ring_slot.lock().unwrap().take();
            // The Ring lives on this thread ("built here", K14).
            sim::bind_submitter_here(ring_fd);
            for _ in 0..polls {
                if sqpoll {
                    sched::point(sched::Kind::Syscall);
                    let mut s = sim::sim();
                    if let Some(idx) = s.ring_index(ring_fd) {
                        s.sqpoll_consume(idx);
                    }
                } else if let Some(r) = ring.as_mut() {
                    let res = {
                        let _s = track::scope(track::TAG_A10);
                        catch(|| r.0.poll(Some(Duration::ZERO)))
                    };
                    match res {
                        Err((m, l)) => errors.lock().unwrap().push(format!("Ring::poll panicked at {l}: {m}")),
                        Ok(Err(e)) => errors.lock().unwrap().push(format!("Ring::poll failed: {e}")),
                        Ok(Ok(())) => {}
                    }
                }
            }
            if drop_ring && !sqpoll {
                let r = {
                    let _s = track::scope(track::TAG_A10);
                    catch(move || drop(ring))
                };
                if let Err((m, l)) = r {
                    errors.lock().unwrap().push(format!("dropping the Ring panicked at {l}: {m}"));
                }
            } else {
                *ring_slot.lock().unwrap() = ring;
            }
        }));
    }
    let outcome = sched::run_either(&case.pct, &case.tape, 20_000, false, threads);
    // The rest runs on this thread.
    sim::bind_submitter_here(ring_fd);
    if case.pct.is_some() {
        classes.push("pct");
    }
    if case.single_issuer && !case.sqpoll {
        classes.push("single-issuer");
    }
    world.ring = ring_slot.lock().unwrap().take().map(|r| r.0);
    for f in results.lock().unwrap().drain(..) {
        all.extend(f.0);
    }
    if outcome.over_budget {
        ctx.infra("scheduler step budget exceeded");
        return classes;
    }
    for p in &outcome.panics {
        ctx.violation("C04:sched:panic", format!("thread panicked: {p}"));
    }
    for e in errors.lock().unwrap().drain(..) {
        ctx.violation("C04:sched:error", e);
    }
    if outcome.stuck {
        ctx.violation("C04:sched:deadlock", format!("no runnable thread; parked: {:?}", outcome.parked_at_end));
    }
    if outcome.interesting_switches > 0 {
        classes.push("switch-inside-a10");
    }

    if case.drop_ring && !case.sqpoll && world.ring.is_none() {
        // The Ring is gone: whatever was accepted into the queue (published)
        // must have been handed to the kernel by the Ring's drop; a submitter
        // that came too late must have been refused (nothing published).
        classes.push("ring-dropped-while-submitting");
        if !ctx.failed() {
            let (head, tail) = {
                let mut s = sim::sim();
                match s.ring(ring_fd) {
                    Some(r) => (r.sq_head_shared(), r.sq_tail()),
                    None => (0, 0),
                }
            };
            if tail != head {
                let mut left = Vec::new();
                let mut s = sim::sim();
                if let Some(r) = s.ring(ring_fd) {
                    let mut p = r.k_sq_head;
                    while p != tail {
                        left.push(r.read_sqe_slot(p).off);
                        p = p.wrapping_add(1);
                    }
                }
                ctx.violation("C04:sched:accepted-after-ring-drop", format!("submissions tagged {left:x?} were accepted into the queue (published) while or after the Ring was dropped and were never passed to the kernel; nobody will submit them"));
            }
        }
        {
            let _s = track::scope(track::TAG_A10);
            drop(all);
            drop(world);
        }
        return classes;
    }
    // Sequential finish: complete everything the kernel consumes, poll every
    // future until all resolved.
    if !ctx.failed() {
        let hook: sim::EnterHook = Box::new(move |ring, info| {
            for s in &info.consumed {
                if ring.req(*s).is_some_and(|r| r.sqe.user_data >= 4 && !r.done) {
                    ring.complete(*s, 0, 0, false);
                }
            }
        });
        sim::sim().enter_hook = Some(hook);
        let mut done = vec![false; all.len()];
        let mut idle_rounds = 0;
        for _ in 0..200 {
            // Complete what an earlier (scheduled) consumption left in flight.
            {
                let mut s = sim::sim();
                if let Some(idx) = s.ring_index(ring_fd) {
                    if case.sqpoll {
                        s.sqpoll_consume(idx);
                    }
                    let inflight: Vec<u64> = s.rings[idx].inflight.iter().filter(|r| !r.done && r.sqe.user_data >= 4).map(|r| r.serial).collect();
                    for serial in inflight {
                        s.rings[idx].complete(serial, 0, 0, false);
                    }
                }
            }
            let r = catch(|| world.poll_ring(Some(Duration::ZERO)));
            match r {
                Err((m, l)) => {
                    ctx.violation("C04:sched:panic", format!("Ring::poll panicked at {l}: {m} (a completion for an operation that is not running?)"));
                    break;
                }
                Ok(Err(e)) => {
                    ctx.violation("C04:sched:error", format!("Ring::poll failed: {e}"));
                    break;
                }
                Ok(Ok(())) => {}
            }
            let mut progress = false;
            for (k, f) in all.iter_mut().enumerate() {
                if done[k] {
                    continue;
                }
                match poll_once(f) {
                    Ok(true) => {
                        done[k] = true;
                        progress = true;
                    }
                    Ok(false) => {}
                    Err(e) => {
                        ctx.violation("C04:sched:error", e);
                        done[k] = true;
                    }
                }
            }
            if done.iter().all(|d| *d) {
                break;
            }
            if progress {
                idle_rounds = 0;
            } else {
                idle_rounds += 1;
                if idle_rounds > 6 {
                    break;
                }
            }
        }
        sim::sim().enter_hook = None;

        // Oracle: the kernel consumed every operation's submission exactly
        // once, unmodified.
        let events = sim::events_since(0);
        let mut consumed: Vec<abi::Sqe> = events.iter().filter_map(|e| if let SimEvent::Consumed { sqe, .. } = e { Some(*sqe) } else { None }).filter(|s| s.user_data >= 4).collect();
        let _ = events_before;
        let raw_fd = crate::interp::ops::sim_fd_number(afd);
        let mut seen_tags: Vec<u64> = Vec::new();
        for sqe in consumed.drain(..) {
            let mut want = abi::Sqe::zeroed();
            want.opcode = abi::OP_FTRUNCATE;
            want.fd = raw_fd;
            want.off = sqe.off;
            want.user_data = sqe.user_data;
            let tag_ok = sqe.off >= TAG_BASE && sqe.off < TAG_BASE + next_tag;
            if sqe != want || !tag_ok {
                ctx.violation("C04:sched:torn-or-foreign-entry", format!("the kernel consumed an entry that no submitter wrote: {sqe:?}"));
                break;
            }
            if seen_tags.contains(&sqe.off) {
                ctx.violation("C04:sched:consumed-twice", format!("the submission tagged {:#x} reached the kernel twice (a slot was overwritten before the kernel consumed it)", sqe.off));
                break;
            }
            seen_tags.push(sqe.off);
        }
        if !ctx.failed() {
            let missing: Vec<u64> = all.iter().map(|f| f.0).filter(|t| !seen_tags.contains(t)).collect();
            if !missing.is_empty() {
                ctx.violation("C04:sched:lost-submission", format!("operations tagged {missing:x?} were accepted or left waiting but their submission never reached the kernel although the queue was drained"));
            } else if !done.iter().all(|d| *d) {
                ctx.violation("C04:sched:not-completed", "every submission reached the kernel and was completed, but some operations never resolved");
            }
        }
    }
    if all.len() > len {
        classes.push("over-subscribed");
    }
    {
        let _s = track::scope(track::TAG_A10);
        drop(all);
        drop(world);
    }
    classes
}
