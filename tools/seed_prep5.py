#!/usr/bin/env python3
"""Write the brief for a later-round seeding agent: the standard brief plus
the list of changes already made for that property (so the agent picks another
mechanism). usage: seed_prep5.py <property-id> <suffix>"""
import re, sys, runpy, io, contextlib
pid, sfx = sys.argv[1], sys.argv[2]
name = pid + sfx
src = open('/verif/tools/seed_meta.py').read().split("for sid, m in SEEDS.items():")[0]
ns = {}
exec(src, ns)
prior = [v['change'] for k, v in ns['SEEDS'].items() if k.startswith(pid)]
brief = open(f'/tmp/seed-brief-{name}.txt').read()
extra = "\n\nChanges of this kind have been made before for this property; pick a DIFFERENT mechanism, site or input class (another sentence of the property text, another operation, another code path):\n" + "".join(f"  - {c}\n" for c in prior)
marker = "Deliverables, all inside"
i = brief.index(marker)
open(f'/tmp/seed-brief-{name}.txt', 'w').write(brief[:i].rstrip() + extra + "\n" + brief[i:])
print(f'/tmp/seed-brief-{name}.txt')
