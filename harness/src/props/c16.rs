//! C16 — socket addresses round-trip through their kernel representation.
//!
//! C16a (pure): into_storage -> what the kernel keeps of the (pointer, length)
//! pair a10 hands it -> the bytes and the length the kernel reports back ->
//! init must give the original address. The kernel side is modelled from
//! ip(7), ipv6(7) and unix(7) (and net/unix/af_unix.c `unix_validate_addr` /
//! `unix_mkname_bsd`): the same conversions run against the real kernel in C13.

use std::mem::MaybeUninit;
use std::net::{Ipv4Addr, Ipv6Addr, SocketAddr, SocketAddrV4, SocketAddrV6};
use std::os::linux::net::SocketAddrExt;
use std::os::unix::ffi::OsStrExt;
use std::os::unix::net::SocketAddr as UnixAddr;
use std::path::Path;

use a10::net::SocketAddress;
use proptest::prelude::*;
use serde::{Deserialize, Serialize};

use crate::common::{Ctx, Tier};
use crate::runner::Property;

#[derive(Clone, Debug, Serialize, Deserialize)]
pub enum Case {
    V4 { ip: [u8; 4], port: u16, either: bool },
    V6 { ip: [u8; 16], port: u16, flow: u32, scope: u32, either: bool },
    UnixPath { path: Vec<u8> },
    UnixAbstract { name: Vec<u8> },
    UnixUnnamed,
}

const SUN_PATH_OFFSET: usize = 2;
const SUN_SIZE: usize = 110;

/// What the Linux kernel stores for an address passed as (bytes, len), and
/// what it reports back from getsockname/accept/recvmsg: (bytes, length).
fn kernel_keeps(bytes: &[u8], len: usize) -> Result<(Vec<u8>, usize), String> {
    if len > bytes.len() {
        return Err(format!("length {len} exceeds the storage size {}", bytes.len()));
    }
    if len < 2 {
        return Err(format!("length {len} too short for a socket address"));
    }
    let family = u16::from_ne_bytes([bytes[0], bytes[1]]) as i32;
    match family {
        libc::AF_INET => {
            if len < 16 {
                return Err(format!("AF_INET address with length {len} < 16: EINVAL"));
            }
            let mut out = bytes[..16].to_vec();
            out[8..16].fill(0);
            Ok((out, 16))
        }
        libc::AF_INET6 => {
            if len < 24 {
                return Err(format!("AF_INET6 address with length {len} < 24: EINVAL"));
            }
            let mut out = bytes[..len.min(28)].to_vec();
            out.resize(28, 0);
            Ok((out, 28))
        }
        libc::AF_UNIX => {
            if len > SUN_SIZE {
                return Err(format!("AF_UNIX address with length {len} > {SUN_SIZE}: EINVAL"));
            }
            if len == SUN_PATH_OFFSET {
                // Unnamed.
                return Ok((bytes[..2].to_vec(), 2));
            }
            let path = &bytes[SUN_PATH_OFFSET..len];
            if path[0] != 0 {
                // Pathname: the kernel NUL-terminates and recomputes the length.
                let n = path.iter().position(|b| *b == 0).unwrap_or(path.len());
                let mut out = bytes[..SUN_PATH_OFFSET + n].to_vec();
                out.push(0);
                let l = out.len();
                Ok((out, l))
            } else {
                // Abstract: all `len` bytes are the name.
                Ok((bytes[..len].to_vec(), len))
            }
        }
        f => Err(format!("unknown address family {f}")),
    }
}


thread_local! {
    /// (real-kernel round trips, disagreements between the model and the kernel) of the running case.
    static REAL: std::cell::Cell<(u32, u32)> = const { std::cell::Cell::new((0, 0)) };
}

/// Hand `(bytes, len)` to the real kernel (bind(2) on a fresh datagram socket
/// of the address's family; for the unnamed Unix address: no bind at all) and
/// return what getsockname(2) reports: the bytes and *the length the kernel
/// itself reports*. `None` when this address cannot be bound here (not a
/// local address, path with directories, name in use, ...).
fn real_kernel(bytes: &[u8], len: usize) -> Option<(Vec<u8>, usize)> {
    if len < 2 {
        return None;
    }
    let family = u16::from_ne_bytes([bytes[0], bytes[1]]) as i32;
    let mut unlink: Option<Vec<u8>> = None;
    match family {
        libc::AF_INET => {
            if bytes[4] != 127 {
                return None;
            }
        }
        libc::AF_INET6 => {
            let ip = &bytes[8..24];
            let loopback = ip[..15].iter().all(|b| *b == 0) && ip[15] == 1;
            let mapped = ip[..10].iter().all(|b| *b == 0) && ip[10] == 0xff && ip[11] == 0xff && ip[12] == 127;
            if !loopback && !mapped {
                return None;
            }
        }
        libc::AF_UNIX => {
            if len > SUN_PATH_OFFSET && bytes[SUN_PATH_OFFSET] != 0 {
                let path = &bytes[SUN_PATH_OFFSET..len];
                let n = path.iter().position(|b| *b == 0).unwrap_or(path.len());
                let name = &path[..n];
                if name.contains(&b'/') || name == b"." || name == b".." {
                    return None;
                }
                unlink = Some(name.to_vec());
            }
        }
        _ => return None,
    }
    let fd = unsafe { libc::socket(family, libc::SOCK_DGRAM | libc::SOCK_CLOEXEC, 0) };
    if fd < 0 {
        return None;
    }
    // Pathnames are bound relative to a scratch directory (the working
    // directory is restored afterwards; worker processes are single threaded).
    let mut back_to: Option<i32> = None;
    if unlink.is_some() {
        let dir = std::env::temp_dir().join(format!("a10verif-c16-{}", std::process::id()));
        let _ = std::fs::create_dir_all(&dir);
        let cwd = unsafe { libc::open(c".".as_ptr(), libc::O_RDONLY | libc::O_DIRECTORY | libc::O_CLOEXEC) };
        let c = std::ffi::CString::new(dir.as_os_str().as_bytes()).ok()?;
        if cwd < 0 || unsafe { libc::chdir(c.as_ptr()) } != 0 {
            unsafe {
                if cwd >= 0 {
                    libc::close(cwd);
                }
                libc::close(fd);
            }
            return None;
        }
        back_to = Some(cwd);
    }
    let unnamed = family == libc::AF_UNIX && len == SUN_PATH_OFFSET;
    let bound = unnamed || unsafe { libc::bind(fd, bytes.as_ptr().cast(), len as u32) } == 0;
    let mut out = None;
    if bound {
        let mut buf = [0xAAu8; 128];
        let mut rlen: u32 = 128;
        if unsafe { libc::getsockname(fd, buf.as_mut_ptr().cast(), &mut rlen) } == 0 && (rlen as usize) <= 128 {
            out = Some((buf[..rlen as usize].to_vec(), rlen as usize));
        }
    }
    if let Some(name) = &unlink {
        if bound {
            if let Ok(c) = std::ffi::CString::new(name.clone()) {
                unsafe { libc::unlink(c.as_ptr()) };
            }
        }
    }
    if let Some(cwd) = back_to {
        unsafe {
            libc::fchdir(cwd);
            libc::close(cwd);
        }
    }
    unsafe { libc::close(fd) };
    out
}

fn storage_bytes<S>(s: &S) -> Vec<u8> {
    unsafe { std::slice::from_raw_parts((s as *const S).cast::<u8>(), size_of::<S>()) }.to_vec()
}

/// Round trip `addr` through a10's conversion functions and the kernel model.
/// `exact` = the (pointer, length) pair must be exactly this long.
fn round_trip<A: SocketAddress + Clone>(addr: &A, exact: Option<usize>, min_capacity: usize, eq: impl Fn(&A, &A) -> bool, show: impl Fn(&A) -> String, also_without_nul: bool, unnamed_zero: bool) -> Result<(), String> {
    let storage = addr.clone().into_storage();
    let (ptr, len) = unsafe { A::as_ptr(&storage) };
    let len = len as usize;
    let sbase = (&storage as *const A::Storage).addr();
    if ptr.addr() < sbase || ptr.addr() + len > sbase + size_of::<A::Storage>() {
        return Err(format!("pointer: as_ptr = ({:#x}, {len}) is not inside the storage ({sbase:#x}, {})", ptr.addr(), size_of::<A::Storage>()));
    }
    if let Some(want) = exact {
        if len != want {
            return Err(format!("length: as_ptr passes {len} bytes to the kernel, the structure for this address family is {want} bytes"));
        }
    }
    let bytes = unsafe { std::slice::from_raw_parts(ptr.cast::<u8>(), len) }.to_vec();
    let (kept, klen) = kernel_keeps(&bytes, len).map_err(|e| format!("kernel-rejects: the kernel would refuse the address: {e}"))?;

    let back = |kept: &[u8], klen: usize| -> Result<A, String> {
        let mut out: MaybeUninit<A::Storage> = MaybeUninit::uninit();
        unsafe { out.as_mut_ptr().cast::<u8>().write_bytes(0xAA, size_of::<A::Storage>()) };
        let (mptr, mlen) = unsafe { A::as_mut_ptr(&mut out) };
        let obase = out.as_ptr().addr();
        if mptr.addr() < obase || mptr.addr() + mlen as usize > obase + size_of::<A::Storage>() {
            return Err(format!("mut-pointer: as_mut_ptr = ({:#x}, {mlen}) is not inside the storage ({obase:#x}, {})", mptr.addr(), size_of::<A::Storage>()));
        }
        if (mlen as usize) < min_capacity {
            return Err(format!("mut-pointer: as_mut_ptr offers only {mlen} bytes, the largest address of this family needs {min_capacity}"));
        }
        if klen > mlen as usize {
            return Err(format!("mut-pointer: kernel address of {klen} bytes does not fit the {mlen} byte storage"));
        }
        unsafe { std::ptr::copy_nonoverlapping(kept.as_ptr(), mptr.cast::<u8>(), klen) };
        Ok(unsafe { A::init(out, klen as u32) })
    };
    let got = back(&kept, klen)?;
    if !eq(addr, &got) {
        return Err(format!("round-trip: {} came back as {} (a10 passes {len} bytes, the kernel reports {klen})", show(addr), show(&got)));
    }
    // The same through the real kernel: what getsockname(2) reports, with the
    // length it reports, must decode to the address (for IP addresses the
    // kernel picks the port when 0 was asked for and does not keep the flow
    // label: address and a non-zero port are compared there).
    if let Some((rbytes, rlen)) = real_kernel(&bytes, len) {
        let family = u16::from_ne_bytes([bytes[0], bytes[1]]) as i32;
        let agrees = if family == libc::AF_UNIX { rlen == klen && rbytes[..rlen] == kept[..klen] } else { rlen == klen };
        REAL.with(|c| c.set((c.get().0 + 1, c.get().1 + u32::from(!agrees))));
        let got = back(&rbytes, rlen)?;
        if family == libc::AF_UNIX {
            if !eq(addr, &got) {
                return Err(format!("round-trip-real-kernel: {} came back as {} through bind(2)/getsockname(2) (a10 passes {len} bytes, the kernel reports {rlen}: {:02x?})", show(addr), show(&got), &rbytes[..rlen.min(24)]));
            }
        } else {
            // Compare through the kernel representation: family, address, port.
            let st = got.clone().into_storage();
            let (p2, l2) = unsafe { A::as_ptr(&st) };
            let b2 = unsafe { std::slice::from_raw_parts(p2.cast::<u8>(), l2 as usize) };
            let asked_port = [bytes[2], bytes[3]];
            let same_ip = if family == libc::AF_INET { b2.len() >= 8 && b2[..2] == bytes[..2] && b2[4..8] == bytes[4..8] } else { b2.len() >= 24 && b2[..2] == bytes[..2] && b2[8..24] == bytes[8..24] };
            let same_port = b2.len() >= 4 && (asked_port == [0, 0] || b2[2..4] == asked_port) && b2[2..4] == rbytes[2..4];
            if !same_ip || !same_port {
                return Err(format!("round-trip-real-kernel: {} came back as {} through bind(2)/getsockname(2) (the kernel reports {rlen} bytes: {:02x?})", show(addr), show(&got), &rbytes[..rlen.min(28)]));
            }
        }
    }
    if unnamed_zero {
        // recvmsg reports msg_namelen = 0 when the sender has no address.
        let got = back(&[], 0)?;
        if !eq(addr, &got) {
            return Err(format!("round-trip-zero-length: {} came back as {} when the kernel reports no address (length 0)", show(addr), show(&got)));
        }
    }
    if also_without_nul && klen > SUN_PATH_OFFSET + 1 && kept[klen - 1] == 0 {
        let got = back(&kept, klen - 1)?;
        if !eq(addr, &got) {
            return Err(format!("round-trip-no-nul: {} came back as {} when the reported length excludes the trailing NUL", show(addr), show(&got)));
        }
    }
    Ok(())
}

fn unix_eq(a: &UnixAddr, b: &UnixAddr) -> bool {
    a.is_unnamed() == b.is_unnamed() && a.as_pathname() == b.as_pathname() && a.as_abstract_name() == b.as_abstract_name()
}

fn unix_show(a: &UnixAddr) -> String {
    if let Some(p) = a.as_pathname() {
        format!("pathname {:?}", p)
    } else if let Some(n) = a.as_abstract_name() {
        format!("abstract {:?} ({} bytes)", String::from_utf8_lossy(n), n.len())
    } else {
        "unnamed".to_string()
    }
}

/// IPv6 addresses: uniformly random ones and the ranges with a special
/// meaning (IPv4-mapped, IPv4-compatible, NAT64, 6to4, loopback, unspecified,
/// link-local, multicast), which code is tempted to treat specially.
fn ip6() -> impl Strategy<Value = [u8; 16]> {
    let embed = |prefix: [u8; 12]| {
        any::<[u8; 4]>().prop_map(move |v4| {
            let mut ip = [0u8; 16];
            ip[..12].copy_from_slice(&prefix);
            ip[12..].copy_from_slice(&v4);
            ip
        })
    };
    prop_oneof![
        6 => any::<[u8; 16]>(),
        3 => embed([0, 0, 0, 0, 0, 0, 0, 0, 0, 0, 0xff, 0xff]),
        1 => embed([0; 12]),
        1 => embed([0, 0x64, 0xff, 0x9b, 0, 0, 0, 0, 0, 0, 0, 0]),
        1 => any::<[u8; 4]>().prop_map(|v4| {
            let mut ip = [0u8; 16];
            ip[0] = 0x20;
            ip[1] = 0x02;
            ip[2..6].copy_from_slice(&v4);
            ip
        }),
        1 => Just(Ipv6Addr::LOCALHOST.octets()),
        1 => Just(Ipv6Addr::UNSPECIFIED.octets()),
        1 => any::<[u8; 8]>().prop_map(|id| {
            let mut ip = [0u8; 16];
            ip[0] = 0xfe;
            ip[1] = 0x80;
            ip[8..].copy_from_slice(&id);
            ip
        }),
        1 => (0u8..16, any::<[u8; 4]>()).prop_map(|(scope, group)| {
            let mut ip = [0u8; 16];
            ip[0] = 0xff;
            ip[1] = scope;
            ip[12..].copy_from_slice(&group);
            ip
        }),
    ]
}

fn ip4() -> impl Strategy<Value = [u8; 4]> {
    prop_oneof![
        6 => any::<[u8; 4]>(),
        1 => Just([0, 0, 0, 0]),
        1 => Just([127, 0, 0, 1]),
        1 => Just([255, 255, 255, 255]),
        1 => any::<[u8; 3]>().prop_map(|t| [224, t[0], t[1], t[2]]),
    ]
}

pub struct C16;

impl Property for C16 {
    const ID: &'static str = "C16";
    type Case = Case;

    fn strategy(_tier: Tier) -> BoxedStrategy<Case> {
        let path_byte = prop_oneof![8 => 0x21u8..0x7f, 1 => 0x80u8..=0xff, 1 => 1u8..0x20];
        prop_oneof![
            2 => (ip4(), prop_oneof![4 => any::<u16>(), 1 => Just(0u16)], any::<bool>()).prop_map(|(ip, port, either)| Case::V4 { ip, port, either }),
            3 => (ip6(), any::<u16>(), prop_oneof![Just(0u32), any::<u32>()], prop_oneof![Just(0u32), any::<u32>()], any::<bool>()).prop_map(|(ip, port, flow, scope, either)| Case::V6 { ip, port, flow, scope, either }),
            4 => proptest::collection::vec(path_byte, 1..=107).prop_map(|path| Case::UnixPath { path }),
            1 => Just(Case::UnixPath { path: vec![b'p'; 107] }),
            4 => proptest::collection::vec(any::<u8>(), 0..=107).prop_map(|name| Case::UnixAbstract { name }),
            1 => Just(Case::UnixUnnamed),
        ]
        .boxed()
    }

    fn cases(tier: Tier) -> u32 {
        tier.pick(40_000, 2_000_000)
    }

    fn run(case: &Case, ctx: &mut Ctx) {
        let (res, class, nontrivial) = match case {
            Case::V4 { ip, port, either } => {
                let a = SocketAddrV4::new(Ipv4Addr::from(*ip), *port);
                if *either {
                    (round_trip(&SocketAddr::V4(a), Some(16), 28, |x, y| x == y, |x| x.to_string(), false, false), "either-v4", false)
                } else {
                    (round_trip(&a, Some(16), 16, |x, y| x == y, |x| x.to_string(), false, false), "v4", false)
                }
            }
            Case::V6 { ip, port, flow, scope, either } => {
                let a = SocketAddrV6::new(Ipv6Addr::from(*ip), *port, *flow, *scope);
                let nt = *flow != 0 || *scope != 0;
                if *either {
                    (round_trip(&SocketAddr::V6(a), Some(28), 28, |x, y| x == y, |x| match x { SocketAddr::V6(v) => format!("{x} flow {} scope {}", v.flowinfo(), v.scope_id()), SocketAddr::V4(_) => format!("{x} (IPv4)") }, false, false), "either-v6", nt)
                } else {
                    (round_trip(&a, Some(28), 28, |x, y| x == y, |x| format!("{x} flow {} scope {}", x.flowinfo(), x.scope_id()), false, false), "v6", nt)
                }
            }
            Case::UnixPath { path } => match UnixAddr::from_pathname(Path::new(std::ffi::OsStr::from_bytes(path))) {
                Ok(a) => (round_trip(&a, None, SUN_SIZE, unix_eq, unix_show, true, false), "unix-path", true),
                Err(_) => {
                    ctx.skipped_steps += 1;
                    (Ok(()), "unix-path-rejected-by-std", false)
                }
            },
            Case::UnixAbstract { name } => match UnixAddr::from_abstract_name(name) {
                Ok(a) => (round_trip(&a, None, SUN_SIZE, unix_eq, unix_show, false, false), "unix-abstract", true),
                Err(_) => {
                    ctx.skipped_steps += 1;
                    (Ok(()), "unix-abstract-rejected-by-std", false)
                }
            },
            Case::UnixUnnamed => (round_trip(&UnixAddr::from_pathname("").unwrap(), None, SUN_SIZE, unix_eq, unix_show, false, true), "unix-unnamed", true),
        };
        ctx.class(class);
        let (real, disagree) = REAL.with(|c| c.replace((0, 0)));
        if real > 0 {
            ctx.class("real-kernel-round-trip");
        }
        if disagree > 0 {
            ctx.class("kernel-disagrees-with-length-model");
        }
        ctx.nontrivial = nontrivial;
        ctx.fingerprint = format!("{class}|{:x}", crate::common::fnv(&format!("{case:?}")));
        if let Err(e) = res {
            let (kind, msg) = e.split_once(": ").unwrap_or((&e, ""));
            ctx.violation(&format!("C16:{kind}:{class}"), msg.to_string());
        }
    }

    fn rule() -> &'static str {
        "proptest over all IPv4/IPv6 addresses (uniform ones and the special ranges: IPv4-mapped, IPv4-compatible, NAT64, 6to4, loopback, unspecified, link-local, multicast), ports, flow labels, scope ids (as SocketAddrV4/V6 and as either-family SocketAddr), Unix pathnames of 1..107 arbitrary non-NUL bytes, abstract names of 0..107 arbitrary bytes (NULs allowed) and the unnamed address. Oracle: into_storage + as_ptr give the (bytes, length) the kernel receives; a model of the Linux rules computes what the kernel keeps and the length it reports (sizeof sockaddr_in/in6; offsetof(sun_path)+strlen+1 for pathnames, also tried without the NUL; the passed length for abstract names; offsetof for unnamed); init on those bytes with that length must equal the original; as_ptr length must be exactly the structure size for IP; as_mut_ptr must cover the whole storage. Non-trivial = Unix address, or IPv6 with non-zero flow/scope. Distinct = distinct cases."
    }

    fn assumptions() -> Vec<&'static str> {
        vec!["the kernel-side length rule is modelled from unix(7)/af_unix.c and compared with the real kernel for every address that can be bound in the sandbox (no disagreement so far); the same conversions are exercised against the real kernel by C13's stream and datagram families (bind/local_addr/peer_addr/accept/recv_from over IPv4, IPv6, IPv4-mapped IPv6, Unix path and abstract addresses compared with getsockname/getpeername)"]
    }
}
