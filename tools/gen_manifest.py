#!/usr/bin/env python3
"""Generate /verif/MANIFEST.json from the table below (keeps it valid and consistent)."""
import json, os, subprocess

ROOT = os.path.dirname(os.path.dirname(os.path.abspath(__file__)))

def hook_commits():
    try:
        out = subprocess.run(["git", "-C", "/repo", "log", "--format=%h %s"], capture_output=True, text=True).stdout
        return [l.split()[0] for l in out.splitlines() if "verif hooks" in l]
    except Exception:
        return []

SIM_NOTE = ("Trusted base: the simulated kernel (harness/src/sim, fidelity rules K1-K18 in DESIGN.md section 3), the tracking allocator and the "
            "libc symbol interposition; interleavings only under sequential consistency; bounded search, not absence.")

CHECKS = {
    "C01": dict(
        engine="E1+E2+E3",
        category="exploration",
        text="Generated histories of operations that hand memory to the kernel with drops at every life-cycle point, cancel-race outcomes and EINTR/ECANCELED re-issues; the simulated kernel decodes every user region of each consumed SQE and holds it in a tracking global allocator until the final CQE: a free/realloc overlapping a held region, a region outside live heap/static memory, a moved block or changed source bytes is a violation. One case in five is a multi-completion case (multishot accept, zero-copy send/send_vectored, drops between the two completions, Ring dropped while a notification is outstanding): memory stays put until the kernel's last completion of the request. Operation kinds of the interpreter (29): plain/positional/vectored reads and writes, send/recv with flags, send_to/recv_from and their vectored forms (message header, iovec array, address storage), socket names and get/set socket options (socket commands), statx, connect/bind, path strings (create_dir, remove, rename), waitid and signalfd out-parameters. Not decided here: that the type checker rejects borrowed (non-'static) buffers, which no execution can exhibit (DESIGN.md section 9); operations are also polled after the Ring's drop, and a completion that waits in the queue for an already freed state block is reported before Ring::poll follows it.",
        design_ref="5/C01",
        technique="model-based property testing against a simulated kernel + tracking allocator invariant monitor",
    ),
    "C02": dict(
        engine="E1+E3",
        category="exploration",
        text="Generated histories with several concurrently in-flight operations carrying unique scripted results, completions posted in generated permutations/batches with consumer polls in between; reference model decides for every poll whether Pending or Ready(v) is legal and what v must be. One case in five is a multi-completion case: per-operation FIFO of consumed completions; multishot results in kernel order, once, end exactly once; zero-copy sends resolve only after the notification with the first completion's value; Ring::pollable of a second ring supplies a multishot operation whose results are indistinguishable from each other (none may be lost or merged). A kernel adversary overwrites every free completion slot the moment a10 publishes a new head (a result taken from a slot given back too early is a wrong result).",
        design_ref="5/C02",
        technique="model-based property testing (reference model of per-operation result delivery)",
    ),
    "C03": dict(
        engine="E1+E3",
        category="exploration",
        text="C03a quiescence check after every Ring::poll in generated single-thread histories (counting wakers, replaced wakers, over-subscribed 1..4-entry queues): no operation is ready-but-unwoken, operations waiting for queue space are woken once slots are free. Liveness is decided in this safety form only. C03b (2 of 5 cases): submitter threads and the Ring thread interleaved by a baton scheduler at a10's lock/atomic points and every simulated system call; afterwards an executor that re-polls only woken operations must finish everything, first without any completion (queue-space wake-ups), then with completions. Schedules are per-point choice tapes or (half of the cases) PCT priority schedules with up to 3 change points, i.e. long uninterrupted runs with few preemptions; the kernel completes requests between Ring::poll calls or inside the io_uring_enter that consumed them. Replaced wakers alternate between a sibling of the old waker (same data pointer, other vtable, own counter) and a new one.",
        design_ref="5/C03",
        technique="model-based property testing with counting wakers (quiescence invariant after each Ring::poll) + schedule-controlled concurrency testing (generated schedules under a baton scheduler, executor-progress oracle)",
    ),
    "C04": dict(
        engine="E1+E3 (+E4 for the scheduled sub-check)",
        category="exploration",
        text="Generated submission histories over 1..8-entry rings with generated 32-bit start counters (incl. 2^32-k) and deliberate over-subscription; every SQE the simulated kernel consumes is compared (multiset, order, all 64 bytes against an independently written encoding) with what a10 accepted; queue-full must wait, room must accept. C04b (2 of 5 cases): 2..4 submitter threads into a nearly full queue of a default, kernel-thread or single-issuer ring while a poller consumes (or drops the Ring), under the baton scheduler with choice tapes or PCT priority schedules: every consumed entry is a whole submission of exactly one operation, none twice, none missing. The cancellation entry a drop publishes is compared byte for byte (every field it does not use must be zero).",
        design_ref="5/C04",
        technique="model-based property testing (proptest histories) against a simulated io_uring kernel; multiset/byte-exact SQE oracle",
    ),
    "C05": dict(
        engine="E1+E3",
        category="exploration",
        text="Generated completion histories: operation, bookkeeping (user_data 0-3) and F_SKIP completions in generated batches, CQ sizes 2..64, start counters incl. 2^32-k, overflow bursts, unpublished slots poisoned with a plausible completion; oracle: each posted operation CQE is delivered exactly once to its operation, nothing else is delivered, head==tail after Ring::poll. Publication order: the operations completed by one Ring::poll (each woken exactly once, through wakers that share no block) must have been woken in the order of their completions' ring positions.",
        design_ref="5/C05",
        technique="model-based property testing (proptest histories) against a simulated io_uring kernel; exactly-once delivery model + poisoned unpublished slots",
    ),
}

CHECKS.update({
    "C06": dict(
        engine="E1+E2+E3",
        category="exploration",
        text="Generated histories with drops at every life-cycle point x scripted cancel-race outcomes x full/non-full queue: SQEs published by each drop are diffed against the model (exactly one ASYNC_CANCEL for that user_data iff running and room), the operation-state block and resources must be live until / dead after the Ring::poll that consumes the final CQE, never freed twice, nothing live at the end. One case in five is a multi-completion case (drops after some multishot results, between the two completions of a zero-copy send, after the Ring): reclamation exactly once after the final completion, not the first; the owned ReceiveSignals iterator (one operation state reset and reused per item, dropped or taken apart with into_inner at any point). One case in eleven is a composite operation of the C10 driver (state reset and reused from step to step) under a leak / double-free audit. One case in five: C06b, drops racing the completion handler on another thread under the baton scheduler. One history in three ends abruptly: the Ring is dropped with unsubmitted entries and just-dropped futures, without settling polls, and nothing allocated during the history may survive.",
        design_ref="5/C06",
        technique="model-based property testing; cancel-SQE diff oracle + allocation-lifetime oracle from a tracking allocator",
    ),
    "C09": dict(
        engine="E1+E3",
        category="fault_enumeration",
        text="Per operation a scripted fault sequence {EINTR,ECANCELED}^k (k<=3) before a final outcome; the kernel must see k+1 byte-identical SQEs, the future never shows the fault, the result is the last attempt's and contains no bytes scribbled by interrupted attempts. One history in four runs on a direct descriptor (the re-issue must carry IOSQE_FIXED_FILE like the original); multishot, zero-copy and ReceiveSignals operations are interrupted in the multi-completion driver.",
        design_ref="5/C09",
        technique="fault-injection property testing (generated fault sequences through the simulated kernel)",
    ),
})

CHECKS.update({
    "C14": dict(
        engine="E5 pure-function PBT",
        category="exploration",
        text="Every provided Buf/BufMut/BufSlice/BufMutSlice implementation and wrapper (incl. arrays/tuples of arity 1..8 with mixed element types and nested LimitedBuf) over generated contents, capacities, fill levels, n and boundary-heavy limits in the whole usize range; laws checked against a model that knows each buffer's allocation bounds. One case in eleven: a ReadBuf (pool buffer filled by the simulated kernel), bare and under a LimitedBuf, at generated fill levels after truncate / set_init / extend_from_slice. A limited read into a pool ReadBuf that has no buffer yet must not let more than the limit arrive.",
        design_ref="5/C14",
        technique="property-based testing of trait laws against an allocation-bounds model (proptest)",
        note="No ring involved except for the ReadBuf cases (simulated kernel fills the pool buffer). Trusted: the harness' own bookkeeping of allocation bounds; SkipBuf/ReadNBuf (crate-private) are covered through C10, ReadBuf's editing API by C15.",
    ),
    "C16": dict(
        engine="E5 pure-function PBT",
        category="exploration",
        text="All IPv4/IPv6/either-family addresses and Unix pathname/abstract/unnamed addresses: into_storage + as_ptr -> model of what Linux keeps and which length it reports (with and without the trailing NUL, and length 0 for no address) -> init must return the original; pointer/length pairs must stay inside the storage and have the family's structure size for IP. The same round trip also runs through the real kernel where the address can be bound here (bind(2)/getsockname(2) on a fresh socket with the bytes and length a10 passes; about 60 % of the cases): what the kernel reports, with the length it reports, must decode to the address; the kernel's answers are compared with the length model.",
        design_ref="5/C16",
        technique="round-trip property-based testing through a model of the kernel's address-length rules and, where the address can be bound, through the real kernel (bind/getsockname); differential check of the model against the kernel",
        note="Trusted: the model of the Linux address-length rules (unix(7), af_unix.c), cross-checked on real sockets by the C13/C16b differential where registered.",
    ),
})

CHECKS.update({
    "C10": dict(
        engine="E1 + composite driver",
        category="exploration",
        text="Generated buffer shapes (1..8 buffers of every carrier type, empties anywhere, LimitedBuf; pool ReadBufs fresh or partly filled for read_n/recv_n; one case in eight with buffers over reserved, never touched address space with lengths up to 2^32-1, destinations beyond, totals up to 32 GiB, judged by an (address, length) span oracle), targets, offsets, flag subsets, zero-copy, extract, and a generated sequence of short transfer sizes per request; the simulated kernel's accepted/delivered byte stream is the oracle for all-or-error, offsets/flags/opcode of every continuation, WriteZero/UnexpectedEof conditions and buffer identity. The script of a request may also be a kernel error (ten errnos; zero-copy with or without notification) or an interruption (-EINTR/-ECANCELED): the composite must fail with exactly that error and submit nothing more; an interrupted request must be re-issued bit for bit.",
        design_ref="5/C10",
        technique="property-based testing with a scripted short-transfer kernel and a byte-stream oracle",
    ),
})

CHECKS.update({
    "C15": dict(
        engine="E1 + pool driver",
        category="exploration",
        text="A pool buffer filled by the simulated kernel (slot varied by earlier reads, pool memory canaried) undergoes a generated edit sequence (truncate, clear, remove with every range form incl. overflowing bounds, set_len, extend_from_slice, spare_capacity_mut writes, re-reads) compared call by call with a capacity-limited byte vector; canaries of all other slots and the released slot identity are checked. Every other case gives the edited buffer back by dropping it instead of calling release().",
        design_ref="5/C15",
        technique="differential property-based testing against a reference byte-vector model with canaries",
    ),
})

CHECKS.update({
    "C08": dict(
        engine="E1 + pool history driver",
        category="exploration",
        text="Generated pool histories (pools of 1..64 buffers; single-shot/multishot pool reads and receives started, completed with kernel-selected buffers, dropped in flight; ReadBufs edited, released twice, dropped, dropped on another thread, re-read into; pool handles cloned) against an ownership model bid -> Kernel | InCompletion | Owned; ring entries must be well formed, never name an owned buffer, never repeat; ReadBuf bytes never change underneath; every buffer is offered again at the end; plus > 65 536 release cycles for the 16-bit tail wrap. C08b (1 of 4 cases): concurrent releases from 1..3 threads and 0..4 kernel buffer selections interleaved by the baton scheduler at the pool lock and ring-tail load/store points; the kernel never gets an owned buffer or one twice and every released buffer is offered exactly once. Also: vectored re-reads into an owned buffer (the request must stay inside the buffer's own slot) and ReadBufPool::new with the registration refused (fails with that error, nothing allocated or registered afterwards).",
        design_ref="5/C08",
        technique="stateful model-based property testing (ownership model of provided buffers) over a simulated kernel + schedule-controlled concurrency testing of concurrent releases against a kernel actor",
    ),
})

CHECKS.update({
    "C07": dict(
        engine="E1+E2 + descriptor history driver",
        category="exploration",
        text="Generated histories of descriptor-creating operations (regular and direct, incl. Signals::to_direct_descriptor over a real signalfd), explicit closes and drops on 1..8-entry rings; a close ledger fed by CLOSE SQEs, REGISTER_FILES_UPDATE(-1) and the interposed close(2) must show exactly one close per owned descriptor through a path matching its kind, no foreign close, never 0-2; every descriptor the simulated kernel returns must be wrapped by exactly one AsyncFd of the requested kind and number.",
        design_ref="5/C07",
        technique="stateful model-based property testing with a close ledger (simulated kernel + libc close interposition)",
    ),
})

CHECKS.update({
    "C18": dict(
        engine="E1+E2+E8 fault enumeration driver",
        category="fault_enumeration",
        text="Generated configurations crossed with the complete refusal-point list (setup errnos, each required feature bit missing singly and in pairs, mmap #1-#3 failing, madvise after each mmap failing, REGISTER_FILES2 failing, no fault): on Err nothing is left behind (descriptor closed once, each mapping unmapped once, no heap block, descriptor table unchanged) and the error is the injected one; on Ok the io_uring_params encode exactly the request and the ring works with exactly the granted queue sizes. The direct-descriptor registration is refused with seven different errnos (EINTR and ETIME among them).",
        design_ref="5/C18",
        technique="fault-injection enumeration (complete refusal list per generated configuration) with resource-ledger oracles",
    ),
})

CHECKS.update({
    "C12": dict(
        engine="E1+E2+E3",
        category="exploration",
        text="Generated histories (one in seven with a completion queue of 1..4 entries and 3..14 running operations, so that the cancellations of the Ring's drop overflow it; one in five on a direct descriptor) ending in a generated permutation of dropping {Ring, queue handles, AsyncFd, every future (unpolled/blocked/queued/running/abandoned/finished), ReadBufPool, ReadBufs}, some drops on a helper thread, then wake(): no panic, ring mappings unmapped exactly once with the right length, ring descriptor closed once and last, Ring drop submits/cancels/reclaims, pool memory never freed while registered, no descriptor, registration, heap block or waker clone left behind. Rings include single_issuer+defer_task_run ones (simulator K13: task-work completions visible only in enter(GETEVENTS)) and requests completing inline during the Ring's drop flush. One case in eight is a multi-completion case (multishot accept / poll / signal iterator, zero-copy sends) with the Ring dropped inside the history, futures polled and dropped afterwards: abandoned operations' state and buffers live until, and freed exactly once after, the consumption of their last completion; nothing the kernel holds is freed. Teardown histories optionally poll every remaining future right after the Ring's drop: nothing published, no panic, only operations whose final completion the Ring consumed resolve.",
        design_ref="5/C12",
        technique="model-based property testing with generated teardown permutations; mmap/close ledger (libc interposition) and allocation-tracker oracles",
    ),
})

CHECKS.update({
    "C17": dict(
        engine="E1+E2 + inotify driver",
        category="exploration",
        text="A real Watcher (real inotify descriptor and watches) whose READs are answered by the simulated kernel with generated record batches (names 0..255 bytes, kernel and extra padding, all mask bits, unknown wds, one directory optionally renamed and watched again (one descriptor, two paths) or removed, created and watched again (one path, two descriptors), IGNORED/OVERFLOW records, every batching that keeps records whole, empty reads, errors, canaries behind the data) plus a retention plan for yielded events; the yielded sequence must equal the model and every retained event must stay unchanged inside its live allocation. Optionally a further directory or file is watched through the Events iterator itself after k yields; a hook point at the head of a10's decoding loop bounds the rounds of one poll_next call (a call that stops advancing is a violation, not a hang).",
        design_ref="5/C17",
        technique="property-based testing of a stream decoder against a record model, with allocation-liveness checks on retained references",
    ),
})

CHECKS.update({
    "C11": dict(
        engine="E1+E4 baton scheduler",
        category="exploration",
        text="Generated programs (poller: Ring::poll(Some(0)) x0..2 then Ring::poll(None); 1..3 waker threads calling wake() once or twice; default, kernel-thread and single-issuer rings; optionally a full submission queue) executed under a baton scheduler with scheduling points at a10's lock/try_lock, kernel-shared loads, tail/head stores and the polling-state swap/fetch_or, following generated choice tapes; oracle over the total order: a wake() that started after the previous poll returned must make the blocking poll return (stuck state = poller parked in enter with no runnable thread); wake() after the Ring is dropped is harmless. Waker threads optionally queue 1..2 operations of their own right before wake(), so that the wake message is not at the head of the queue. Kernel-thread rings may start with the thread asleep; a wake() that is still going round after the step budget while the Ring is alive is a violation.",
        design_ref="5/C11",
        technique="schedule-exploring property-based testing (generated interleavings under a baton scheduler) with a lost-wake-up oracle",
        note="Trusted: simulated kernel (MSG_RING delivery, SQPOLL idle/wake-up protocol), scheduler hook placement; sequential consistency only; bounded liveness (no runnable thread) rather than eventual progress under all fair schedules.",
    ),
})

CHECKS.update({
    "C13": dict(
        engine="E6 real-kernel differential driver + E1 simulated kernel (encoding audit)",
        category="exploration",
        text="Generated argument tuples per operation family executed through a10 on the real io_uring (twin A) and through the corresponding libc call (twin B): file I/O at current position / generated offsets / append mode with lengths incl. 0 and 1..8 vectors, truncate, fallocate, fadvise, fsync, statx; directory trees; every OpenOptions combination; stream and datagram sockets over IPv4, IPv6, Unix path and abstract addresses (bind/listen/connect/accept/local_addr/peer_addr/send/recv flags/vectored/shutdown/send_to/recv_from); socket options in both directions; pipes; socket creation; regular and direct descriptors. Compared: returned counts and bytes, file contents, size, blocks, file position, directory listings, F_GETFL/F_GETFD, addresses as getsockname/getpeername report them, option values, success vs failure and errno inside an allow-list. Second oracle (C13b, about 22 % of the cases, simulated kernel): the request each of 28 operations submits for generated arguments and builder calls (offsets, every subset of the send/recv flag constants, zero copy, splice flags, allocate modes, advice, statx interest, wait options, address families, descriptor kind regular/direct) is compared field by field, together with the iovecs, msghdr and socket address bytes it points at, with an encoding table written from io_uring_enter(2) / liburing's prep helpers; the request is failed and the future must return exactly that error.",
        design_ref="5/C13",
        technique="differential testing of generated argument tuples against the libc system call on twin fixtures (real kernel), plus property-based audit of the submitted request against an independent encoding table (simulated kernel)",
    ),
})

NOT_YET = {
}

def main():
    checks = []
    for pid in sorted(CHECKS):
        c = CHECKS[pid]
        checks.append({
            "property_id": pid,
            "quick_cmd": f"./run {pid} quick",
            "thorough_cmd": f"./run {pid} thorough",
            "evidence_file": f"/verif/evidence/{pid}.json",
            "replay_cmd_template": f"./run {pid} --replay {{path}}",
            "engine": c["engine"],
            "level_claimed": {"category": c["category"], "text": c["text"], "design_ref": c["design_ref"]},
            "level_note": c.get("note", SIM_NOTE),
            "technique": c["technique"],
        })
    all_ids = [f"C{i:02d}" for i in range(1, 19)]
    na = []
    for pid in all_ids:
        if pid not in CHECKS:
            na.append({"property_id": pid, "reason": NOT_YET.get(pid, "check not registered yet in this commit (machinery under construction; the technique applies, see DESIGN.md section 5)")})
    manifest = {
        "version": 1,
        "setup_cmd": "./run build",
        "hooks": {
            "guard": "a10_verif",
            "enable": "RUSTFLAGS=\"--cfg a10_verif\" (set by ./run and harness/.cargo/config.toml); Cargo.toml only gains a [lints.rust] check-cfg entry",
            "baseline_off_cmd": "cd /repo && cargo test --workspace --no-fail-fast --offline",
            "source_commits": hook_commits(),
            "add_only": True,
        },
        "engines": [
            {"name": "E1 simulated kernel", "path": "harness/src/sim", "serves_properties": ["C01", "C02", "C03", "C04", "C05", "C06", "C07", "C08", "C09", "C10", "C11", "C12", "C15", "C17", "C18"], "kind_free_text": "in-process io_uring implementation under a10 (memfd-backed rings, scripted completions) reached through the cfg(a10_verif) syscall table"},
            {"name": "E2 memory/descriptor monitors", "path": "harness/src/track.rs, harness/src/shims.rs", "serves_properties": ["C01", "C06", "C07", "C12", "C18"], "kind_free_text": "tracking global allocator + interposed close/mmap/munmap/madvise"},
            {"name": "E3 history interpreter", "path": "harness/src/interp", "serves_properties": ["C01", "C02", "C03", "C04", "C05", "C06", "C09"], "kind_free_text": "executes generated histories against a10 and a reference model in lock-step"},
            {"name": "runner", "path": "harness/src/runner.rs", "serves_properties": all_ids, "kind_free_text": "proptest TestRunner with fixed seed, shard worker processes, shrinking to replay files, evidence"},
        ],
        "checks": checks,
        "not_applicable": na,
        "notes": "All checks are generated-input search (proptest, fixed seed from VERIF_SEED) against explicit oracles; the thorough tier first repeats the quick-size search against a10 built with debug assertions and overflow checks (flavour D, cargo profile 'checked') and afterwards adds a coverage-guided libFuzzer stage over the same strategies, drivers and oracles (harness/fuzz) (both not for C13); exit 0 held / 1 VIOLATION / 2 infrastructure. Known findings: KNOWN_FINDINGS.txt.",
    }
    with open(os.path.join(ROOT, "MANIFEST.json"), "w") as f:
        json.dump(manifest, f, indent=1)
        f.write("\n")

if __name__ == "__main__":
    main()
