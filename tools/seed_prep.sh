#!/bin/sh
# Prepare a scratch worktree and the brief for a seeding sub-agent.
# usage: seed_prep.sh <property-id> [suffix]   -> /tmp/seed-<id><suffix>
id=$1; sfx=$2; name=$id$sfx
git -C /repo worktree add --detach /tmp/seed-$name HEAD >/dev/null 2>&1 || exit 2
cp /verif/tools/runtests.py /tmp/runtests.py
python3 - "$id" "$name" <<'PY'
import json,sys
pid,name=sys.argv[1],sys.argv[2]
for l in open('/verif/properties.jsonl'):
    d=json.loads(l)
    if d['id']==pid:
        a=d['anchors']
        t=f"{d['id']} — {d['title']}\n\nStatement: {d['statement']}\n\nQuantifier: {d['quantifier']['text']}\n\nWhy the existing tests cannot settle it: {d['why_tests_cant']}\n\nAnchors (files): {', '.join(a['files'])}\nMechanisms:\n"+''.join(f"  - {m['name']} ({m['where']})\n" for m in a['mechanism'])
        open(f'/tmp/prop-{name}.txt','w').write(t)
s=open('/verif/tools/seed-brief.txt').read().replace('PID',name)
open(f'/tmp/seed-brief-{name}.txt','w').write(s)
PY
echo /tmp/seed-brief-$name.txt
