//! Counting wakers.

use std::sync::Arc;
use std::sync::atomic::{AtomicU64, Ordering};
use std::task::{Wake, Waker};

pub struct CountWaker {
    pub wakes: AtomicU64,
}

impl Wake for CountWaker {
    fn wake(self: Arc<Self>) {
        self.wakes.fetch_add(1, Ordering::SeqCst);
        // An executor thread parked (under the baton scheduler) for this task.
        crate::sched::notify(crate::sched::Reason::Token(Arc::as_ptr(&self) as u64));
    }
    fn wake_by_ref(self: &Arc<Self>) {
        self.wakes.fetch_add(1, Ordering::SeqCst);
        crate::sched::notify(crate::sched::Reason::Token(Arc::as_ptr(self) as u64));
    }
}

#[derive(Clone)]
pub struct WakerHandle {
    pub cell: Arc<CountWaker>,
    pub waker: Waker,
}

impl WakerHandle {
    pub fn new() -> WakerHandle {
        let cell = Arc::new(CountWaker { wakes: AtomicU64::new(0) });
        let waker = Waker::from(cell.clone());
        WakerHandle { cell, waker }
    }
    /// Scheduler token notified by every wake of this waker.
    pub fn token(&self) -> u64 {
        Arc::as_ptr(&self.cell) as u64
    }
    pub fn wakes(&self) -> u64 {
        self.cell.wakes.load(Ordering::SeqCst)
    }
    /// Number of clones of the waker held by others (the tested code).
    pub fn foreign_refs(&self) -> usize {
        // One for `cell`, one for `waker`.
        Arc::strong_count(&self.cell).saturating_sub(2)
    }
}
