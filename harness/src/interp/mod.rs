//! E3: history interpreter + reference model.
//!
//! Executes a generated `History` against real a10 objects on top of the
//! simulated kernel and, in lock-step, against a small reference model. The
//! oracles of several properties live here; each property driver enables its
//! own (`Oracles`), so a check only ever alarms for the property it decides.

use std::collections::{BTreeMap, BTreeSet};
use std::task::{Context, Poll};
use std::time::Duration;

use serde::{Deserialize, Serialize};

use crate::abi::{self, Cqe, Sqe};
use crate::common::{Ctx, pick_index};
use crate::runner::catch;
use crate::sim::{self, EnterInfo, SimEvent, SimRing};
use crate::track;

pub mod ops;
pub mod waker;
pub mod world;

use ops::{DynFut, Fault, OpKind, OpState, Out, Outcome};
use waker::WakerHandle;
use world::{RingCfg, World};

#[derive(Clone, Debug, Serialize, Deserialize)]
pub struct History {
    pub cfg: RingCfg,
    pub steps: Vec<Step>,
    /// Generated teardown order (C12); `None` = default order.
    #[serde(default)]
    pub teardown: Option<Teardown>,
}

/// Teardown(pi): a generated permutation of dropping every object of the
/// history, some on a helper thread.
#[derive(Clone, Debug, Serialize, Deserialize, Default)]
pub struct Teardown {
    /// Priority per object (objects are numbered Ring, queue handles,
    /// descriptor, operations, pool, pool buffers); lower drops first.
    pub priorities: Vec<u16>,
    /// Drop the k-th object on a helper thread.
    pub on_thread: Vec<bool>,
    /// Additional SubmissionQueue clones.
    pub extra_sq: u8,
    /// A ReadBufPool of 2^log2 buffers with `bufs` ReadBufs held.
    pub pool: Option<(u8, u8)>,
    /// Call wake() on a surviving queue handle after the Ring is gone.
    pub wake_after: bool,
    /// Requests consumed by the submit-only flush of the Ring's drop complete
    /// inline (their completion is visible before the final poll).
    #[serde(default)]
    pub inline_on_flush: bool,
    /// The kernel refuses to unregister the pool's buffer ring (EEXIST, as a
    /// single-issuer ring does for a call from another thread).
    #[serde(default)]
    pub refuse_unregister: bool,
    /// Right after the Ring was dropped every remaining future is polled
    /// once: nothing may be published, nothing may panic, and only an
    /// operation whose final completion the Ring consumed may resolve.
    #[serde(default)]
    pub poll_after_ring: bool,
}

#[derive(Clone, Debug, Serialize, Deserialize)]
pub enum Step {
    /// Create an operation (not yet polled).
    Start { kind: OpKind, faults: Vec<Fault>, outcome: Outcome },
    /// Poll operation `op` (index mapped onto the live operations).
    Poll { op: u16, fresh_waker: bool },
    /// Drop operation `op`; `cancel` scripts how the kernel answers the
    /// cancellation request this may cause.
    DropOp { op: u16, cancel: CancelChoice },
    /// One kernel action outside of any system call.
    Kernel(KAct),
    /// `Ring::poll`; `inline` kernel actions run inside `io_uring_enter`
    /// (after consumption), `block` asks for `poll(None)` when the model knows
    /// a completion is deliverable.
    RingPoll { inline: Vec<KAct>, block: bool },
}

#[derive(Copy, Clone, Debug, Serialize, Deserialize, PartialEq, Eq)]
pub enum CancelChoice {
    Wins,
    Already,
    NotFound,
}

#[derive(Clone, Debug, Serialize, Deserialize)]
pub enum KAct {
    /// Post the next scripted completion of operation `op`.
    Complete { op: u16 },
    /// Post a bookkeeping completion (user_data 0..=3).
    Book { ud: u8, res: i32, flags: u8 },
    /// Post a padding entry (IORING_CQE_F_SKIP) carrying garbage.
    Skip { garbage: u64, res: i32 },
    /// Flush the overflow list if there is room.
    Flush,
    /// SQPOLL kernel thread consumes what is published.
    SqpollConsume,
    /// SQPOLL kernel thread goes idle (NEED_WAKEUP).
    SqpollIdle,
    /// Inside `io_uring_enter` only: the call fails with the `errno`-th errno
    /// of [`ENTER_ERRNOS`] instead of waiting (whatever the earlier actions of
    /// the same call posted stays posted: task work runs on the way out of a
    /// system call whatever it returns) (K18).
    FailEnter { errno: u8 },
}

/// Errors `io_uring_enter(GETEVENTS)` can report from its wait
/// (io_uring_enter(2): EBADR completions were dropped, EAGAIN/EBUSY/ENOMEM
/// resource shortage).
pub const ENTER_ERRNOS: &[i32] = &[libc::EBADR, libc::EAGAIN, libc::EBUSY, libc::ENOMEM];

/// Which oracles are active.
#[derive(Copy, Clone, Debug, Default)]
pub struct Oracles {
    /// C01: memory handed to the kernel stays put.
    pub c01: bool,
    /// C02: own result, once, in order.
    pub c02: bool,
    /// C03a: quiescence (no ready-but-unwoken operation after Ring::poll).
    pub c03: bool,
    /// C04a: accepted == consumed, byte-exact, FIFO; queue-full waits.
    pub c04: bool,
    /// C05: completion queue consumption.
    pub c05: bool,
    /// C06: cancel targeting and reclamation.
    pub c06: bool,
    /// C09: restart transparency.
    pub c09: bool,
    /// C12: teardown in any order.
    pub c12: bool,
}

#[derive(Copy, Clone, Debug, PartialEq, Eq)]
enum Phase {
    /// a10 status NotStarted (never polled, or polled while the queue was full).
    NotSubmitted,
    /// An SQE of the current attempt was published.
    Submitted,
    /// The future returned Ready.
    Finished,
    /// The future was dropped.
    Dropped,
}

struct MOp {
    st: OpState,
    fut: Option<Box<dyn DynFut>>,
    faults: Vec<Fault>,
    outcome: Outcome,
    phase: Phase,
    user_data: u64,
    /// Number of SQEs published for this op.
    attempts: usize,
    /// SQE as published per attempt (from the ring slot).
    published: Vec<Sqe>,
    /// Simulator serial of the current attempt once the kernel consumed it.
    serial: Option<u64>,
    /// Final CQE of the current attempt: sequence number, is-fault.
    final_seq: Option<u64>,
    final_is_fault: bool,
    final_skipped: bool,
    /// a10 has consumed (processed) the final CQE of the current attempt.
    final_consumed: bool,
    waker: WakerHandle,
    wakes_at_poll: u64,
    /// The last poll returned Pending because the queue was full.
    blocked: bool,
    polled: bool,
    /// Tracker serial of the block holding the operation state.
    state_serial: Option<u64>,
    resource_serial: Option<u64>,
    dropped_while_running: bool,
    submit_order: u64,
    /// Wakers registered for queue space by earlier polls of this (still
    /// blocked) operation that were since replaced: (waker, wakes at poll).
    stale_blocked: Vec<(WakerHandle, u64)>,
}

pub struct Exec<'a> {
    pub world: World,
    /// The history ends with the Ring dropped as is (no settling polls).
    pub abrupt_end: bool,
    ops: Vec<MOp>,
    by_user_data: BTreeMap<u64, usize>,
    by_serial: BTreeMap<u64, usize>,
    events_seen: usize,
    pub oracles: Oracles,
    pub ctx: &'a mut Ctx,
    fd: usize,
    /// CQE sequence numbers a10 has consumed.
    consumed_seqs: BTreeSet<u64>,
    /// Order in which accepted submissions were published (op ids).
    accepted: Vec<(usize, Sqe)>,
    consumed_sqes: Vec<Sqe>,
    // Feature flags for the fingerprint.
    pub feats: BTreeSet<String>,
    stop: bool,
    /// Scripted answers to cancellation requests, keyed by target user_data.
    cancel_script: std::sync::Arc<std::sync::Mutex<BTreeMap<u64, CancelChoice>>>,
    submit_order: u64,
    pool: Option<a10::io::ReadBufPool>,
    readbufs: Vec<a10::io::ReadBuf>,
    extra_sq: Vec<a10::SubmissionQueue>,
}

struct ExecPtr(*mut ());
unsafe impl Send for ExecPtr {}

static C05_VICTIM: std::sync::atomic::AtomicU64 = std::sync::atomic::AtomicU64::new(0);
static C05_RING: std::sync::atomic::AtomicI32 = std::sync::atomic::AtomicI32::new(-1);

/// Called by a10 (cfg a10_verif) at its scheduling points while the C05
/// check runs Ring::poll: the kernel re-uses every slot outside the published
/// [head, tail) at any time (K4).
fn c05_head_store_adversary(_point: a10::verif::Point, _addr: usize) {
    // Not only after the hooked head store: at every scheduling point inside
    // Ring::poll (each completion locks its operation), so that a head
    // published by any other store is honoured by the kernel as well.
    let _scope = track::scope(track::TAG_HARNESS);
    let fd = C05_RING.load(std::sync::atomic::Ordering::SeqCst);
    let victim = C05_VICTIM.load(std::sync::atomic::Ordering::SeqCst);
    let mut s = sim::sim();
    if let Some(ring) = s.ring(fd) {
        if victim >= 4 {
            ring.scribble_unpublished(Cqe { user_data: victim, res: 0x7A7A_7A7A, flags: 0 });
        } else {
            ring.poison_unpublished(0);
        }
    }
}

const SIG_PANIC: &str = "panic";

impl<'a> Exec<'a> {
    pub fn new(cfg: &RingCfg, oracles: Oracles, ctx: &'a mut Ctx) -> Option<Exec<'a>> {
        let mut world = match World::new(cfg) {
            Ok(w) => w,
            Err(e) => {
                ctx.infra(e);
                return None;
            }
        };
        let fd = world.new_fd();
        let mut direct = false;
        if cfg.direct_slots > 0 && !cfg.sqpoll {
            if let Err(e) = world.make_fd_direct(fd) {
                ctx.infra(e);
                return None;
            }
            direct = true;
        }
        let mut feats = BTreeSet::new();
        if direct {
            feats.insert("direct-descriptor".to_string());
        }
        Some(Exec {
            abrupt_end: false,
            world,
            ops: Vec::new(),
            by_user_data: BTreeMap::new(),
            by_serial: BTreeMap::new(),
            events_seen: sim::events_len(),
            oracles,
            ctx,
            fd,
            consumed_seqs: BTreeSet::new(),
            accepted: Vec::new(),
            consumed_sqes: Vec::new(),
            feats,
            stop: false,
            cancel_script: {
                let script: std::sync::Arc<std::sync::Mutex<BTreeMap<u64, CancelChoice>>> = Default::default();
                let s2 = script.clone();
                sim::sim().cancel_hook = Some(Box::new(move |_ring, req, target| {
                    let choice = s2.lock().unwrap().remove(&req.sqe.addr).unwrap_or(CancelChoice::Wins);
                    match (choice, target) {
                        (_, None) => sim::CancelOutcome::NotFound,
                        (CancelChoice::Wins, Some(_)) => sim::CancelOutcome::Wins,
                        (CancelChoice::Already, Some(_)) => sim::CancelOutcome::Already,
                        (CancelChoice::NotFound, Some(_)) => sim::CancelOutcome::NotFound,
                    }
                }));
                script
            },
            submit_order: 0,
            pool: None,
            readbufs: Vec::new(),
            extra_sq: Vec::new(),
        })
    }

    /// C12 set-up: extra queue handles, a pool with some ReadBufs held.
    fn setup_teardown_objects(&mut self, t: &Teardown) {
        for _ in 0..t.extra_sq.min(3) {
            let sq = self.world.sq();
            self.extra_sq.push(sq);
        }
        let Some((log2, nbufs)) = t.pool else { return };
        let pool_size: u16 = 1 << log2.min(3);
        let pool = {
            let _s = track::scope(track::TAG_A10);
            a10::io::ReadBufPool::new(self.world.sq(), pool_size, 64)
        };
        let Ok(pool) = pool else {
            self.ctx.infra("pool creation failed");
            self.stop = true;
            return;
        };
        // Fill some buffers through pool reads completed inline.
        let hook: sim::EnterHook = Box::new(|ring, info| {
            for s in &info.consumed {
                let Some(req) = ring.req(*s).cloned() else { continue };
                if req.sqe.opcode == abi::OP_READ && req.sqe.flags & abi::IOSQE_BUFFER_SELECT != 0 && !req.done {
                    match ring.select_buffer(req.sqe.buf_group) {
                        Some(e) => {
                            unsafe { std::ptr::write_bytes(e.addr as *mut u8, 0x42, 8.min(e.len as usize)) };
                            ring.complete(*s, 8.min(e.len as i32), abi::CQE_F_BUFFER | ((e.bid as u32) << abi::CQE_BUFFER_SHIFT), false);
                        }
                        None => {
                            ring.complete(*s, -libc::ENOBUFS, 0, false);
                        }
                    }
                }
            }
        });
        sim::sim().enter_hook = Some(hook);
        let afd = self.world.fd(self.fd);
        for _ in 0..(nbufs as u16).min(pool_size) {
            let w = WakerHandle::new();
            let mut fut = {
                let _s = track::scope(track::TAG_A10);
                Box::pin(afd.read(pool.get()))
            };
            for _ in 0..6 {
                let mut cx = Context::from_waker(&w.waker);
                let r = {
                    let _s = track::scope(track::TAG_A10);
                    std::future::Future::poll(fut.as_mut(), &mut cx)
                };
                match r {
                    Poll::Ready(Ok(b)) => {
                        self.readbufs.push(b);
                        break;
                    }
                    Poll::Ready(Err(_)) => break,
                    Poll::Pending => {
                        let _ = self.world.poll_ring(Some(Duration::ZERO));
                    }
                }
            }
            let _s = track::scope(track::TAG_A10);
            drop(fut);
        }
        sim::sim().enter_hook = None;
        self.pool = Some(pool);
        self.events_seen = sim::events_len();
        self.feat("pool");
    }

    fn feat(&mut self, f: impl Into<String>) {
        self.feats.insert(f.into());
    }

    fn violation(&mut self, sig: &str, msg: String) {
        if self.ctx.violation(sig, msg) {
            self.stop = true;
        }
    }

    fn ring_words(&self) -> (u32, u32, u32, u32, u32) {
        let mut s = sim::sim();
        match s.ring(self.world.ring_fd) {
            Some(r) => (r.sq_head_shared(), r.sq_tail(), r.cq_head(), r.cq_tail(), r.sq_entries),
            None => (0, 0, 0, 0, 1),
        }
    }

    fn live_indices(&self, pred: impl Fn(&MOp) -> bool) -> Vec<usize> {
        self.ops.iter().enumerate().filter(|(_, o)| pred(o)).map(|(i, _)| i).collect()
    }

    /// Process new simulator events: consumed SQEs and posted CQEs.
    fn sync_events(&mut self) {
        let events = sim::events_since(self.events_seen);
        self.events_seen += events.len();
        for e in events {
            match e {
                SimEvent::Consumed { serial, sqe, .. } => {
                    self.consumed_sqes.push(sqe);
                    if sqe.user_data >= 4 {
                        if let Some(&i) = self.by_user_data.get(&sqe.user_data) {
                            self.by_serial.insert(serial, i);
                            let op = &mut self.ops[i];
                            if op.serial.is_none() || op.final_seq.is_some() || op.final_skipped {
                                op.serial = Some(serial);
                            } else {
                                // A second SQE for an attempt that is still in flight.
                                let msg = format!("kernel consumed a second submission for operation {i} while its previous attempt is still in flight");
                                if self.oracles.c04 {
                                    self.violation("C04:duplicate-submission", msg);
                                }
                            }
                        } else if self.oracles.c04 {
                            self.violation("C04:unknown-submission", format!("kernel consumed a submission with user_data {:#x} that no accepted operation published: {sqe:?}", sqe.user_data));
                        }
                    }
                }
                SimEvent::Posted { seq, req, cqe, .. } => {
                    if let Some(&i) = self.by_serial.get(&req) {
                        if cqe.flags & abi::CQE_F_MORE == 0 {
                            let op = &mut self.ops[i];
                            if op.serial == Some(req) && op.final_seq.is_none() {
                                op.final_seq = Some(seq);
                                // Posted by the simulator itself (cancel).
                                if cqe.res == -libc::ECANCELED && op.st.expect.is_none() {
                                    op.final_is_fault = true;
                                }
                            }
                        }
                    }
                }
                SimEvent::Skipped { req } => {
                    if let Some(&i) = self.by_serial.get(&req) {
                        self.ops[i].final_skipped = true;
                    }
                }
                _ => {}
            }
        }
        for (sig, msg) in sim::take_violations() {
            let prop = sig.split(':').next().unwrap_or("");
            let enabled = match prop {
                "C01" => self.oracles.c01,
                "C02" => self.oracles.c02,
                _ => false,
            };
            if enabled {
                self.violation(&sig, msg);
            }
        }
        if let Some(u) = sim::take_unsupported() {
            self.ctx.infra(format!("unsupported simulator request: {u}"));
            self.stop = true;
        }
    }

    /// Tracker events (C01 free-while-held, C06 double free).
    fn audit_tracker(&mut self) {
        for e in track::take_events() {
            match e {
                track::Event::FreedWhileHeld { hold, block } => {
                    if hold.what == "op-state" {
                        if self.oracles.c06 || self.oracles.c01 {
                            let p = if self.oracles.c06 { "C06" } else { "C01" };
                            self.violation(&format!("{p}:state-freed-early"), format!("operation state block {:#x} (hold of request {} taken at {:#x}) freed before its final completion was visible to user space", block.addr, hold.id & !(1 << 62), hold.addr));
                        }
                    } else if self.oracles.c01 {
                        self.violation(
                            &format!("C01:freed-while-held:{}", hold.what),
                            format!("block {:#x}+{} freed while the kernel holds {} {:#x}+{} of request {}", block.addr, block.size, hold.what, hold.addr, hold.len, hold.id),
                        );
                    }
                }
                track::Event::ForeignFree { addr, size } => {
                    if self.oracles.c06 || self.oracles.c01 {
                        let p = if self.oracles.c06 { "C06" } else { "C01" };
                        self.violation(&format!("{p}:double-free"), format!("free of {addr:#x} (size {size}) which is not a live block"));
                    }
                }
            }
        }
    }

    /// Update which CQEs a10 has consumed, from the CQ head.
    fn update_consumed(&mut self) {
        let consumed: Vec<(u64, u64)> = {
            let mut s = sim::sim();
            let Some(ring) = s.ring(self.world.ring_fd) else { return };
            let head = ring.cq_head();
            let tail = ring.cq_tail();
            let ready = tail.wrapping_sub(head);
            ring.posted.iter().filter(|p| p.position.is_some_and(|pos| pos.wrapping_sub(head) >= ready)).map(|p| (p.seq, p.req)).collect()
        };
        for (seq, _req) in consumed {
            if self.consumed_seqs.insert(seq) {
                for op in &mut self.ops {
                    if op.final_seq == Some(seq) {
                        op.final_consumed = true;
                    }
                }
            }
        }
    }

    pub fn step(&mut self, step: &Step) {
        if self.stop {
            return;
        }
        if trace_on() {
            let (h, t, ch, ct, _) = self.ring_words();
            eprintln!("STEP {step:?}  [sq {h:#x}..{t:#x} cq {ch:#x}..{ct:#x}]");
        }
        match step {
            Step::Start { kind, faults, outcome } => self.start(kind, faults, outcome),
            Step::Poll { op, fresh_waker } => self.poll(*op, *fresh_waker),
            Step::DropOp { op, cancel } => self.drop_op(*op, *cancel),
            Step::Kernel(act) => {
                self.sync_events();
                let mut s = sim::sim();
                let fd = self.world.ring_fd;
                if let Some(idx) = s.ring_index(fd) {
                    match act {
                        KAct::SqpollConsume => {
                            if s.rings[idx].is_sqpoll() {
                                s.sqpoll_consume(idx);
                            }
                        }
                        KAct::SqpollIdle => {
                            if s.rings[idx].is_sqpoll() {
                                s.sqpoll_go_idle(idx);
                            }
                        }
                        _ => {
                            let ring: *mut SimRing = &mut s.rings[idx];
                            drop(s);
                            // SAFETY: single threaded; the ring is not moved
                            // while we use it (no setup/reset in between).
                            self.kact(unsafe { &mut *ring }, act);
                        }
                    }
                }
                self.sync_events();
            }
            Step::RingPoll { inline, block } => self.ring_poll(inline, *block),
        }
        self.audit_tracker();
    }

    fn start(&mut self, kind: &OpKind, faults: &[Fault], outcome: &Outcome) {
        if self.ops.len() >= 48 {
            self.ctx.skipped_steps += 1;
            return;
        }
        let id = self.ops.len();
        let (st, fut) = OpState::start(id, kind, &mut self.world, self.fd);
        let resource_serial = if st.buf_addr != 0 { track::lookup(st.buf_addr).map(|b| b.serial) } else { None };
        self.feat(format!("k:{}", kind.name()));
        self.ops.push(MOp {
            st,
            fut: Some(fut),
            faults: faults.to_vec(),
            outcome: outcome.clone(),
            phase: Phase::NotSubmitted,
            user_data: 0,
            attempts: 0,
            published: Vec::new(),
            serial: None,
            final_seq: None,
            final_is_fault: false,
            final_skipped: false,
            final_consumed: false,
            waker: WakerHandle::new(),
            wakes_at_poll: 0,
            blocked: false,
            polled: false,
            state_serial: None,
            resource_serial,
            dropped_while_running: false,
            submit_order: 0,
            stale_blocked: Vec::new(),
        });
    }

    fn poll(&mut self, raw: u16, fresh_waker: bool) {
        let candidates = self.live_indices(|o| o.fut.is_some() && matches!(o.phase, Phase::NotSubmitted | Phase::Submitted));
        if candidates.is_empty() {
            self.ctx.skipped_steps += 1;
            return;
        }
        let i = candidates[pick_index(raw, candidates.len())];
        self.poll_index(i, fresh_waker);
    }

    fn poll_index(&mut self, i: usize, fresh_waker: bool) {
        self.sync_events();
        self.update_consumed();
        let (head, tail, _, _, entries) = self.ring_words();
        let full = tail.wrapping_sub(head) >= entries;

        // Prediction.
        #[derive(Debug, PartialEq)]
        enum Predict {
            /// Pending, publishes exactly one SQE.
            Submit,
            /// Pending, publishes nothing, waits for queue space.
            Block,
            /// Pending, nothing published.
            Pending,
            /// Ready with the kernel's result.
            Ready,
        }
        let op = &self.ops[i];
        let predict = match op.phase {
            Phase::NotSubmitted => {
                if full { Predict::Block } else { Predict::Submit }
            }
            Phase::Submitted => {
                if op.final_consumed {
                    if op.final_is_fault {
                        if full { Predict::Block } else { Predict::Submit }
                    } else {
                        Predict::Ready
                    }
                } else {
                    Predict::Pending
                }
            }
            _ => unreachable!(),
        };
        if fresh_waker && op.polled {
            let next = self.ops[i].waker.replacement();
            let old = std::mem::replace(&mut self.ops[i].waker, next);
            if self.ops[i].blocked && self.ops[i].phase == Phase::NotSubmitted {
                let at = self.ops[i].wakes_at_poll;
                self.ops[i].stale_blocked.push((old, at));
                self.feat("blocked-waker-replaced");
            }
            self.feat("waker-replaced");
        }
        let op = &mut self.ops[i];
        op.polled = true;
        op.wakes_at_poll = op.waker.wakes();
        let waker = op.waker.waker.clone();
        let mut cx = Context::from_waker(&waker);
        let fut = op.fut.as_mut().unwrap();
        let result = {
            let _s = track::scope(track::TAG_A10);
            catch(|| fut.poll(&mut cx))
        };
        let (_, tail_after, _, _, _) = self.ring_words();
        let published = tail_after.wrapping_sub(tail);
        if trace_on() {
            eprintln!("   poll op {i}: predicted {predict:?}, got {}, published {published}, wakes {}", match &result { Ok(Poll::Pending) => "Pending".to_string(), Ok(Poll::Ready(o)) => format!("Ready({o:?})"), Err(e) => format!("panic {e:?}") }, self.ops[i].waker.wakes());
        }
        let result = match result {
            Ok(r) => r,
            Err((msg, loc)) => {
                // The future is poisoned: never touch it again (leak it).
                std::mem::forget(self.ops[i].fut.take());
                self.ops[i].phase = Phase::Dropped;
                let sig_prop = self.primary();
                self.violation(&format!("{sig_prop}:{SIG_PANIC}:poll"), format!("polling operation {i} ({}) panicked at {loc}: {msg} (predicted {predict:?})", self.ops[i].st.kind.name()));
                return;
            }
        };

        // Attribute newly published SQEs.
        let mut new_sqes = Vec::new();
        {
            let mut s = sim::sim();
            if let Some(ring) = s.ring(self.world.ring_fd) {
                for k in 0..published.min(8) {
                    new_sqes.push(ring.read_sqe_slot(tail.wrapping_add(k)));
                }
            }
        }
        // (A resource that owns a descriptor closes it wherever a10 drops the
        // operation's resources, e.g. on an error result inside this poll:
        // those closes belong to no operation.)
        let owned: Vec<i32> = self.ops.iter().filter_map(|o| o.st.owned_fd).collect();
        let n_before = new_sqes.len();
        new_sqes.retain(|q| !(q.opcode == abi::OP_CLOSE && q.user_data < 4 && owned.contains(&q.fd)));
        let published = published - (n_before - new_sqes.len()) as u32;
        if published > 1 && self.oracles.c04 {
            self.violation("C04:multiple-sqes-per-poll", format!("one poll published {published} submissions"));
            return;
        }
        if let Some(sqe) = new_sqes.first().copied() {
            self.accepted.push((i, sqe));
            if tail_after < tail {
                self.feat("sq-wrapped");
            }
            self.submit_order += 1;
            let order = self.submit_order;
            let op = &mut self.ops[i];
            op.submit_order = order;
            op.attempts += 1;
            op.published.push(sqe);
            let first = op.attempts == 1;
            if first {
                op.user_data = sqe.user_data;
                op.state_serial = track::lookup((sqe.user_data & !1) as usize).map(|b| b.serial);
                self.by_user_data.insert(sqe.user_data, i);
            } else {
                // New attempt.
                let prev = op.published[op.published.len() - 2];
                self.feat("restart");
                if self.oracles.c09 && prev != sqe {
                    let msg = format!("re-issued submission of operation {i} differs from the original: {prev:?} vs {sqe:?}");
                    self.violation("C09:resubmission-differs", msg);
                }
            }
            let op = &mut self.ops[i];
            op.phase = Phase::Submitted;
            op.serial = None;
            op.final_seq = None;
            op.final_is_fault = false;
            op.final_skipped = false;
            op.final_consumed = false;
            op.st.expect = None;
            op.blocked = false;
            op.stale_blocked.clear();
            // K15: this attempt will be refused at submission time.
            if op.attempts - 1 == op.faults.len() {
                if let ops::Outcome::Refused { idx } = op.outcome {
                    let e = ops::ERRNOS[(idx as usize + op.st.id) % ops::ERRNOS.len()];
                    op.st.expect = Some(ops::Expect::Errno(e));
                    if let Some(ring) = sim::sim().ring(self.world.ring_fd) {
                        ring.prep_refuse.push((sqe.user_data, e));
                    }
                    self.feats.insert("refused-at-submission".into());
                }
            }
            if self.oracles.c04 {
                if sqe.user_data < 4 || sqe.user_data & !1 == 0 {
                    self.violation("C04:bad-user-data", format!("operation submission carries reserved user_data {:#x}", sqe.user_data));
                } else if let Err(e) = self.ops[i].st.check_sqe(&sqe) {
                    self.violation("C04:sqe-encoding", e);
                }
            }
        }

        let primary = self.primary();
        match (&predict, &result) {
            (Predict::Submit, Poll::Pending) => {
                if published != 1 {
                    if self.oracles.c04 {
                        self.violation("C04:not-accepted-with-room", format!("operation {i} polled with room in the queue (tail-head={} of {entries}) but nothing was published", tail.wrapping_sub(head)));
                    }
                    // Model adopts: still not submitted, treated as blocked.
                    self.ops[i].blocked = true;
                }
            }
            (Predict::Block, Poll::Pending) => {
                self.feat("queue-full");
                if published != 0 {
                    if self.oracles.c04 {
                        self.violation("C04:overrun", format!("operation {i} published a submission although the queue was full (tail-head={} of {entries})", tail.wrapping_sub(head)));
                    }
                } else {
                    self.ops[i].blocked = true;
                    self.ops[i].phase = Phase::NotSubmitted;
                }
            }
            (Predict::Pending, Poll::Pending) => {
                if published != 0 && (self.oracles.c04 || self.oracles.c02) {
                    self.violation(&format!("{primary}:spurious-resubmission"), format!("operation {i} published a new submission while its attempt is still in flight"));
                }
            }
            (Predict::Ready, Poll::Ready(out)) => {
                let check = self.ops[i].st.check_output(out);
                self.ops[i].phase = Phase::Finished;
                if let Err(e) = check {
                    if self.oracles.c02 || self.oracles.c05 || self.oracles.c09 {
                        let p = if self.oracles.c02 { "C02" } else if self.oracles.c05 { "C05" } else { "C09" };
                        self.violation(&format!("{p}:wrong-result"), e);
                    }
                }
                // The future is done; drop it now (cheap, no cancel expected).
                self.finish_drop(i);
            }
            (Predict::Ready, Poll::Pending) => {
                if self.oracles.c02 || self.oracles.c05 {
                    let p = if self.oracles.c02 { "C02" } else { "C05" };
                    self.violation(&format!("{p}:lost-result"), format!("operation {i} ({}) still Pending although its final completion (seq {:?}) was consumed by Ring::poll", self.ops[i].st.kind.name(), self.ops[i].final_seq));
                }
            }
            (_, Poll::Ready(out)) => {
                let msg = format!("operation {i} ({}) resolved with {out:?} but the model predicted {predict:?} (final posted: {:?}, consumed: {})", self.ops[i].st.kind.name(), self.ops[i].final_seq, self.ops[i].final_consumed);
                self.ops[i].phase = Phase::Finished;
                if self.oracles.c02 || self.oracles.c05 || self.oracles.c09 {
                    let p = if self.oracles.c02 { "C02" } else if self.oracles.c05 { "C05" } else { "C09" };
                    let sig = match out {
                        Out::Err { raw: Some(e), .. } if *e == libc::EINTR || *e == libc::ECANCELED => format!("{p}:fault-visible"),
                        _ => format!("{p}:made-up-result"),
                    };
                    self.violation(&sig, msg);
                }
                self.finish_drop(i);
            }
        }
    }

    /// Name of the first enabled oracle, used for generic signatures.
    fn primary(&self) -> &'static str {
        let o = &self.oracles;
        if o.c05 {
            "C05"
        } else if o.c04 {
            "C04"
        } else if o.c02 {
            "C02"
        } else if o.c01 {
            "C01"
        } else if o.c06 {
            "C06"
        } else if o.c09 {
            "C09"
        } else if o.c03 {
            "C03"
        } else {
            "C00"
        }
    }

    /// Drop a finished future; nothing may be published.
    fn finish_drop(&mut self, i: usize) {
        let (_, tail, _, _, _) = self.ring_words();
        let fut = self.ops[i].fut.take();
        let r = {
            let _s = track::scope(track::TAG_A10);
            catch(|| drop(fut))
        };
        if let Err((msg, loc)) = r {
            let p = self.primary();
            self.violation(&format!("{p}:{SIG_PANIC}:drop"), format!("dropping finished operation {i} panicked at {loc}: {msg}"));
            return;
        }
        let (_, tail_after, _, _, _) = self.ring_words();
        if tail_after != tail && self.oracles.c06 {
            self.violation("C06:cancel-after-finish", format!("dropping finished operation {i} published {} submissions", tail_after.wrapping_sub(tail)));
        }
        self.check_reclaimed(i, "after the future returned Ready and was dropped");
    }

    fn check_reclaimed(&mut self, i: usize, when: &str) {
        if !self.oracles.c06 {
            return;
        }
        let op = &self.ops[i];
        if let Some(serial) = op.state_serial {
            let addr = (op.user_data & !1) as usize;
            if track::lookup(addr).is_some_and(|b| b.serial == serial) {
                self.violation("C06:state-leaked", format!("operation {i} ({}) state block {addr:#x} still allocated {when}", self.ops[i].st.kind.name()));
            }
        }
    }

    fn check_still_live(&mut self, i: usize, when: &str) {
        if !(self.oracles.c06 || self.oracles.c01) {
            return;
        }
        let op = &self.ops[i];
        if let Some(serial) = op.state_serial {
            let addr = (op.user_data & !1) as usize;
            if !track::lookup(addr).is_some_and(|b| b.serial == serial) {
                let p = if self.oracles.c06 { "C06" } else { "C01" };
                self.violation(&format!("{p}:state-freed-early"), format!("operation {i} state block {addr:#x} was freed {when}"));
            }
        }
        let op = &self.ops[i];
        if let Some(serial) = op.resource_serial {
            if self.oracles.c01 && !track::lookup(op.st.buf_addr).is_some_and(|b| b.serial == serial) {
                self.violation("C01:buffer-freed-early", format!("operation {i} ({}) buffer {:#x} was freed {when}", self.ops[i].st.kind.name(), self.ops[i].st.buf_addr));
            }
        }
    }

    fn drop_op(&mut self, raw: u16, cancel: CancelChoice) {
        let candidates = self.live_indices(|o| o.fut.is_some());
        if candidates.is_empty() {
            self.ctx.skipped_steps += 1;
            return;
        }
        let i = candidates[pick_index(raw, candidates.len())];
        self.sync_events();
        self.update_consumed();
        let (head, tail, _, _, entries) = self.ring_words();
        let full = tail.wrapping_sub(head) >= entries;
        let op = &self.ops[i];
        // a10 believes the operation is running iff a submission was
        // published and the final completion has not been processed.
        let running = op.phase == Phase::Submitted && !op.final_consumed;
        let point = match (op.phase, op.serial.is_some(), op.final_seq.is_some() || op.final_skipped, op.final_consumed) {
            (Phase::NotSubmitted, ..) => {
                if op.polled { "blocked" } else { "unpolled" }
            }
            (Phase::Submitted, false, ..) => "queued",
            (Phase::Submitted, true, false, _) => "inflight",
            (Phase::Submitted, true, true, false) => "final-posted",
            (Phase::Submitted, true, true, true) => "final-consumed",
            _ => "other",
        };
        self.feat(format!("drop@{point}"));
        if point == "blocked" && self.ops[i].blocked {
            let h = self.ops[i].waker.clone();
            let at = self.ops[i].wakes_at_poll;
            self.ops[i].stale_blocked.push((h, at));
            self.ops[i].blocked = false;
            self.feat("blocked-op-dropped");
        }
        if running {
            self.cancel_script.lock().unwrap().insert(self.ops[i].user_data, cancel);
        }
        let fut = self.ops[i].fut.take();
        let r = {
            let _s = track::scope(track::TAG_A10);
            catch(|| drop(fut))
        };
        self.ops[i].phase = Phase::Dropped;
        if let Err((msg, loc)) = r {
            let p = self.primary();
            self.violation(&format!("{p}:{SIG_PANIC}:drop"), format!("dropping operation {i} at {point} panicked at {loc}: {msg}"));
            return;
        }
        let (_, tail_after, _, _, _) = self.ring_words();
        let published = tail_after.wrapping_sub(tail);
        let mut new_sqes = Vec::new();
        {
            let mut s = sim::sim();
            if let Some(ring) = s.ring(self.world.ring_fd) {
                for k in 0..published.min(8) {
                    new_sqes.push(ring.read_sqe_slot(tail.wrapping_add(k)));
                }
            }
        }
        // (A resource that owns a descriptor closes it when a10 drops the
        // resources: not part of the cancellation protocol.)
        if let Some(owned) = self.ops[i].st.owned_fd {
            new_sqes.retain(|q| !(q.opcode == abi::OP_CLOSE && q.fd == owned));
        }
        if self.oracles.c06 || self.oracles.c04 {
            let cp = if self.oracles.c06 { "C06" } else { "C04" };
            let ud = self.ops[i].user_data;
            if running && !full {
                let ok = new_sqes.len() == 1 && {
                    let s = &new_sqes[0];
                    let mut want = Sqe::zeroed();
                    want.opcode = abi::OP_ASYNC_CANCEL;
                    want.addr = ud;
                    want.user_data = 2;
                    want.flags = abi::IOSQE_CQE_SKIP_SUCCESS;
                    *s == want
                };
                if !ok {
                    self.violation(&format!("{cp}:cancel-missing-or-wrong"), format!("dropping running operation {i} (user_data {ud:#x}, {point}) with room in the queue published {new_sqes:?}; expected exactly one ASYNC_CANCEL targeting it, every other byte of the entry zero"));
                }
            } else if !new_sqes.is_empty() {
                let why = if running { "the queue was full" } else { "the operation was not running" };
                self.violation(&format!("{cp}:unexpected-cancel"), format!("dropping operation {i} ({point}) published {new_sqes:?} although {why}"));
            }
        }
        if running {
            self.ops[i].dropped_while_running = true;
            self.feat("dropped-while-running");
            if !full {
                self.feat(format!("cancel:{cancel:?}"));
            }
            if full {
                self.feat("drop-with-full-queue");
            }
            self.check_still_live(i, "when its future was dropped while the operation was still running");
        } else {
            self.check_reclaimed(i, "after dropping a future whose operation was not running");
        }
    }

    /// The kernel posts the scripted completion of the current attempt of
    /// operation `i`.
    fn complete_index(&mut self, ring: &mut SimRing, i: usize) {
        let serial = self.ops[i].serial.unwrap();
        let Some(req) = ring.req(serial).cloned() else {
            self.ctx.skipped_steps += 1;
            return;
        };
        if req.done {
            return;
        }
        let attempt = self.ops[i].attempts - 1;
        let op = &mut self.ops[i];
        let (res, flags, is_fault) = if attempt < op.faults.len() {
            op.st.kernel_interrupt(&req);
            (-op.faults[attempt].errno(), 0, true)
        } else {
            match op.st.kernel_complete(&req, &op.outcome.clone()) {
                Ok((res, flags)) => (res, flags, false),
                Err(e) => {
                    let (sig, msg) = e.split_once(": ").unwrap_or((&e, ""));
                    let (sig, msg) = (sig.to_string(), msg.to_string());
                    // Complete with an error so the model stays in step.
                    let e = libc::EFAULT;
                    op.st.expect = Some(ops::Expect::Errno(e));
                    if self.oracles.c01 {
                        self.violation(&sig, format!("operation {i}: {msg}"));
                    }
                    (-e, 0, false)
                }
            }
        };
        if is_fault {
            self.feat("fault");
        }
        let my_order = self.ops[i].submit_order;
        if self.ops.iter().any(|o| o.phase == Phase::Submitted && o.serial.is_some() && o.final_seq.is_none() && !o.final_skipped && o.submit_order < my_order) {
            self.feat("out-of-order");
        }
        let seq = ring.complete(serial, res, flags, false);
        let op = &mut self.ops[i];
        op.final_is_fault = is_fault;
        match seq {
            Some(seq) => op.final_seq = Some(seq),
            None => op.final_skipped = true,
        }
        if op.phase == Phase::Dropped {
            self.feat("completed-after-drop");
        }
    }

    /// Execute one kernel action on `ring` (the simulator lock may be held by
    /// the caller: nothing in here locks it).
    fn kact(&mut self, ring: &mut SimRing, act: &KAct) {
        match act {
            KAct::Complete { op } => {
                let candidates = self.live_indices(|o| o.phase != Phase::NotSubmitted && o.serial.is_some() && o.final_seq.is_none() && !o.final_skipped);
                if candidates.is_empty() {
                    self.ctx.skipped_steps += 1;
                    return;
                }
                let i = candidates[pick_index(*op, candidates.len())];
                self.complete_index(ring, i);
            }
            KAct::Book { ud, res, flags } => {
                let mut f = 0;
                if flags & 1 != 0 {
                    f |= abi::CQE_F_MORE;
                }
                if flags & 2 != 0 {
                    f |= abi::CQE_F_BUFFER | (0x7777 << abi::CQE_BUFFER_SHIFT);
                }
                if flags & 4 != 0 {
                    f |= abi::CQE_F_NOTIF;
                }
                ring.post_raw(Cqe { user_data: (*ud % 4) as u64, res: *res, flags: f }, 0);
                self.feat("bookkeeping-cqe");
            }
            KAct::Skip { garbage, res } => {
                ring.post_raw(Cqe { user_data: *garbage, res: *res, flags: abi::CQE_F_SKIP }, 0);
                self.feat("skip-cqe");
            }
            KAct::Flush => {
                if ring.flush_overflow() > 0 {
                    self.feat("overflow-flush");
                }
            }
            KAct::SqpollConsume | KAct::SqpollIdle => {}
            KAct::FailEnter { errno } => {
                // Only meaningful inside io_uring_enter (ring_poll clears what
                // is left of it before and after the call).
                if ring.inline {
                    sim::fail_next_enter(ENTER_ERRNOS[*errno as usize % ENTER_ERRNOS.len()]);
                }
            }
        }
        if !ring.overflow.is_empty() {
            self.feat("overflow");
        }
        if self.oracles.c05 || self.oracles.c02 {
            // K4: slots outside [head, tail) belong to the kernel. Fill them
            // with a plausible completion for a running operation carrying a
            // result no script ever posts.
            let victim = self.ops.iter().find(|o| o.phase == Phase::Submitted && !o.final_consumed && o.user_data >= 4).map(|o| o.user_data);
            match victim {
                Some(ud) => ring.scribble_unpublished(Cqe { user_data: ud, res: 0x7A7A_7A7A, flags: 0 }),
                None => ring.poison_unpublished(0),
            }
        }
    }

    fn ring_poll(&mut self, inline: &[KAct], block: bool) {
        self.sync_events();
        self.update_consumed();
        let (_, _, cq_head_before, cq_tail_before, _) = self.ring_words();
        let blocked_before: Vec<usize> = self.live_indices(|o| o.blocked && o.phase == Phase::NotSubmitted && o.fut.is_some());
        let blocked_wakes: Vec<u64> = blocked_before.iter().map(|&i| self.ops[i].wakes_at_poll).collect();

        // Kernel actions that run inside io_uring_enter.
        let this = ExecPtr((self as *mut Exec<'a>).cast());
        let acts: Vec<KAct> = inline.to_vec();
        let mut ran = false;
        let hook: sim::EnterHook = Box::new(move |ring: &mut SimRing, _info: &EnterInfo| {
            let this = &this;
            if ran {
                return;
            }
            ran = true;
            // SAFETY: the executor outlives the Ring::poll call during which
            // this hook runs; single threaded.
            let exec: &mut Exec<'_> = unsafe { &mut *this.0.cast::<Exec<'_>>() };
            exec.sync_events();
            for act in &acts {
                exec.kact(ring, act);
            }
        });
        sim::sim().enter_hook = Some(hook);
        if self.oracles.c05 || self.oracles.c02 {
            // K4 adversary: the moment a10 publishes a new CQ head, the
            // kernel overwrites every slot outside [head, tail).
            let victim = self.ops.iter().find(|o| o.phase == Phase::Submitted && !o.final_consumed && o.user_data >= 4).map_or(0, |o| o.user_data);
            C05_VICTIM.store(victim, std::sync::atomic::Ordering::SeqCst);
            C05_RING.store(self.world.ring_fd, std::sync::atomic::Ordering::SeqCst);
            a10::verif::install_point(Some(c05_head_store_adversary));
        }
        let events_at_poll = sim::events_len();
        sim::fail_next_enter(0);
        let injected = inline.iter().filter_map(|a| if let KAct::FailEnter { errno } = a { Some(ENTER_ERRNOS[*errno as usize % ENTER_ERRNOS.len()]) } else { None }).last();
        let deliverable = cq_tail_before != cq_head_before || !inline.is_empty();
        let timeout = if block && deliverable { None } else { Some(Duration::ZERO) };
        if timeout.is_none() {
            self.feat("poll-blocking");
        }
        let r = catch(|| self.world.poll_ring(timeout));
        if self.oracles.c05 || self.oracles.c02 {
            a10::verif::install_point(None);
        }
        sim::sim().enter_hook = None;
        self.sync_events();
        match r {
            Err((msg, loc)) => {
                let p = self.primary();
                self.violation(&format!("{p}:{SIG_PANIC}:ring-poll"), format!("Ring::poll panicked at {loc}: {msg}"));
                return;
            }
            Ok(Err(e)) if injected.is_some() && e.raw_os_error() == injected => {
                // The kernel refused to wait: nothing may have been consumed
                // twice or lost because of it; whatever was posted during the
                // call is handed out by a later Ring::poll (the model only
                // goes by the completion queue head).
                sim::fail_next_enter(0);
                self.feat("enter-failed");
                self.update_consumed();
                // Whatever a10 handed to an operation during this call must be
                // released by now (a completion acted upon but still inside
                // [head, tail) is processed again by the next Ring::poll):
                // operations whose waker fired are polled, against the model.
                let woken = self.live_indices(|o| o.fut.is_some() && o.phase == Phase::Submitted && o.polled && o.waker.wakes() > o.wakes_at_poll);
                for i in woken {
                    if self.stop {
                        break;
                    }
                    self.feat("polled-after-failed-enter");
                    self.poll_index(i, false);
                }
                return;
            }
            Ok(Err(e)) => {
                let p = self.primary();
                self.violation(&format!("{p}:ring-poll-error"), format!("Ring::poll returned an error: {e}"));
                return;
            }
            Ok(Ok(())) => {}
        }
        sim::fail_next_enter(0);
        let (sq_head, sq_tail, cq_head, cq_tail, entries) = self.ring_words();
        // C04: a Ring::poll that entered the kernel handed it the whole queue
        // (the entries are consumed by the application's own system call;
        // with a kernel thread they are consumed whenever that thread runs).
        if self.oracles.c04 {
            let entered = sim::events_since(events_at_poll.min(sim::events_len())).iter().any(|e| matches!(e, SimEvent::Enter { ret, .. } if *ret >= 0));
            let sqpoll = sim::sim().ring(self.world.ring_fd).is_some_and(|r| r.is_sqpoll());
            let left = {
                // (Not counting closes of descriptors owned by an operation's
                // resources: they are queued while Ring::poll drops those
                // resources, after it entered the kernel.)
                let owned: Vec<i32> = self.ops.iter().filter_map(|o| o.st.owned_fd).collect();
                let mut s = sim::sim();
                match s.ring(self.world.ring_fd) {
                    Some(r) => {
                        let mut n = 0;
                        let mut p = r.k_sq_head;
                        while p != sq_tail {
                            let q = r.read_sqe_slot(p);
                            if !(q.opcode == abi::OP_CLOSE && q.user_data < 4 && owned.contains(&q.fd)) {
                                n += 1;
                            }
                            p = p.wrapping_add(1);
                        }
                        n
                    }
                    None => 0,
                }
            };
            if entered && !sqpoll && left > 0 {
                self.violation("C04:left-unsubmitted", format!("Ring::poll entered the kernel but {left} accepted submissions are still in the queue afterwards (the kernel stopped at a submission it refused; nothing submits the rest until some later call)"));
                if self.stop {
                    return;
                }
            }
        }
        if trace_on() {
            let w: Vec<(usize, u64, u64)> = blocked_before.iter().map(|&i| (i, self.ops[i].wakes_at_poll, self.ops[i].waker.wakes())).collect();
            eprintln!("   ring poll done: sq {sq_head:#x}..{sq_tail:#x} cq {cq_head:#x}..{cq_tail:#x}; blocked (op, wakes at poll, wakes now) {w:?}");
        }
        if self.oracles.c05 && cq_head != cq_tail {
            // Nothing was posted after a10 loaded the tail (the hook runs
            // inside enter, before the load), so everything must be consumed.
            self.violation(
                "C05:not-all-consumed",
                format!("after Ring::poll the completion queue still holds {} entries (head {cq_head:#x}, tail {cq_tail:#x}; before the call head {cq_head_before:#x}, tail {cq_tail_before:#x})", cq_tail.wrapping_sub(cq_head)),
            );
            if self.stop {
                return;
            }
            // Known finding excluded by construction: the model adopts the
            // observed head.
        }
        if cq_tail < cq_tail_before {
            self.feat("cq-wrapped");
        }
        let newly: Vec<usize> = {
            let before: BTreeSet<u64> = self.consumed_seqs.clone();
            self.update_consumed();
            let new: BTreeSet<u64> = self.consumed_seqs.difference(&before).copied().collect();
            if new.len() >= 2 {
                self.feat("batch>=2");
            }
            self.live_indices(|o| o.final_seq.is_some_and(|s| new.contains(&s)))
        };
        // C05 "in publication order": each final completion processed wakes
        // the waker of its operation's most recent poll at that moment, so
        // for the operations this call completed (and woke, exactly once,
        // through wakers that share no block) the order of the wakes is the
        // order in which the completions were handed over: it must be the
        // order in which the kernel published them.
        if self.oracles.c05 && newly.len() >= 2 {
            // Publication order = position in the completion ring (a free
            // running counter; compared relative to the head before the call,
            // so a wrap of the counter does not matter), not the order in
            // which the kernel generated the completions (task work of a
            // defer_taskrun ring is published later than it was generated).
            let positions: BTreeMap<u64, u32> = {
                let mut s = sim::sim();
                match s.ring(self.world.ring_fd) {
                    Some(ring) => ring.posted.iter().filter_map(|p| p.position.map(|pos| (p.seq, pos.wrapping_sub(cq_head_before)))).collect(),
                    None => BTreeMap::new(),
                }
            };
            let mut woken: Vec<(u64, u64, usize)> = Vec::new();
            for &i in &newly {
                let op = &self.ops[i];
                if op.phase == Phase::Submitted && op.polled && op.fut.is_some() && op.waker.wakes() == op.wakes_at_poll + 1 {
                    // (Another live operation with a waker over the same
                    // block, or a stale registration of this operation's own
                    // earlier waker, could be what was woken.)
                    let cell = op.waker.token();
                    let shared = self.ops.iter().enumerate().any(|(k, o)| k != i && o.waker.token() == cell) || !op.stale_blocked.is_empty();
                    if let (false, Some(pos)) = (shared, op.final_seq.and_then(|s| positions.get(&s))) {
                        woken.push((*pos as u64, op.waker.last_wake_seq(), i));
                    }
                }
            }
            woken.sort();
            if woken.len() >= 2 {
                self.feat("handover-order-checked");
            }
            for pair in woken.windows(2) {
                if pair[0].1 > pair[1].1 {
                    self.violation("C05:out-of-publication-order", format!("Ring::poll handed the completion of operation {} (published at position head+{}) to it before the completion of operation {} (published earlier, at head+{}); completion queue head {cq_head_before:#x} -> {cq_head:#x}", pair[1].2, pair[1].0, pair[0].2, pair[0].0));
                    break;
                }
            }
        }
        // C03a quiescence: every operation whose last poll returned Pending
        // and whose final completion this call consumed must have been woken.
        // (C09: the caller has to get to see the outcome of the last attempt
        // of a re-issued operation: the same check for operations that were
        // restarted.)
        if self.oracles.c09 && !self.oracles.c03 {
            for &i in &newly {
                let op = &self.ops[i];
                if op.attempts > 1 && op.phase == Phase::Submitted && op.polled && op.fut.is_some() && op.waker.wakes() <= op.wakes_at_poll {
                    self.violation("C09:restart-not-woken", format!("Ring::poll consumed the final completion of the re-issued operation {i} ({}) but the waker of its most recent poll (the one that re-issued it) was not invoked: the caller never sees the outcome of the last attempt", self.ops[i].st.kind.name()));
                }
            }
        }
        if self.oracles.c03 {
            for &i in &newly {
                let op = &self.ops[i];
                if op.phase == Phase::Submitted && op.polled && op.fut.is_some() {
                    self.feats.insert("completion-while-pending".into());
                }
                let op = &self.ops[i];
                if op.phase == Phase::Submitted && op.polled && op.fut.is_some() && op.waker.wakes() <= op.wakes_at_poll {
                    self.violation("C03:completion-not-woken", format!("Ring::poll consumed the final completion of operation {i} ({}) but the waker of its most recent poll was not invoked", self.ops[i].st.kind.name()));
                }
            }
            // Queue space: blocked operations.
            let available = entries.saturating_sub(sq_tail.wrapping_sub(sq_head)) as usize;
            let made_room = available > 0;
            if made_room && !blocked_before.is_empty() {
                let woken = blocked_before.iter().zip(&blocked_wakes).filter(|(i, w)| self.ops[**i].waker.wakes() > **w).count();
                let need = available.min(blocked_before.len());
                if woken < need {
                    // Wake-ups that went to a stale waker: one the operation
                    // has since replaced, or one of an operation that was
                    // dropped while waiting (a10 keeps every registered waker
                    // in its list).
                    let mut stale_woken = 0usize;
                    for op in &self.ops {
                        stale_woken += op.stale_blocked.iter().filter(|(h, at)| h.wakes() > *at).count();
                    }
                    // ... or to a duplicate entry of an operation that was
                    // polled more than once while waiting (it is woken twice).
                    for (k, &i) in blocked_before.iter().enumerate() {
                        stale_woken += (self.ops[i].waker.wakes().saturating_sub(blocked_wakes[k]) as usize).saturating_sub(1);
                    }
                    let sig = if woken + stale_woken >= need { "C03:queue-space-not-woken:stale-or-duplicate-blocked-entry" } else { "C03:queue-space-not-woken" };
                    let known = self.ctx.is_known(sig);
                    self.violation(
                        sig,
                        format!("after Ring::poll {available} submission slots are free but only {woken} of {} operations waiting for a slot had the waker of their most recent poll invoked (need {need}; {stale_woken} wake-ups went to stale or duplicate entries: replaced wakers, wakers of dropped operations, second registrations of the same operation)", blocked_before.len()),
                    );
                    // Excluded by construction when known: the stale handles
                    // stay on record, so later checks in this history that
                    // are short by the wake-ups they absorbed are attributed
                    // to the same finding.
                    let _ = known;
                }
                self.feat("blocked-woken");
            }
        }
        // C06: dropped operations whose final completion was consumed now.
        for &i in &newly {
            if self.ops[i].phase == Phase::Dropped && self.ops[i].dropped_while_running {
                self.check_reclaimed(i, "after Ring::poll processed the final completion of an abandoned operation");
                self.feat("abandoned-reclaimed");
            }
        }
        let _ = (sq_head, sq_tail);
    }

    /// Drop everything in the default order and run the end-of-history audits.
    pub fn finish(mut self) -> BTreeSet<String> {
        // From here on a kernel thread (SQPOLL) is prompt: it consumes at
        // every enter, and is awake.
        {
            let mut s = sim::sim();
            if let Some(idx) = s.ring_index(self.world.ring_fd) {
                if s.rings[idx].is_sqpoll() {
                    s.sqpoll_wake(idx);
                    s.rings[idx].sqpoll_auto = true;
                }
            }
        }
        // Drop remaining futures.
        for i in 0..self.ops.len() {
            if self.ops[i].fut.is_some() {
                let fut = self.ops[i].fut.take();
                let r = {
                    let _s = track::scope(track::TAG_A10);
                    catch(|| drop(fut))
                };
                if r.is_err() && !self.stop {
                    let p = self.primary();
                    self.violation(&format!("{p}:{SIG_PANIC}:drop"), format!("dropping operation {i} at teardown panicked"));
                }
                if self.ops[i].phase == Phase::Submitted && !self.ops[i].final_consumed {
                    self.ops[i].dropped_while_running = true;
                }
                self.ops[i].phase = Phase::Dropped;
            }
        }
        self.sync_events();
        // C04a: every accepted submission is consumed exactly once, in order.
        // Flush what is still queued by polling once.
        // (Ring::poll only enters the kernel when the completion queue is
        // empty, so this can take more than one call.)
        if self.abrupt_end {
            self.feat("abrupt-end");
            if sim::sim().ring(self.world.ring_fd).map(|r| r.sq_pending()).unwrap_or(0) > 0 {
                self.feat("ring-dropped-with-unsubmitted-entries");
            }
        }
        for _ in 0..6 {
            if self.stop || self.abrupt_end {
                break;
            }
            let _ = catch(|| self.world.poll_ring(Some(Duration::ZERO)));
            self.sync_events();
            let (_, _, cq_head, cq_tail, _) = self.ring_words();
            let pending = sim::sim().ring(self.world.ring_fd).map(|r| r.sq_pending()).unwrap_or(0);
            if pending == 0 && cq_head == cq_tail {
                break;
            }
        }
        if self.oracles.c04 && !self.stop {
            let accepted: Vec<Sqe> = self.accepted.iter().map(|(_, s)| *s).collect();
            let consumed: Vec<Sqe> = self.consumed_sqes.iter().filter(|s| s.user_data >= 4).copied().collect();
            if accepted != consumed {
                let first = accepted.iter().zip(consumed.iter()).position(|(a, c)| a != c).unwrap_or(accepted.len().min(consumed.len()));
                self.violation(
                    "C04:accepted-vs-consumed",
                    format!(
                        "the kernel consumed {} operation submissions but {} were accepted; first difference at index {first}: accepted {:?}, consumed {:?}",
                        consumed.len(),
                        accepted.len(),
                        accepted.get(first),
                        consumed.get(first)
                    ),
                );
            }
        }
        // Tear down a10 objects: descriptors, ring, queue handle.
        let fd = self.fd;
        let _ = catch(ops::drop_owned_stash);
        let _ = catch(|| self.world.drop_fd(fd));
        let _ = catch(|| self.world.drop_ring());
        self.sync_events();
        self.update_consumed();
        let _ = catch(|| self.world.drop_sq());
        self.audit_tracker();
        if self.oracles.c06 && !self.stop {
            let leaks = track::live_since(self.world.mark);
            if !leaks.is_empty() {
                let p = if self.oracles.c06 { "C06" } else { "C01" };
                let desc: Vec<String> = leaks.iter().take(4).map(|b| format!("{:#x}+{} tag {}", b.addr, b.size, b.tag)).collect();
                // Completions still sitting in the kernel's overflow list when
                // the Ring was dropped were never delivered.
                let overflowed = sim::sim().rings.iter().any(|r| r.fd == self.world.ring_fd && !r.overflow.is_empty());
                let sig = if overflowed { format!("{p}:leak-at-end:cq-overflow-at-ring-drop") } else { format!("{p}:leak-at-end") };
                if overflowed {
                    self.feat("cq-overflow-at-ring-drop");
                }
                self.violation(&sig, format!("{} blocks allocated during the history are still live after everything was dropped: {}", leaks.len(), desc.join(", ")));
                track::forget_since(self.world.mark);
            }
        } else {
            track::forget_since(self.world.mark);
        }
        self.feats.clone()
    }
}

struct SendBox<T>(T);
unsafe impl<T> Send for SendBox<T> {}

/// Drop `v`, on a helper thread if asked. Returns a panic description.
fn drop_somewhere<T: 'static>(v: T, on_thread: bool) -> Result<(), (String, String)> {
    if on_thread {
        let b = SendBox(v);
        catch(move || {
            std::thread::spawn(move || {
                let _s = track::scope(track::TAG_A10);
                let b = b;
                drop(b);
            })
            .join()
            .map_err(|_| ())
        })
        .and_then(|r| r.map_err(|()| ("panic on the helper thread".to_string(), String::new())))
    } else {
        let _s = track::scope(track::TAG_A10);
        catch(move || drop(v))
    }
}

#[derive(Copy, Clone, Debug, PartialEq, Eq)]
enum Obj {
    Ring,
    Sq(usize),
    Fd,
    Op(usize),
    Pool,
    Buf(usize),
}

impl<'a> Exec<'a> {
    /// C12: drop everything in the generated order and audit.
    pub fn finish_teardown(mut self, t: &Teardown) -> BTreeSet<String> {
        self.sync_events();
        self.update_consumed();
        let ring_fd = self.world.ring_fd;
        if t.refuse_unregister && self.pool.is_some() {
            sim::sim().cfg.register_fail = Some((abi::UNREGISTER_PBUF_RING, libc::EEXIST));
            self.feat("unregister-refused");
        }
        let maps_before = crate::shims::sim_maps();
        // Objects.
        let mut objs = vec![Obj::Ring, Obj::Sq(0)];
        for k in 0..self.extra_sq.len() {
            objs.push(Obj::Sq(k + 1));
        }
        objs.push(Obj::Fd);
        for i in 0..self.ops.len() {
            if self.ops[i].fut.is_some() {
                objs.push(Obj::Op(i));
            }
        }
        if self.pool.is_some() {
            objs.push(Obj::Pool);
        }
        for k in 0..self.readbufs.len() {
            objs.push(Obj::Buf(k));
        }
        let prio = |k: usize| t.priorities.get(k % t.priorities.len().max(1)).copied().unwrap_or(k as u16);
        let mut order: Vec<(u16, usize, Obj)> = objs.iter().enumerate().map(|(k, o)| (prio(k), k, *o)).collect();
        order.sort_by_key(|o| (o.0, o.1));
        let ring_pos = order.iter().position(|o| o.2 == Obj::Ring).unwrap();
        if ring_pos + 1 < order.len() {
            self.feat("ring-not-last");
        }
        let mut readbufs: Vec<Option<a10::io::ReadBuf>> = std::mem::take(&mut self.readbufs).into_iter().map(Some).collect();
        let mut extra_sq: Vec<Option<a10::SubmissionQueue>> = std::mem::take(&mut self.extra_sq).into_iter().map(Some).collect();
        let mut ring_gone = false;
        let mut inflight_at_ring_drop = 0usize;

        for (_, k, obj) in order {
            if self.stop {
                break;
            }
            let mut on_thread = t.on_thread.get(k % t.on_thread.len().max(1)).copied().unwrap_or(false);
            // A single-issuer Ring (K14) stays on the thread it is bound to.
            if matches!(obj, Obj::Ring) && self.world.cfg_single_issuer {
                on_thread = false;
            }
            if on_thread {
                self.feat("helper-thread-drop");
            }
            let r = match obj {
                Obj::Ring => {
                    self.sync_events();
                    self.update_consumed();
                    let pending_before = sim::sim().ring(ring_fd).map_or(0, |r| r.sq_pending());
                    inflight_at_ring_drop = self.ops.iter().filter(|o| o.phase != Phase::NotSubmitted && !o.final_consumed && o.attempts > 0).count();
                    if inflight_at_ring_drop > 0 || pending_before > 0 {
                        self.feat("ring-dropped-with-work");
                    }
                    let events_before = sim::events_len();
                    let ring = self.world.ring.take();
                    if t.inline_on_flush && pending_before > 0 {
                        let this = ExecPtr((&mut self as *mut Exec<'_>).cast());
                        let hook: sim::EnterHook = Box::new(move |ring, info| {
                            let this = &this;
                            let exec: &mut Exec<'_> = unsafe { &mut *this.0.cast::<Exec<'_>>() };
                            if info.flags & abi::ENTER_GETEVENTS != 0 {
                                return;
                            }
                            exec.sync_events();
                            for serial in &info.consumed {
                                let target = exec.ops.iter().position(|o| o.serial == Some(*serial) && o.final_seq.is_none() && !o.final_skipped && o.phase != Phase::NotSubmitted);
                                if let Some(i) = target {
                                    exec.complete_index(ring, i);
                                    exec.feats.insert("inline-completion-on-flush".into());
                                }
                            }
                        });
                        sim::sim().enter_hook = Some(hook);
                    }
                    let r = drop_somewhere(ring, on_thread);
                    sim::sim().enter_hook = None;
                    ring_gone = true;
                    self.sync_events();
                    if r.is_ok() {
                        let (pending, still) = {
                            let mut s = sim::sim();
                            match s.ring(ring_fd) {
                                Some(r) => (r.sq_pending(), r.inflight.iter().filter(|q| !q.done && q.sqe.user_data >= 4).count()),
                                None => (0, 0),
                            }
                        };
                        if pending != 0 {
                            self.violation("C12:queued-not-submitted", format!("dropping the Ring left {pending} queued submissions unsubmitted"));
                        }
                        let evs = sim::events_since(events_before.min(sim::events_len()));
                        let cancelled = evs.iter().any(|e| matches!(e, SimEvent::Register { opcode, .. } if *opcode == abi::REGISTER_SYNC_CANCEL));
                        if !cancelled {
                            self.violation("C12:no-cancel-all", "dropping the Ring did not cancel what is still running (no IORING_REGISTER_SYNC_CANCEL)".into());
                        }
                        if still != 0 {
                            self.violation("C12:still-running", format!("{still} operations are still in flight in the kernel after the Ring was dropped"));
                        }
                        // Abandoned operations are reclaimed by the Ring's drop.
                        self.update_consumed();
                        for i in 0..self.ops.len() {
                            if self.ops[i].phase == Phase::Dropped && self.ops[i].dropped_while_running {
                                let op = &self.ops[i];
                                if let Some(serial) = op.state_serial {
                                    let addr = (op.user_data & !1) as usize;
                                    if track::lookup(addr).is_some_and(|b| b.serial == serial) {
                                        self.violation("C12:abandoned-state-not-reclaimed", format!("the state of abandoned operation {i} is still allocated after the Ring was dropped"));
                                    }
                                }
                            }
                        }
                        if t.poll_after_ring {
                            self.poll_all_after_ring();
                        }
                        if t.wake_after {
                            if let Some(sq) = self.world.sq.as_ref().or(extra_sq.iter().flatten().next()) {
                                let before = sim::events_len();
                                let r = catch(|| sq.wake());
                                if let Err((msg, loc)) = r {
                                    self.violation("C12:panic:wake-after-ring", format!("wake() after the Ring was dropped panicked at {loc}: {msg}"));
                                }
                                if sim::events_len() != before {
                                    self.violation("C12:wake-after-ring-syscall", "wake() after the Ring was dropped made a system call on the ring".into());
                                }
                                self.feat("wake-after-ring");
                            }
                        }
                    }
                    r
                }
                Obj::Sq(0) => drop_somewhere(self.world.sq.take(), on_thread),
                Obj::Sq(n) => drop_somewhere(extra_sq[n - 1].take(), on_thread),
                Obj::Fd => {
                    // Futures borrowing the descriptor go first.
                    for i in 0..self.ops.len() {
                        if self.ops[i].fut.is_some() {
                            self.teardown_drop_op(i, false, ring_gone);
                        }
                    }
                    if ring_gone {
                        self.feat("fd-after-ring");
                    }
                    let ptr = self.world.fds[self.fd].take();
                    let b = ptr.map(|p| SendBox(unsafe { Box::from_raw(p) }));
                    // (The signal handle, if any, is a descriptor too.)
                    let sig = self.world.take_signals().map(SendBox);
                    let stash: Vec<a10::AsyncFd> = ops::OWNED_STASH.with(|s| std::mem::take(&mut *s.borrow_mut()));
                    drop_somewhere((b, sig, SendBox(stash)), on_thread)
                }
                Obj::Op(i) => {
                    if self.ops[i].fut.is_some() {
                        self.teardown_drop_op(i, on_thread, ring_gone);
                    }
                    Ok(())
                }
                Obj::Pool => {
                    if ring_gone {
                        self.feat("pool-after-ring");
                    }
                    drop_somewhere(self.pool.take(), on_thread)
                }
                Obj::Buf(n) => {
                    if ring_gone {
                        self.feat("buf-after-ring");
                    }
                    drop_somewhere(readbufs[n].take(), on_thread)
                }
            };
            if let Err((msg, loc)) = r {
                self.violation(&format!("C12:panic:{obj:?}").replace(|c: char| c.is_ascii_digit(), ""), format!("dropping {obj:?} panicked at {loc}: {msg}"));
            }
            self.sync_events();
            // Tracker events under C12 signatures.
            for e in track::take_events() {
                match e {
                    track::Event::FreedWhileHeld { hold, block } => {
                        let what = hold.what;
                        self.violation(&format!("C12:freed-while-kernel-holds:{what}"), format!("dropping {obj:?}: block {:#x}+{} freed while the kernel still holds {what} ({:#x}+{})", block.addr, block.size, hold.addr, hold.len));
                    }
                    track::Event::ForeignFree { addr, size } => {
                        self.violation("C12:double-free", format!("dropping {obj:?}: free of {addr:#x} (size {size}) which is not a live block"));
                    }
                }
            }
        }

        // Everything is gone: audits.
        if !self.stop {
            let log = crate::shims::log_snapshot();
            // Mappings: every mapping made on the ring descriptor is unmapped
            // exactly once with the same (addr, len); nothing else is unmapped.
            let mut live: Vec<(usize, usize)> = maps_before.iter().filter(|m| m.2 == ring_fd).map(|m| (m.0, m.1)).collect();
            let mut last_unmap = 0usize;
            let mut close_at = None;
            for (n, e) in log.iter().enumerate() {
                match e {
                    crate::shims::ShimEvent::Munmap { addr, len, ret } => {
                        if let Some(p) = live.iter().position(|m| *m == (*addr, *len)) {
                            if *ret == 0 {
                                live.remove(p);
                                last_unmap = n;
                            }
                        } else {
                            self.violation("C12:munmap-mismatch", format!("munmap({addr:#x}, {len}) does not match a mapping of the ring (still mapped: {live:?})"));
                        }
                    }
                    crate::shims::ShimEvent::Close { fd, ret: 0 } if *fd == ring_fd => {
                        if close_at.is_some() {
                            self.violation("C12:ring-fd-closed-twice", format!("the ring descriptor {ring_fd} was closed twice"));
                        }
                        close_at = Some(n);
                    }
                    _ => {}
                }
            }
            if !live.is_empty() {
                self.violation("C12:mapping-leaked", format!("all handles are gone but the ring mappings {live:?} were never unmapped"));
            }
            match close_at {
                None => self.violation("C12:ring-fd-leaked", format!("all handles are gone but the ring descriptor {ring_fd} was never closed")),
                Some(n) if n < last_unmap => self.violation("C12:ring-fd-closed-early", "the ring descriptor was closed before its mappings were unmapped".into()),
                _ => {}
            }
            // Descriptors.
            let open: Vec<i32> = sim::sim().issued_fds.iter().filter(|(_, open)| **open).map(|(fd, _)| *fd).collect();
            let really_open: Vec<i32> = open.into_iter().filter(|fd| unsafe { libc::fcntl(*fd, libc::F_GETFD) } != -1).collect();
            if !really_open.is_empty() {
                let sig = if self.feats.contains("fd-after-ring") { "C12:descriptor-left-behind:fd-dropped-after-ring" } else { "C12:descriptor-left-behind" };
                self.violation(sig, format!("all handles are gone but descriptors {really_open:?} are still open"));
            }
            // Registrations: a buffer ring still registered means its memory
            // was freed under the kernel (caught above) or leaked.
            let registered = sim::sim().rings.iter().filter(|r| r.fd == ring_fd).map(|r| r.pbufs.len()).sum::<usize>();
            if registered != 0 && self.pool.is_none() {
                self.violation("C12:pool-still-registered", format!("{registered} buffer rings are still registered after the pool was dropped"));
            }
            let leaks = track::live_since(self.world.mark);
            if !leaks.is_empty() {
                let desc: Vec<String> = leaks.iter().take(4).map(|b| format!("{:#x}+{} tag {} words {:x?}", b.addr, b.size, b.tag, (0..b.size.min(48) / 8).map(|k| unsafe { ((b.addr + 8 * k) as *const usize).read() }).collect::<Vec<_>>())).collect();
                let overflowed = sim::sim().rings.iter().any(|r| r.fd == ring_fd && !r.overflow.is_empty());
                let sig = if overflowed { "C12:leak-at-end:cq-overflow-at-ring-drop" } else { "C12:leak-at-end" };
                self.violation(sig, format!("{} blocks allocated during the history are still live after everything was dropped: {}", leaks.len(), desc.join(", ")));
            }
            for op in &mut self.ops {
                // The model's own copies.
                op.stale_blocked.clear();
            }
            for i in 0..self.ops.len() {
                if self.ops[i].waker.foreign_refs() != 0 {
                    let n = self.ops[i].waker.foreign_refs();
                    self.violation("C12:waker-leaked", format!("{n} clones of the waker of operation {i} are still alive after everything was dropped"));
                    break;
                }
            }
        }
        let _ = inflight_at_ring_drop;
        sim::sim().cfg.register_fail = None;
        track::forget_since(self.world.mark);
        self.feats.clone()
    }

    /// Teardown: poll every remaining future once after the Ring is gone.
    fn poll_all_after_ring(&mut self) {
        self.sync_events();
        self.update_consumed();
        for i in 0..self.ops.len() {
            if self.stop || self.ops[i].fut.is_none() {
                continue;
            }
            let (_, tail, _, _, _) = self.ring_words();
            let consumed = self.ops[i].final_consumed;
            let started = self.ops[i].phase == Phase::Submitted;
            let waker = self.ops[i].waker.waker.clone();
            let mut cx = Context::from_waker(&waker);
            let fut = self.ops[i].fut.as_mut().unwrap();
            let result = {
                let _s = track::scope(track::TAG_A10);
                catch(|| fut.poll(&mut cx).is_ready())
            };
            self.feat("polled-after-ring-drop");
            match result {
                Err((msg, loc)) => {
                    std::mem::forget(self.ops[i].fut.take());
                    self.ops[i].phase = Phase::Dropped;
                    self.violation("C12:panic:poll-after-ring", format!("polling operation {i} ({}) after the Ring was dropped panicked at {loc}: {msg}", self.ops[i].st.kind.name()));
                    return;
                }
                Ok(ready) => {
                    let (_, tail_after, _, _, _) = self.ring_words();
                    if tail_after != tail {
                        self.violation("C12:submission-after-ring-drop", format!("polling operation {i} after the Ring was dropped published {} submissions nobody will submit", tail_after.wrapping_sub(tail)));
                        return;
                    }
                    if ready && !(started && consumed) {
                        self.violation("C12:resolved-without-completion", format!("operation {i} ({}) resolved when polled after the Ring was dropped although the Ring never consumed a final completion for it", self.ops[i].st.kind.name()));
                        return;
                    }
                    if ready {
                        // Resolved: the future is finished, drop it here.
                        let fut = self.ops[i].fut.take();
                        {
                            let _s = track::scope(track::TAG_A10);
                            let _ = catch(|| drop(fut));
                        }
                        self.ops[i].phase = Phase::Dropped;
                        self.feat("resolved-after-ring-drop");
                    }
                }
            }
        }
        self.sync_events();
    }

    fn teardown_drop_op(&mut self, i: usize, on_thread: bool, ring_gone: bool) {
        self.sync_events();
        self.update_consumed();
        let op = &self.ops[i];
        let running = op.phase == Phase::Submitted && !op.final_consumed;
        let state = match op.phase {
            Phase::NotSubmitted => "unpolled-or-blocked",
            Phase::Submitted if op.final_consumed => "finished",
            Phase::Submitted if op.serial.is_some() => "running",
            Phase::Submitted => "queued",
            _ => "other",
        };
        self.feat(format!("teardown-op:{state}{}", if ring_gone { ":after-ring" } else { "" }));
        let fut = self.ops[i].fut.take();
        let r = drop_somewhere(fut.map(SendBox), on_thread);
        if running {
            self.ops[i].dropped_while_running = true;
        }
        self.ops[i].phase = Phase::Dropped;
        if let Err((msg, loc)) = r {
            self.violation("C12:panic:op", format!("dropping operation {i} ({state}) panicked at {loc}: {msg}"));
        }
    }
}

pub fn trace_on() -> bool {
    static ON: std::sync::OnceLock<bool> = std::sync::OnceLock::new();
    *ON.get_or_init(|| std::env::var_os("A10VERIF_TRACE").is_some())
}

/// A fixed history touching every operation kind; run before the first case
/// so that one-time lazy allocations fall outside every case epoch.
pub fn warmup() {
    use crate::interp::ops::{OpKind, Outcome};
    let kinds = [OpKind::Truncate, OpKind::WriteStatic { len: 10 }, OpKind::WriteVec { len: 10 }, OpKind::ReadVec { cap: 32, prefill: 2 }, OpKind::WriteVectored { a: 3, b: 4 }, OpKind::ReadVectored { a: 8, b: 8 }, OpKind::SendTo { len: 9, v6: false }, OpKind::SendTo { len: 9, v6: true }, OpKind::RecvFrom { cap: 16 }, OpKind::SockOpt, OpKind::Statx, OpKind::Connect { v6: true }];
    let mut steps = Vec::new();
    for k in &kinds {
        steps.push(Step::Start { kind: k.clone(), faults: vec![Fault::Eintr], outcome: Outcome::Ok { frac: 30000 } });
    }
    for round in 0..4 {
        for i in 0..kinds.len() {
            steps.push(Step::Poll { op: ((i * 65536) / kinds.len()) as u16, fresh_waker: round == 1 });
        }
        steps.push(Step::RingPoll { inline: vec![KAct::Complete { op: 0 }, KAct::Complete { op: 30000 }, KAct::Book { ud: 1, res: 0, flags: 0 }], block: round % 2 == 0 });
        steps.push(Step::Kernel(KAct::Complete { op: 0 }));
    }
    steps.push(Step::DropOp { op: 0, cancel: CancelChoice::Wins });
    let h = History { cfg: RingCfg::simple(1), steps, teardown: None };
    for _ in 0..2 {
        let mut ctx = Ctx::new("warmup", &[], crate::common::Tier::Quick);
        let _ = execute(&h, Oracles::default(), &mut ctx);
    }
    track::take_events();
}

/// Run a whole history.
pub fn execute(h: &History, oracles: Oracles, ctx: &mut Ctx) -> BTreeSet<String> {
    let Some(mut exec) = Exec::new(&h.cfg, oracles, ctx) else { return BTreeSet::new() };
    if h.cfg.sq_start.near_wrap() {
        exec.feats.insert("sq-near-wrap".into());
    }
    if h.cfg.cq_start.near_wrap() {
        exec.feats.insert("cq-near-wrap".into());
    }
    if let (true, Some(t)) = (oracles.c12, &h.teardown) {
        exec.setup_teardown_objects(t);
    }
    for step in &h.steps {
        exec.step(step);
    }
    match (&h.teardown, oracles.c12) {
        (Some(t), true) => exec.finish_teardown(t),
        _ => {
            // One history in three of the leak audit (C06) ends abruptly: the
            // Ring is dropped with whatever is still queued, unsubmitted, and
            // with the futures dropped just before (a pure function of the
            // history's length, so that replays agree).
            exec.abrupt_end = oracles.c06 && !oracles.c04 && h.steps.len() % 3 == 2;
            exec.finish()
        }
    }
}
