//! C17 — filesystem-watch event streams are decoded exactly, and every event
//! handed out stays valid for as long as safe code can use it.

use std::os::unix::ffi::OsStrExt;
use std::path::PathBuf;
use std::pin::Pin;
use std::task::{Context, Poll};
use std::time::Duration;

use a10::fs::notify::{Event, Interest, Recursive, Watcher};
use proptest::prelude::*;
use serde::{Deserialize, Serialize};

use crate::abi;
use crate::common::{Ctx, Tier};
use crate::interp::waker::WakerHandle;
use crate::interp::world::{RingCfg, World};
use crate::runner::{Property, catch};
use crate::sim::{self, EnterInfo, SimRing};
use crate::track;

#[derive(Copy, Clone, Debug, Serialize, Deserialize, PartialEq, Eq)]
pub enum Wd {
    Known(u8),
    Unknown(i32),
}

#[derive(Copy, Clone, Debug, Serialize, Deserialize, PartialEq, Eq)]
pub enum RecKind {
    Normal,
    Ignored,
    Overflow,
}

#[derive(Clone, Debug, Serialize, Deserialize)]
pub struct Rec {
    pub wd: Wd,
    pub mask: u32,
    pub cookie: u32,
    pub name: Vec<u8>,
    /// Extra NUL padding beyond the kernel's rule, in units of 4 bytes (0..=3).
    pub extra_pad: u8,
    pub kind: RecKind,
}

#[derive(Clone, Debug, Serialize, Deserialize)]
pub enum Read {
    /// Up to this many records (as many as fit the 272 byte buffer).
    Batch(u8),
    Empty,
    Error(u8),
}

#[derive(Clone, Debug, Serialize, Deserialize)]
pub struct Case {
    pub watches: u8,
    pub records: Vec<Rec>,
    pub reads: Vec<Read>,
    /// For the j-th yielded event: keep it for this many further yields
    /// (255 = until after the iterator is dropped).
    pub keep: Vec<u8>,
    /// Watch directory k a second time under another path (after a rename):
    /// same inode, same watch descriptor; events are then reported
    /// under the path used last.
    #[serde(default)]
    pub rewatch: Option<u8>,
    /// Per watch: a non-empty subset of the 14 Interest constants (bit i =
    /// i-th constant of INTERESTS); 0 or absent = Interest::ALL.
    #[serde(default)]
    pub interests: Vec<u16>,
    /// Directory k is removed, created again and watched again under the same
    /// path: a new watch descriptor for a path the table already holds under
    /// the old descriptor (whose IN_IGNORED may still be in the stream).
    #[serde(default)]
    pub replace: Option<u8>,
    /// Directory 0 holds a small tree (sub-directories two levels deep and a
    /// file) and is watched once more, recursively (0: watch_directory, 1:
    /// watch), or its file is watched (2: watch_file, 3: watch): more watch
    /// descriptors, each with its own path.
    #[serde(default)]
    pub tree: Option<u8>,
    /// A further directory is watched through the `Events` iterator itself
    /// (`Events::watch_directory` / `watch` / `watch_file` on a file in it)
    /// once this many events have been yielded (`.0`), with method `.1`:
    /// records for its watch descriptor in later reads are reported under its
    /// path. (Half of the records with an unknown descriptor then carry it.)
    #[serde(default)]
    pub late: Option<(u8, u8)>,
}

const BUF_SIZE: usize = 272;
const IN_IGNORED: u32 = 0x8000;
const IN_Q_OVERFLOW: u32 = 0x4000;

fn encode(rec: &Rec, wds: &[i32], late: Option<i32>) -> Vec<u8> {
    let wd = match rec.wd {
        Wd::Known(k) => wds[k as usize % wds.len()],
        Wd::Unknown(n) if late.is_some() && n % 2 == 0 => late.unwrap(),
        Wd::Unknown(n) => 1000 + (n & 0xffff),
    };
    let (mask, name): (u32, &[u8]) = match rec.kind {
        RecKind::Normal => (rec.mask & !(IN_IGNORED | IN_Q_OVERFLOW), &rec.name),
        RecKind::Ignored => (IN_IGNORED, &[]),
        RecKind::Overflow => (IN_Q_OVERFLOW, &[]),
    };
    let wd = if rec.kind == RecKind::Overflow { -1 } else { wd };
    // Kernel rule: len = roundup(strlen + 1, 16), 0 without a name.
    let mut len = if name.is_empty() { 0 } else { (name.len() + 1).next_multiple_of(16) };
    if !name.is_empty() {
        len = (len + 4 * (rec.extra_pad as usize % 4)).min(256);
        len = len.max(name.len() + 1);
    }
    let mut out = Vec::with_capacity(16 + len);
    out.extend_from_slice(&wd.to_ne_bytes());
    out.extend_from_slice(&mask.to_ne_bytes());
    out.extend_from_slice(&rec.cookie.to_ne_bytes());
    out.extend_from_slice(&(len as u32).to_ne_bytes());
    out.extend_from_slice(name);
    out.resize(16 + len, 0);
    out
}

#[derive(Clone, Debug, PartialEq, Eq)]
struct Expected {
    wd: i32,
    mask: u32,
    cookie: u32,
    name: Vec<u8>,
    path: PathBuf,
}

struct Script {
    /// Byte batches (or errors) to answer the reads with.
    answers: Vec<Result<Vec<u8>, i32>>,
    next: usize,
    errors: Vec<String>,
    reads_seen: usize,
}
struct ScriptPtr(*mut Script);
unsafe impl Send for ScriptPtr {}

impl Script {
    fn handle(&mut self, ring: &mut SimRing, serial: u64) {
        let Some(req) = ring.req(serial).cloned() else { return };
        if req.sqe.user_data < 4 || req.done || req.sqe.opcode != abi::OP_READ {
            return;
        }
        self.reads_seen += 1;
        let ans = self.answers.get(self.next).cloned().unwrap_or(Ok(Vec::new()));
        self.next += 1;
        match ans {
            Err(e) => {
                ring.complete(serial, -e, 0, false);
            }
            Ok(bytes) => {
                let Some(region) = req.regions.iter().find(|r| r.what == "buffer") else {
                    self.errors.push("inotify read without a buffer".into());
                    ring.complete(serial, -libc::EFAULT, 0, false);
                    return;
                };
                if region.len < BUF_SIZE {
                    self.errors.push(format!("inotify read buffer of {} bytes (< {BUF_SIZE})", region.len));
                }
                // Canary behind the data: the decoder must not look at it.
                let mut data = bytes.clone();
                data.resize(region.len, 0xA5);
                if !sim::regions::write_region(region, 0, &data) {
                    self.errors.push("inotify read buffer is not valid memory".into());
                }
                ring.complete(serial, bytes.len().min(region.len) as i32, 0, false);
            }
        }
    }
}

fn parse_debug(e: &Event) -> (i32, u32, u32) {
    let s = format!("{e:?}");
    let field = |name: &str| -> i64 { s.split(&format!("{name}: ")).nth(1).and_then(|r| r.split([',', ' ', '}']).next()).and_then(|n| n.parse::<i64>().ok()).unwrap_or(i64::MIN) };
    (field("wd") as i32, field("mask") as u32, field("cookie") as u32)
}

#[allow(deprecated)]
fn name_of(e: &Event) -> Vec<u8> {
    e.file_path().as_os_str().as_bytes().to_vec()
}

struct Kept {
    ptr: *const Event,
    expect: Expected,
    /// Yields left to keep it for.
    left: u32,
    across_drop: bool,
    block_serial: Option<u64>,
    index: usize,
}

/// Bound on the iterations of a10's record decoding loop (hook point
/// `DecodeLoop`, `--cfg a10_verif`) within one `poll_next` call: a read buffer
/// holds at most 17 records, so a call that goes round more often than this no
/// longer advances. A count, not a clock: the verdict is deterministic.
const DECODE_STEP_LIMIT: u32 = 1000;
const DECODE_LIVELOCK: &str = "a10verif: decode loop does not advance";

thread_local! {
    static DECODE_STEPS: std::cell::Cell<u32> = const { std::cell::Cell::new(0) };
}

fn decode_step(point: a10::verif::Point, _addr: usize) {
    if point != a10::verif::Point::DecodeLoop {
        return;
    }
    let n = DECODE_STEPS.with(|c| {
        c.set(c.get() + 1);
        c.get()
    });
    if n > DECODE_STEP_LIMIT {
        // Unwinds out of poll_next; caught by the driver.
        panic!("{DECODE_LIVELOCK}");
    }
}

pub struct C17;

fn rec() -> impl Strategy<Value = Rec> {
    let name_byte = prop_oneof![10 => 0x21u8..0x7f, 1 => 0x80u8..=0xff, 1 => Just(b' ')].prop_filter_map("no slash", |b| if b == b'/' { Some(b'_') } else { Some(b) });
    let name = prop_oneof![2 => Just(Vec::new()), 6 => proptest::collection::vec(name_byte.clone(), 1..40), 1 => proptest::collection::vec(name_byte.clone(), 14..18), 1 => proptest::collection::vec(name_byte, 240..=255)];
    (
        prop_oneof![6 => (0u8..8).prop_map(Wd::Known), 1 => any::<i32>().prop_map(Wd::Unknown)],
        prop_oneof![4 => any::<u32>(), 3 => (0u32..14).prop_map(|b| [1u32, 2, 4, 8, 0x10, 0x20, 0x40, 0x80, 0x100, 0x200, 0x400, 0x800, 0x2000, 0x4000_0000][b as usize])],
        any::<u32>(),
        name,
        0u8..4,
        prop_oneof![10 => Just(RecKind::Normal), 2 => Just(RecKind::Ignored), 1 => Just(RecKind::Overflow)],
    )
        .prop_map(|(wd, mask, cookie, name, extra_pad, kind)| Rec { wd, mask, cookie, name, extra_pad, kind })
}

impl Property for C17 {
    const ID: &'static str = "C17";
    type Case = Case;

    fn strategy(_tier: Tier) -> BoxedStrategy<Case> {
        (
            1u8..=3,
            proptest::collection::vec(rec(), 0..14),
            proptest::collection::vec(prop_oneof![10 => (1u8..8).prop_map(Read::Batch), 1 => Just(Read::Empty), 1 => (0u8..4).prop_map(Read::Error)], 0..10),
            proptest::collection::vec(prop_oneof![4 => Just(0u8), 4 => 1u8..6, 1 => Just(255u8)], 0..14),
            proptest::option::weighted(0.3, 0u8..3),
            proptest::collection::vec(prop_oneof![2 => Just(0u16), 3 => 1u16..(1 << 14)], 0..=3),
            proptest::option::weighted(0.25, 0u8..3),
            proptest::option::weighted(0.3, 0u8..4),
            proptest::option::weighted(0.3, (prop_oneof![2 => Just(0u8), 5 => 1u8..6], 0u8..4)),
        )
            .prop_map(|(watches, records, reads, keep, rewatch, interests, replace, tree, late)| Case { watches, records, reads, keep, rewatch, interests, replace, tree, late })
            .boxed()
    }

    fn cases(tier: Tier) -> u32 {
        tier.pick(5_000, 300_000)
    }

    fn run(case: &Case, ctx: &mut Ctx) {
        run_case(case, ctx);
    }

    fn rule() -> &'static str {
        "proptest: a real Watcher (real inotify descriptor, real watches on temporary directories, so the watch table holds real watch descriptors; optionally directory 0 holds sub-directories and a file and is watched recursively (watch_directory / watch with Recursive::All) or its file is watched (watch_file / watch), which adds watch descriptors whose paths are found through the inode in fdinfo; optionally one directory is removed, created and watched again (one path, two descriptors); optionally one directory is renamed and watched a second time, which yields the same watch descriptor and makes the new name the path events are reported under) whose READs are answered by the simulated kernel with generated record batches: names of 0..255 bytes, kernel-rule padding and extra NUL padding, all mask bits, known and unknown watch descriptors, IN_IGNORED and IN_Q_OVERFLOW records, batched into successive reads in every way that keeps records whole and within the 272-byte buffer (the rest of the buffer holds canaries), empty reads, read errors; plus a retention plan saying for how many further yields (or until after the iterator is dropped) the caller keeps each yielded &Event. The watches are created with generated Interest subsets; the mask the kernel then holds for the watch (fdinfo) must be the union of inotify(7)'s bits for those interests. Oracle: every Event predicate (is_dir, accessed, modified, ..., file_created, file_deleted, deleted, moved, unmounted) agrees with inotify(7)'s bit for its documented meaning; yielded sequence == model (records minus IGNORED/OVERFLOW) with equal wd/mask/cookie, name without padding, path_for == watched path joined with the name (name only for unknown or forgotten wds); error yielded once then None; every retained event, re-read at its planned later point, is unchanged and still inside the live allocation it was in. Non-trivial = a read with >= 2 records, or a record followed by IGNORED for its wd, or a retention that crosses a later read. Distinct = (classes, 16-bit case hash)."
    }

    fn assumptions() -> Vec<&'static str> {
        vec!["watch descriptors are discovered through /proc/self/fdinfo of the real inotify descriptor; wd/mask/cookie are read from Event's Debug output (no public accessor)"]
    }
}

fn watch_dirs() -> Vec<PathBuf> {
    let base = std::env::temp_dir().join(format!("a10verif-inotify-{}", std::process::id()));
    (0..3)
        .map(|k| {
            let p = base.join(format!("w{k}"));
            let _ = std::fs::create_dir_all(&p);
            p
        })
        .collect()
}

fn inotify_wds(fd: i32) -> Vec<i32> {
    let text = std::fs::read_to_string(format!("/proc/self/fdinfo/{fd}")).unwrap_or_default();
    let mut wds: Vec<i32> = text.lines().filter_map(|l| l.strip_prefix("inotify wd:")).filter_map(|r| r.split_whitespace().next()).filter_map(|n| i32::from_str_radix(n, 16).ok()).collect();
    wds.sort();
    wds
}

/// The inode watch `wd` is attached to.
fn inotify_ino(fd: i32, wd: i32) -> Option<u64> {
    let text = std::fs::read_to_string(format!("/proc/self/fdinfo/{fd}")).ok()?;
    for l in text.lines() {
        let Some(rest) = l.strip_prefix("inotify wd:") else { continue };
        let mut it = rest.split_whitespace();
        if i32::from_str_radix(it.next()?, 16).ok()? != wd {
            continue;
        }
        for f in it {
            if let Some(m) = f.strip_prefix("ino:") {
                return u64::from_str_radix(m, 16).ok();
            }
        }
    }
    None
}

/// The event mask the kernel holds for watch `wd`.
fn inotify_mask(fd: i32, wd: i32) -> Option<u32> {
    let text = std::fs::read_to_string(format!("/proc/self/fdinfo/{fd}")).ok()?;
    for l in text.lines() {
        let Some(rest) = l.strip_prefix("inotify wd:") else { continue };
        let mut it = rest.split_whitespace();
        if i32::from_str_radix(it.next()?, 16).ok()? != wd {
            continue;
        }
        for f in it {
            if let Some(m) = f.strip_prefix("mask:") {
                return u32::from_str_radix(m, 16).ok();
            }
        }
    }
    None
}

/// Interest constants and the inotify(7) bits their documentation describes.
const INTERESTS: [(Interest, u32); 14] = [
    (Interest::ACCESS, 0x1),
    (Interest::MODIFY, 0x2),
    (Interest::METADATA, 0x4),
    (Interest::CLOSE_WRITE, 0x8),
    (Interest::CLOSE_NOWRITE, 0x10),
    (Interest::CLOSE, 0x18),
    (Interest::OPEN, 0x20),
    (Interest::MOVE_FROM, 0x40),
    (Interest::MOVE_INTO, 0x80),
    (Interest::MOVE, 0xc0),
    (Interest::CREATE, 0x100),
    (Interest::DELETE, 0x200),
    (Interest::DELETE_SELF, 0x400),
    (Interest::MOVE_SELF, 0x800),
];

fn find_inotify_fd(before: &[i32]) -> Option<i32> {
    (3..1024).find(|fd| !before.contains(fd) && std::fs::read_link(format!("/proc/self/fd/{fd}")).is_ok_and(|p| p.to_string_lossy().contains("inotify")))
}

fn run_case(case: &Case, ctx: &mut Ctx) {
    let mut world = match World::new(&RingCfg::simple(3)) {
        Ok(w) => w,
        Err(e) => {
            ctx.infra(e);
            return;
        }
    };
    let dirs = watch_dirs();
    let fds_before: Vec<i32> = (3..1024).filter(|fd| unsafe { libc::fcntl(*fd, libc::F_GETFD) } != -1).collect();
    let watcher = {
        let _s = track::scope(track::TAG_A10);
        Watcher::new(world.sq())
    };
    let mut watcher = match watcher {
        Ok(w) => w,
        Err(e) => {
            ctx.infra(format!("Watcher::new failed: {e}"));
            return;
        }
    };
    let Some(ifd) = find_inotify_fd(&fds_before) else {
        ctx.infra("could not find the inotify descriptor");
        return;
    };
    let nwatch = (case.watches as usize).clamp(1, 3);
    let mut wds: Vec<i32> = Vec::new();
    let mut classes_early: Vec<&'static str> = Vec::new();
    for (k, d) in dirs.iter().take(nwatch).enumerate() {
        let before = inotify_wds(ifd);
        let bits = case.interests.get(k).copied().unwrap_or(0) & ((1 << INTERESTS.len()) - 1);
        let (interest, want_mask) = if bits == 0 {
            (Interest::ALL, 0xfffu32)
        } else {
            let mut it: Option<Interest> = None;
            let mut m = 0u32;
            for (i, (flag, raw)) in INTERESTS.iter().enumerate() {
                if bits & (1 << i) != 0 {
                    it = Some(it.map_or(*flag, |x| x | *flag));
                    m |= raw;
                }
            }
            classes_early.push("interest-subset");
            (it.unwrap(), m)
        };
        let r = {
            let _s = track::scope(track::TAG_A10);
            watcher.watch_directory(d.clone(), interest, Recursive::No)
        };
        if let Err(e) = r {
            ctx.infra(format!("watch_directory failed: {e}"));
            return;
        }
        let after = inotify_wds(ifd);
        match after.iter().find(|w| !before.contains(w)) {
            Some(w) => {
                wds.push(*w);
                // What the kernel was asked to watch for.
                if let Some(mask) = inotify_mask(ifd, *w) {
                    if mask & 0xfff != want_mask {
                        ctx.violation("C17:interest-mask", format!("watch_directory with interest bits {bits:#x} registered the inotify mask {:#x}, expected {want_mask:#x}", mask & 0xfff));
                    }
                }
            }
            None => {
                ctx.infra("could not determine the new watch descriptor");
                return;
            }
        }
    }

    let mut dirs: Vec<PathBuf> = dirs.into_iter().take(nwatch).collect();
    if let Some(api) = case.tree {
        use std::os::unix::fs::MetadataExt;
        let root = dirs[0].clone();
        let subs = [root.join("s0"), root.join("s0").join("t0"), root.join("s1")];
        for p in &subs {
            let _ = std::fs::create_dir_all(p);
        }
        let file = root.join("f0");
        let _ = std::fs::write(&file, b"x");
        let before = inotify_wds(ifd);
        let r = {
            let _s = track::scope(track::TAG_A10);
            match api % 4 {
                0 => watcher.watch_directory(root.clone(), Interest::ALL, Recursive::All),
                1 => watcher.watch(root.clone(), Interest::ALL, Recursive::All),
                2 => watcher.watch_file(file.clone(), Interest::ALL),
                _ => watcher.watch(file.clone(), Interest::ALL, Recursive::All),
            }
        };
        if let Err(e) = r {
            ctx.infra(format!("watching the tree failed: {e}"));
            return;
        }
        let mut found = 0;
        for w in inotify_wds(ifd).into_iter().filter(|w| !before.contains(w)) {
            let Some(ino) = inotify_ino(ifd, w) else { continue };
            let owner = subs.iter().chain(std::iter::once(&file)).find(|p| std::fs::symlink_metadata(p).is_ok_and(|m| m.ino() == ino));
            if let Some(p) = owner {
                wds.push(w);
                dirs.push(p.clone());
                found += 1;
            }
        }
        if found > 0 {
            classes_early.push(if api % 4 < 2 { "recursive-watch" } else { "file-watch" });
        }
    }
    let mut replaced: Option<usize> = None;
    if let Some(k) = case.replace {
        let k = k as usize % nwatch;
        if std::fs::remove_dir_all(&dirs[k]).is_err() || std::fs::create_dir_all(&dirs[k]).is_err() {
            ctx.infra("could not replace the watched directory");
            return;
        }
        let before = inotify_wds(ifd);
        let r = {
            let _s = track::scope(track::TAG_A10);
            watcher.watch_directory(dirs[k].clone(), Interest::ALL, Recursive::No)
        };
        if let Err(e) = r {
            ctx.infra(format!("watch_directory (replaced directory) failed: {e}"));
            return;
        }
        let after = inotify_wds(ifd);
        match after.iter().find(|w| !before.contains(w) && !wds.contains(w)) {
            Some(w) => {
                wds.push(*w);
                let p = dirs[k].clone();
                dirs.push(p);
                replaced = Some(k);
                classes_early.push("same-path-two-descriptors");
            }
            None => {
                ctx.infra("watching a replaced directory did not create a new watch descriptor");
                return;
            }
        }
    }
    if let Some(k) = case.rewatch.filter(|k| Some(*k as usize % nwatch) != replaced) {
        let k = k as usize % nwatch;
        // (A renamed directory: watch_directory does not follow links.)
        let link = dirs[k].parent().unwrap().join(format!("moved{k}"));
        if std::fs::rename(&dirs[k], &link).is_err() {
            ctx.infra("could not rename the watched directory");
            return;
        }
        let before = inotify_wds(ifd);
        let r = {
            let _s = track::scope(track::TAG_A10);
            watcher.watch_directory(link.clone(), Interest::ALL, Recursive::No)
        };
        let _ = std::fs::rename(&link, &dirs[k]);
        if let Err(e) = r {
            ctx.infra(format!("watch_directory (second path) failed: {e}"));
            return;
        }
        if inotify_wds(ifd) != before {
            ctx.infra("watching the same directory through a link created a new watch descriptor");
            return;
        }
        dirs[k] = link;
    }

    // The directory watched later through the Events iterator: the kernel
    // already has a watch for it (so its descriptor is known here), a10's
    // table has not; inotify_add_watch on the same inode returns the same
    // descriptor.
    let mut late: Option<(PathBuf, i32, usize, u8)> = None;
    if let Some((after, method)) = case.late {
        let base = dirs[0].parent().unwrap().join("late");
        let _ = std::fs::create_dir_all(&base);
        let target = if method % 4 >= 2 { base.join("f") } else { base.clone() };
        if method % 4 >= 2 {
            let _ = std::fs::write(&target, b"x");
        }
        let c = std::ffi::CString::new(target.as_os_str().as_bytes()).unwrap();
        let wd = unsafe { libc::inotify_add_watch(ifd, c.as_ptr(), libc::IN_ALL_EVENTS) };
        if wd < 0 || wds.contains(&wd) {
            ctx.infra("could not prepare the late watch");
            return;
        }
        late = Some((target, wd, after as usize, method));
    }
    // Index of the read that holds the record after whose yield the late
    // watch is added (records for it only appear in later reads).
    let mut late_from_answer: Option<usize> = late.as_ref().and_then(|l| if l.2 == 0 { Some(0) } else { None });

    // Build the reads and the model.
    let mut answers: Vec<Result<Vec<u8>, i32>> = Vec::new();
    let mut model: Vec<Result<Expected, i32>> = Vec::new();
    let mut forgotten: Vec<i32> = Vec::new();
    let mut classes: Vec<&'static str> = classes_early;
    let mut recs = case.records.iter().peekable();
    let errnos = [libc::EIO, libc::EBADF, libc::ENOMEM, libc::EAGAIN];
    let mut ended = false;
    // For "a record followed by IGNORED for its wd".
    let mut seen_wds: Vec<i32> = Vec::new();
    for r in &case.reads {
        if ended {
            break;
        }
        match r {
            Read::Empty => {
                answers.push(Ok(Vec::new()));
                ended = true;
            }
            Read::Error(k) => {
                let e = errnos[*k as usize % errnos.len()];
                answers.push(Err(e));
                model.push(Err(e));
                ended = true;
            }
            Read::Batch(n) => {
                let mut bytes = Vec::new();
                let mut count = 0;
                while count < *n {
                    let Some(rec) = recs.peek() else { break };
                    let late_wd = late.as_ref().filter(|_| late_from_answer.is_some_and(|a| answers.len() >= a)).map(|l| l.1);
                    let enc = encode(rec, &wds, late_wd);
                    if bytes.len() + enc.len() > BUF_SIZE {
                        break;
                    }
                    let rec = recs.next().unwrap();
                    bytes.extend_from_slice(&enc);
                    count += 1;
                    let wd = i32::from_ne_bytes(enc[0..4].try_into().unwrap());
                    let mask = u32::from_ne_bytes(enc[4..8].try_into().unwrap());
                    match rec.kind {
                        RecKind::Ignored => {
                            if seen_wds.contains(&wd) {
                                classes.push("ignored-after-record");
                            }
                            forgotten.push(wd);
                        }
                        RecKind::Overflow => {}
                        RecKind::Normal => {
                            seen_wds.push(wd);
                            let known = wds.iter().position(|w| *w == wd).filter(|_| !forgotten.contains(&wd));
                            let name_path = PathBuf::from(std::ffi::OsStr::from_bytes(&rec.name));
                            let path = match known {
                                Some(k) if rec.name.is_empty() => dirs[k].clone(),
                                Some(k) => dirs[k].join(&name_path),
                                None if late_wd == Some(wd) && !forgotten.contains(&wd) => {
                                    classes.push("late-watch-record");
                                    let dir = &late.as_ref().unwrap().0;
                                    if rec.name.is_empty() { dir.clone() } else { dir.join(&name_path) }
                                }
                                None => name_path,
                            };
                            model.push(Ok(Expected { wd, mask, cookie: rec.cookie, name: rec.name.clone(), path }));
                            if late_from_answer.is_none() && late.as_ref().is_some_and(|l| model.len() == l.2) {
                                // Later reads may carry the late descriptor.
                                late_from_answer = Some(answers.len() + 1);
                            }
                        }
                    }
                }
                if count == 0 {
                    // Nothing fits / no records left: an empty read ends the stream.
                    answers.push(Ok(Vec::new()));
                    ended = true;
                } else {
                    if count >= 2 {
                        classes.push("multi-record-read");
                    }
                    answers.push(Ok(bytes));
                }
            }
        }
    }
    if !ended {
        answers.push(Ok(Vec::new()));
    }

    let mut script = Script { answers, next: 0, errors: Vec::new(), reads_seen: 0 };
    let ptr = ScriptPtr(&mut script as *mut Script);
    sim::sim().enter_hook = Some(Box::new(move |ring: &mut SimRing, info: &EnterInfo| {
        let ptr = &ptr;
        let script = unsafe { &mut *ptr.0 };
        for s in &info.consumed {
            script.handle(ring, *s);
        }
    }));

    let fail = |ctx: &mut Ctx, kind: &str, msg: String| {
        ctx.violation(&format!("C17:{kind}"), msg);
    };
    let mut kept: Vec<Kept> = Vec::new();
    let check_kept = |kept: &mut Vec<Kept>, ctx: &mut Ctx, when: &str, after_drop: bool| -> bool {
        let mut invalidated = None;
        for k in kept.iter() {
            if after_drop && !k.across_drop {
                continue;
            }
            // E2 first: is the memory still the allocation it was in?
            let addr = k.ptr.cast::<u8>().addr();
            let live = track::lookup(addr).map(|b| b.serial);
            if live != k.block_serial || live.is_none() {
                invalidated = Some((k.index, "its buffer was freed".to_string()));
                break;
            }
            let e: &Event = unsafe { &*k.ptr };
            let (wd, mask, cookie) = parse_debug(e);
            if (wd, mask, cookie) != (k.expect.wd, k.expect.mask, k.expect.cookie) || name_of(e) != k.expect.name {
                invalidated = Some((k.index, format!("it now reads wd {wd} mask {mask:#x} name {:?} instead of wd {} mask {:#x} name {:?}", String::from_utf8_lossy(&name_of(e)), k.expect.wd, k.expect.mask, String::from_utf8_lossy(&k.expect.name))));
                break;
            }
        }
        if let Some((index, why)) = invalidated {
            let stop = ctx.violation("C17:retained-event-invalidated", format!("event #{index}, still held by the caller {when}, is no longer valid: {why}"));
            // Known finding excluded by construction: stop tracking retained events.
            kept.clear();
            return stop;
        }
        false
    };

    let waker = WakerHandle::new();
    let mut yielded = 0usize;
    let mut late_added = false;
    let mut finished = false;
    {
        let mut events = {
            let _s = track::scope(track::TAG_A10);
            watcher.events()
        };
        'outer: for _ in 0..400 {
            if ctx.failed() {
                break;
            }
            if check_kept(&mut kept, ctx, "across a later poll_next", false) {
                break;
            }
            if let Some((target, wd, after, method)) = late.as_ref().filter(|l| !late_added && yielded >= l.2) {
                late_added = true;
                let r = {
                    let _s = track::scope(track::TAG_A10);
                    match method % 4 {
                        0 => events.watch_directory(target.clone(), Interest::ALL, Recursive::No),
                        1 => events.watch(target.clone(), Interest::ALL, Recursive::No),
                        2 => events.watch_file(target.clone(), Interest::ALL),
                        _ => events.watch(target.clone(), Interest::ALL, Recursive::No),
                    }
                };
                if let Err(e) = r {
                    ctx.infra(format!("watching through the Events iterator failed: {e}"));
                    sim::sim().enter_hook = None;
                    return;
                }
                let _ = (wd, after);
                classes.push("watch-added-while-iterating");
            }
            let mut cx = Context::from_waker(&waker.waker);
            DECODE_STEPS.with(|c| c.set(0));
            a10::verif::install_point(Some(decode_step));
            let r = {
                let _s = track::scope(track::TAG_A10);
                catch(|| Pin::new(&mut events).poll_next(&mut cx))
            };
            a10::verif::install_point(None);
            match r {
                Err((msg, _)) if msg.contains(DECODE_LIVELOCK) => {
                    fail(ctx, "decode-livelock", format!("one Events::poll_next call went round its decoding loop more than {DECODE_STEP_LIMIT} times (a read holds at most 17 records) without returning: it no longer advances past a record (after {yielded} events; the kernel delivered {})", model.len()));
                    // The iterator's state is what made it spin: it is not polled again.
                    std::mem::forget(events);
                    sim::sim().enter_hook = None;
                    return;
                }
                Err((msg, loc)) => {
                    fail(ctx, "panic", format!("Events::poll_next panicked at {loc}: {msg}"));
                    break 'outer;
                }
                Ok(Poll::Pending) => {
                    let reads_before = script.reads_seen;
                    for _ in 0..2 {
                        let _ = world.poll_ring(Some(Duration::ZERO));
                    }
                    if script.reads_seen != reads_before && kept.iter().any(|k| k.left > 0 || k.across_drop) {
                        classes.push("retention-crosses-read");
                    }
                }
                Ok(Poll::Ready(None)) => {
                    finished = true;
                    if yielded < model.len() {
                        fail(ctx, "events-lost", format!("the stream ended after {yielded} events, the kernel delivered {}", model.len()));
                    }
                    break 'outer;
                }
                Ok(Poll::Ready(Some(item))) => {
                    let Some(want) = model.get(yielded) else {
                        fail(ctx, "extra-event", format!("event #{yielded} was yielded but the kernel delivered only {} user-visible events", model.len()));
                        break 'outer;
                    };
                    match (item, want) {
                        (Ok(e), Ok(want)) => {
                            let (wd, mask, cookie) = parse_debug(e);
                            let name = name_of(e);
                            let path = events.path_for(e).into_owned();
                            let got = Expected { wd, mask, cookie, name, path };
                            if got != *want {
                                let kind = if got.name != want.name { "wrong-name" } else if got.path != want.path { "wrong-path" } else { "wrong-event" };
                                fail(ctx, kind, format!("event #{yielded}: got {got:?}, the kernel delivered {want:?}"));
                            }
                            // Every predicate against inotify(7)'s bit for the
                            // documented meaning.
                            let m = want.mask;
                            let preds: [(&str, bool, u32); 16] = [
                                ("is_dir", e.is_dir(), 0x4000_0000),
                                ("accessed", e.accessed(), 0x1),
                                ("modified", e.modified(), 0x2),
                                ("metadata_changed", e.metadata_changed(), 0x4),
                                ("closed_write", e.closed_write(), 0x8),
                                ("closed_no_write", e.closed_no_write(), 0x10),
                                ("closed", e.closed(), 0x18),
                                ("opened", e.opened(), 0x20),
                                ("file_moved_from", e.file_moved_from(), 0x40),
                                ("file_moved_into", e.file_moved_into(), 0x80),
                                ("file_moved", e.file_moved(), 0xc0),
                                ("file_created", e.file_created(), 0x100),
                                ("file_deleted", e.file_deleted(), 0x200),
                                ("deleted", e.deleted(), 0x400),
                                ("moved", e.moved(), 0x800),
                                ("unmounted", e.unmounted(), 0x2000),
                            ];
                            for (name, got, bits) in preds {
                                if got != (m & bits != 0) {
                                    fail(ctx, "wrong-predicate", format!("event #{yielded} with mask {m:#x}: Event::{name}() is {got}, inotify bit(s) {bits:#x} say {}", m & bits != 0));
                                    break;
                                }
                            }
                            for k in kept.iter_mut() {
                                k.left = k.left.saturating_sub(1);
                            }
                            kept.retain(|k| k.left > 0 || k.across_drop);
                            let plan = case.keep.get(yielded).copied().unwrap_or(0);
                            if plan > 0 {
                                let addr = (e as *const Event).cast::<u8>().addr();
                                kept.push(Kept { ptr: e as *const Event, expect: want.clone(), left: if plan == 255 { u32::MAX } else { plan as u32 }, across_drop: plan == 255, block_serial: track::lookup(addr).map(|b| b.serial), index: yielded });
                            }
                        }
                        (Err(e), Err(errno)) => {
                            if e.raw_os_error() != Some(*errno) {
                                fail(ctx, "wrong-error", format!("item #{yielded}: error {e}, the kernel answered errno {errno}"));
                            }
                        }
                        (got, want) => {
                            fail(ctx, "wrong-item", format!("item #{yielded}: got {:?}, expected {want:?}", got.map(|e| format!("{e:?}")).map_err(|e| e.to_string())));
                        }
                    }
                    yielded += 1;
                }
            }
        }
        if !finished && !ctx.failed() {
            fail(ctx, "stream-did-not-end", format!("after {yielded} items the stream neither ended nor made progress"));
        }
        // Retained events across dropping the iterator.
        let _s = track::scope(track::TAG_A10);
        drop(events);
    }
    if !ctx.failed() && kept.iter().any(|k| k.across_drop) {
        classes.push("retained-across-drop");
        check_kept(&mut kept, ctx, "after the Events iterator was dropped (the Watcher is still borrowed)", true);
    }
    for e in script.errors.drain(..) {
        fail(ctx, "kernel-side", e);
    }
    sim::sim().enter_hook = None;
    {
        let _s = track::scope(track::TAG_A10);
        drop(watcher);
        for _ in 0..2 {
            let _ = world.poll_ring(Some(Duration::ZERO));
        }
        drop(world);
    }
    classes.sort();
    classes.dedup();
    for c in &classes {
        ctx.class(c);
    }
    ctx.nontrivial = classes.iter().any(|c| matches!(*c, "multi-record-read" | "ignored-after-record" | "retention-crosses-read"));
    ctx.fingerprint = format!("{}|{:x}", classes.join("|"), crate::common::fnv(&format!("{case:?}")) & 0xffff);
}
