#!/bin/sh
# Re-run the pinned suite in a seed's worktree (demo moved away), up to 3 times; prints pass counts.
id=$1; wt=/tmp/seed-$id
cd $wt || exit 2
mv tests/seed_demo.rs /tmp/seedlogs/$id-demo.rs
for k in 1 2 3; do
  TMPDIR=/tmp/seed-$id-tmp python3 /verif/tools/runtests.py /tmp/seedlogs/$id-suite$k.log cargo test --workspace --no-fail-fast --offline >/dev/null 2>&1
  rc=$?
  echo "$id resuite run=$k rc=$rc ok=$(grep -c '^test result: ok' /tmp/seedlogs/$id-suite$k.log) $(grep -E '^test .* FAILED|signal:' /tmp/seedlogs/$id-suite$k.log | head -3 | tr '\n' ';')"
done
mv /tmp/seedlogs/$id-demo.rs tests/seed_demo.rs
