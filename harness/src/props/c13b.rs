//! C13b — the request each operation hands to the kernel, audited field by
//! field against an encoding table written from io_uring_enter(2) and
//! liburing's `io_uring_prep_*` helpers (not from a10's encoders): "every
//! builder setting made before the first poll takes effect ... whether the
//! descriptor is regular or direct" for the settings whose effect the real
//! kernel does not reveal to C13's differential (msg_flags bits other than
//! PEEK/WAITALL/OOB, zero copy on addressed sends, multishot flags, splice
//! flags, wait options, advice values) and, for all of them, in every
//! combination rather than the few the differential can observe.
//!
//! Runs against the simulated kernel (installed for the duration of the
//! case): the operation is built with generated arguments and builder calls,
//! polled once, the consumed SQE and the user memory it points at (msghdr,
//! iovecs, socket address) are captured, the request is failed with EIO and
//! the future must resolve to exactly that error.

use std::future::Future;
use std::io;
use std::os::fd::{AsFd, AsRawFd, BorrowedFd};
use std::pin::Pin;
use std::task::{Context, Poll};
use std::time::Duration;

use a10::fd::Kind;
use a10::io::ReadBufPool;
use a10::net::{Domain, Protocol, RecvFlag, SendFlag, Type};
use a10::{AsyncFd, SubmissionQueue};
use proptest::prelude::*;
use serde::{Deserialize, Serialize};

use crate::abi::{self, Sqe};
use crate::common::Ctx;
use crate::interp::waker::WakerHandle;
use crate::interp::world::{RingCfg, World};
use crate::runner::catch;
use crate::sim::{self, EnterInfo, SimRing};
use crate::track::{self, Residence};

#[derive(Copy, Clone, Debug, Serialize, Deserialize, PartialEq, Eq)]
pub enum Addr {
    V4 { ip: u32, port: u16 },
    V6 { ip: u128, port: u16, flow: u32, scope: u32 },
    UnixPath { len: u8 },
    UnixAbstract { len: u8 },
    UnixUnnamed,
}

#[derive(Clone, Debug, Serialize, Deserialize, PartialEq, Eq)]
pub enum AOp {
    Read { cap: u16, filled: u16, from: Option<u64> },
    ReadVectored { caps: Vec<(u16, u16)>, from: Option<u64> },
    Write { len: u16, at: Option<u64> },
    WriteVectored { lens: Vec<u16>, at: Option<u64> },
    Recv { cap: u16, filled: u16, flags: Option<u8> },
    RecvVectored { caps: Vec<(u16, u16)>, flags: Option<u8> },
    /// family: 0 IPv4, 1 IPv6, 2 either (std SocketAddr), 3 Unix.
    RecvFrom { cap: u16, filled: u16, flags: Option<u8>, family: u8 },
    RecvFromVectored { caps: Vec<(u16, u16)>, flags: Option<u8>, family: u8 },
    Send { len: u16, flags: Option<u8>, zc: bool },
    SendTo { len: u16, flags: Option<u8>, zc: bool, addr: Addr },
    SendVectored { lens: Vec<u16>, flags: Option<u8>, zc: bool },
    SendToVectored { lens: Vec<u16>, flags: Option<u8>, zc: bool, addr: Addr },
    MultishotRecv { flags: Option<u8> },
    Accept { family: u8 },
    MultishotAccept,
    Splice { to: bool, len: u32, from: Option<u64>, at: Option<u64>, flags: Option<u8> },
    Allocate { off: u64, len: u32, mode: Option<u8> },
    Advise { off: u64, len: u32, advice: u8 },
    Truncate { len: u64 },
    Sync { data: bool },
    Metadata { only: Option<u8> },
    Socket { domain: u8, ty: u8, proto: Option<u8>, direct: bool },
    Pipe { direct_flag: bool, direct: bool },
    Shutdown { how: u8 },
    Listen { backlog: u32 },
    Connect { addr: Addr },
    Bind { addr: Addr },
    Wait { on: u8, id: u32, options: Option<u8> },
    /// `mem::advise` on an address that is never touched.
    Madvise { addr: u64, len: u32, advice: u8 },
}

#[derive(Clone, Debug, Serialize, Deserialize, PartialEq, Eq)]
pub struct Audit {
    pub op: AOp,
    /// The operation's descriptor is a direct descriptor.
    pub direct: bool,
}

fn off() -> impl Strategy<Value = Option<u64>> {
    proptest::option::weighted(0.7, prop_oneof![2 => Just(0u64), 4 => 0u64..1 << 20, 3 => any::<u64>().prop_map(|v| v >> 1), 1 => Just(u64::MAX - 1)])
}

fn caps() -> impl Strategy<Value = Vec<(u16, u16)>> {
    proptest::collection::vec((1u16..300, any::<u16>()), 1..=3)
}

fn addr() -> impl Strategy<Value = Addr> {
    prop_oneof![
        3 => (any::<u32>(), any::<u16>()).prop_map(|(ip, port)| Addr::V4 { ip, port }),
        3 => (any::<u128>(), any::<u16>(), any::<u32>(), any::<u32>()).prop_map(|(ip, port, flow, scope)| Addr::V6 { ip, port, flow, scope }),
        3 => prop_oneof![1u8..=107, Just(107u8), Just(1u8)].prop_map(|len| Addr::UnixPath { len }),
        3 => prop_oneof![0u8..=107, Just(107u8), Just(0u8)].prop_map(|len| Addr::UnixAbstract { len }),
        1 => Just(Addr::UnixUnnamed),
    ]
}

fn flags() -> impl Strategy<Value = Option<u8>> {
    proptest::option::weighted(0.8, any::<u8>())
}

pub fn strategy() -> impl Strategy<Value = Audit> {
    let op = prop_oneof![
        2 => (0u16..300, any::<u16>(), off()).prop_map(|(cap, filled, from)| AOp::Read { cap, filled, from }),
        2 => (caps(), off()).prop_map(|(caps, from)| AOp::ReadVectored { caps, from }),
        2 => (0u16..300, off()).prop_map(|(len, at)| AOp::Write { len, at }),
        2 => (proptest::collection::vec(0u16..300, 1..=3), off()).prop_map(|(lens, at)| AOp::WriteVectored { lens, at }),
        3 => (1u16..300, any::<u16>(), flags()).prop_map(|(cap, filled, flags)| AOp::Recv { cap, filled, flags }),
        3 => (caps(), flags()).prop_map(|(caps, flags)| AOp::RecvVectored { caps, flags }),
        3 => (1u16..300, any::<u16>(), flags(), 0u8..4).prop_map(|(cap, filled, flags, family)| AOp::RecvFrom { cap, filled, flags, family }),
        3 => (caps(), flags(), 0u8..4).prop_map(|(caps, flags, family)| AOp::RecvFromVectored { caps, flags, family }),
        3 => (0u16..300, flags(), any::<bool>()).prop_map(|(len, flags, zc)| AOp::Send { len, flags, zc }),
        4 => (0u16..300, flags(), any::<bool>(), addr()).prop_map(|(len, flags, zc, addr)| AOp::SendTo { len, flags, zc, addr }),
        3 => (proptest::collection::vec(0u16..300, 1..=3), flags(), any::<bool>()).prop_map(|(lens, flags, zc)| AOp::SendVectored { lens, flags, zc }),
        4 => (proptest::collection::vec(0u16..300, 1..=3), flags(), any::<bool>(), addr()).prop_map(|(lens, flags, zc, addr)| AOp::SendToVectored { lens, flags, zc, addr }),
        2 => flags().prop_map(|flags| AOp::MultishotRecv { flags }),
        2 => (0u8..4).prop_map(|family| AOp::Accept { family }),
        1 => Just(AOp::MultishotAccept),
        3 => (any::<bool>(), any::<u32>(), off(), off(), proptest::option::weighted(0.7, 0u8..4)).prop_map(|(to, len, from, at, flags)| AOp::Splice { to, len, from, at, flags }),
        2 => (any::<u64>().prop_map(|v| v >> 1), any::<u32>(), proptest::option::weighted(0.7, any::<u8>())).prop_map(|(off, len, mode)| AOp::Allocate { off, len, mode }),
        2 => (any::<u64>().prop_map(|v| v >> 1), any::<u32>(), 0u8..6).prop_map(|(off, len, advice)| AOp::Advise { off, len, advice }),
        1 => any::<u64>().prop_map(|len| AOp::Truncate { len }),
        1 => any::<bool>().prop_map(|data| AOp::Sync { data }),
        2 => proptest::option::weighted(0.8, any::<u8>()).prop_map(|only| AOp::Metadata { only }),
        2 => (0u8..3, 0u8..5, proptest::option::of(0u8..9), any::<bool>()).prop_map(|(domain, ty, proto, direct)| AOp::Socket { domain, ty, proto, direct }),
        1 => (any::<bool>(), any::<bool>()).prop_map(|(direct_flag, direct)| AOp::Pipe { direct_flag, direct }),
        1 => (0u8..3).prop_map(|how| AOp::Shutdown { how }),
        1 => any::<u32>().prop_map(|backlog| AOp::Listen { backlog }),
        3 => addr().prop_map(|addr| AOp::Connect { addr }),
        3 => addr().prop_map(|addr| AOp::Bind { addr }),
        2 => (0u8..3, 1u32..1 << 22, proptest::option::weighted(0.8, 0u8..5)).prop_map(|(on, id, options)| AOp::Wait { on, id, options }),
        2 => (any::<u64>().prop_map(|a| (a >> 17) << 12), any::<u32>(), 0u8..13).prop_map(|(addr, len, advice)| AOp::Madvise { addr, len, advice }),
    ];
    (op, any::<bool>()).prop_map(|(op, direct)| Audit { op, direct })
}

/// What the kernel was handed for one request, captured when it was consumed.
#[derive(Clone, Debug)]
struct Snap {
    sqe: Sqe,
    msg: Option<libc::msghdr>,
    /// (base, length) of the iovecs (readv/writev array or msghdr's).
    iov: Option<Vec<(usize, usize)>>,
    /// Bytes of the socket address a sending/connecting request points at.
    name: Option<Vec<u8>>,
    /// The value of the `socklen_t` an accept request points at.
    addrlen: Option<u32>,
    /// Residence of the address / result memory of receiving requests.
    out_live: bool,
    /// The buffer group of a buffer-select request was registered when the
    /// request was consumed.
    group_known: bool,
}

fn read_bytes(addr: usize, len: usize) -> Option<Vec<u8>> {
    if len == 0 {
        return Some(Vec::new());
    }
    if addr == 0 || track::residence(addr, len) == Residence::Unknown {
        return None;
    }
    Some(unsafe { std::slice::from_raw_parts(addr as *const u8, len) }.to_vec())
}

fn read_iov(array: usize, n: usize) -> Option<Vec<(usize, usize)>> {
    let mut out = Vec::new();
    for i in 0..n {
        let iov: libc::iovec = sim::regions::read_user(array + i * 16)?;
        out.push((iov.iov_base as usize, iov.iov_len));
    }
    Some(out)
}

fn snapshot(sqe: &Sqe) -> Snap {
    let mut s = Snap { sqe: *sqe, msg: None, iov: None, name: None, addrlen: None, out_live: true, group_known: true };
    match sqe.opcode {
        abi::OP_READV | abi::OP_WRITEV => s.iov = read_iov(sqe.addr as usize, sqe.len as usize),
        abi::OP_SENDMSG | abi::OP_SENDMSG_ZC | abi::OP_RECVMSG => {
            if let Some(msg) = sim::regions::read_user::<libc::msghdr>(sqe.addr as usize) {
                s.iov = read_iov(msg.msg_iov as usize, msg.msg_iovlen);
                if sqe.opcode == abi::OP_RECVMSG {
                    s.out_live = msg.msg_namelen == 0 || (msg.msg_name as usize != 0 && track::residence(msg.msg_name as usize, msg.msg_namelen as usize) != Residence::Unknown);
                } else {
                    s.name = read_bytes(msg.msg_name as usize, msg.msg_namelen as usize);
                }
                s.msg = Some(msg);
            }
        }
        abi::OP_SEND | abi::OP_SEND_ZC if sqe.off != 0 => s.name = read_bytes(sqe.off as usize, (sqe.file_index & 0xffff) as usize),
        abi::OP_CONNECT | abi::OP_BIND => s.name = read_bytes(sqe.addr as usize, sqe.off as usize),
        abi::OP_ACCEPT => {
            if sqe.off != 0 {
                s.addrlen = sim::regions::read_user::<u32>(sqe.off as usize);
                s.out_live = s.addrlen.is_some_and(|l| sqe.addr != 0 && track::residence(sqe.addr as usize, l as usize) != Residence::Unknown);
            }
        }
        abi::OP_STATX => s.out_live = sqe.off != 0 && track::residence(sqe.off as usize, size_of::<libc::statx>()) != Residence::Unknown,
        abi::OP_WAITID => s.out_live = sqe.off != 0 && track::residence(sqe.off as usize, size_of::<libc::siginfo_t>()) != Residence::Unknown,
        abi::OP_PIPE => s.out_live = sqe.addr != 0 && track::residence(sqe.addr as usize, 8) != Residence::Unknown,
        _ => {}
    }
    s
}

struct SnapsPtr(*mut Vec<Snap>);
unsafe impl Send for SnapsPtr {}

const AUDIT_ERRNO: i32 = libc::EIO;

enum Polled {
    Pending,
    Err(io::Error),
    Ok,
}

/// Poll `poll` until it resolves, failing every request of the operation
/// with EIO once it has been consumed; returns the requests seen.
fn capture(world: &mut World, mut poll: impl FnMut(&mut Context<'_>) -> Polled) -> Result<Vec<Snap>, String> {
    let mut snaps: Vec<Snap> = Vec::new();
    let ptr = SnapsPtr(&mut snaps as *mut Vec<Snap>);
    let hook: sim::EnterHook = Box::new(move |ring: &mut SimRing, info: &EnterInfo| {
        let ptr = &ptr;
        // SAFETY: `snaps` outlives the hook (removed below); single threaded.
        let snaps = unsafe { &mut *ptr.0 };
        for serial in &info.consumed {
            let Some(req) = ring.req(*serial).cloned() else { continue };
            if req.sqe.user_data < 4 || req.done {
                continue;
            }
            let mut snap = snapshot(&req.sqe);
            snap.group_known = req.sqe.flags & abi::IOSQE_BUFFER_SELECT == 0 || ring.pbuf(req.sqe.buf_group).is_some();
            snaps.push(snap);
            ring.complete(*serial, -AUDIT_ERRNO, 0, false);
        }
    });
    sim::sim().enter_hook = Some(hook);
    let waker = WakerHandle::new();
    let mut outcome = Err("stuck: the operation did not resolve within 12 polls after its request was failed with EIO".to_string());
    for _ in 0..12 {
        let mut cx = Context::from_waker(&waker.waker);
        let polled = {
            let _s = track::scope(track::TAG_A10);
            catch(|| poll(&mut cx))
        };
        match polled {
            Err((msg, loc)) => {
                outcome = Err(format!("panic: the operation panicked at {loc}: {msg}"));
                break;
            }
            Ok(Polled::Ok) => {
                outcome = Err("ok-after-error: the operation reported success although its request was failed with EIO".to_string());
                break;
            }
            Ok(Polled::Err(e)) => {
                outcome = if e.raw_os_error() == Some(AUDIT_ERRNO) { Ok(()) } else { Err(format!("wrong-error: the request was failed with EIO, the operation reports {e:?}")) };
                break;
            }
            Ok(Polled::Pending) => {
                for _ in 0..2 {
                    if let Err(e) = world.poll_ring(Some(Duration::ZERO)) {
                        sim::sim().enter_hook = None;
                        return Err(format!("infra:Ring::poll failed: {e}"));
                    }
                }
            }
        }
    }
    sim::sim().enter_hook = None;
    outcome.map(|()| snaps)
}

fn fut<F: Future<Output = io::Result<T>>, T>(f: F) -> impl FnMut(&mut Context<'_>) -> Polled {
    let mut f = Box::pin(f);
    move |cx| match f.as_mut().poll(cx) {
        Poll::Pending => Polled::Pending,
        Poll::Ready(Ok(_)) => Polled::Ok,
        Poll::Ready(Err(e)) => Polled::Err(e),
    }
}

fn vec_with(cap: u16, filled: u16) -> (Vec<u8>, usize, usize) {
    let mut v: Vec<u8> = Vec::with_capacity(cap as usize);
    let filled = if cap == 0 { 0 } else { ((filled as usize) * (cap as usize)) >> 16 };
    v.extend(std::iter::repeat_n(0x5a, filled));
    let addr = v.as_ptr() as usize + filled;
    let spare = v.capacity() - filled;
    (v, addr, spare)
}

fn src(len: u16, salt: u8) -> (Vec<u8>, usize) {
    let v: Vec<u8> = (0..len).map(|i| (i as u8).wrapping_mul(7).wrapping_add(salt)).collect();
    let addr = v.as_ptr() as usize;
    (v, addr)
}

const SEND_BITS: [(SendFlag, i32); 6] = [(SendFlag::CONFIRM, libc::MSG_CONFIRM), (SendFlag::DONT_ROUTE, libc::MSG_DONTROUTE), (SendFlag::EOR, libc::MSG_EOR), (SendFlag::MORE, libc::MSG_MORE), (SendFlag::OOB, libc::MSG_OOB), (SendFlag::FAST_OPEN, libc::MSG_FASTOPEN)];
const RECV_BITS: [(RecvFlag, i32); 5] = [(RecvFlag::CMSG_CLOEXEC, libc::MSG_CMSG_CLOEXEC), (RecvFlag::ERR_QUEUE, libc::MSG_ERRQUEUE), (RecvFlag::OOB, libc::MSG_OOB), (RecvFlag::PEEK, libc::MSG_PEEK), (RecvFlag::WAIT_ALL, libc::MSG_WAITALL)];

/// A non-empty subset of the flag constants and its value in <sys/socket.h>.
fn pick<F: Copy + std::ops::BitOr<Output = F>>(table: &[(F, i32)], bits: u8) -> (F, u32) {
    let mut f: Option<F> = None;
    let mut raw = 0u32;
    for (i, (flag, value)) in table.iter().enumerate() {
        if bits & (1 << i) != 0 {
            f = Some(match f {
                Some(x) => x | *flag,
                None => *flag,
            });
            raw |= *value as u32;
        }
    }
    match f {
        Some(f) => (f, raw),
        None => (table[bits as usize % table.len()].0, table[bits as usize % table.len()].1 as u32),
    }
}

fn unix_name(len: u8, salt: u8) -> Vec<u8> {
    (0..len).map(|i| b'a' + ((i as u8).wrapping_add(salt) % 26)).collect()
}

/// The bytes `struct sockaddr_*` holds for `a` and the length bind(2) and
/// friends are given for it (ip(7), ipv6(7), unix(7)).
fn sockaddr_bytes(a: Addr) -> Vec<u8> {
    let mut out = Vec::new();
    match a {
        Addr::V4 { ip, port } => {
            out.extend_from_slice(&(libc::AF_INET as u16).to_ne_bytes());
            out.extend_from_slice(&port.to_be_bytes());
            out.extend_from_slice(&ip.to_be_bytes());
            out.extend_from_slice(&[0; 8]);
        }
        Addr::V6 { ip, port, flow, scope } => {
            out.extend_from_slice(&(libc::AF_INET6 as u16).to_ne_bytes());
            out.extend_from_slice(&port.to_be_bytes());
            out.extend_from_slice(&flow.to_ne_bytes());
            out.extend_from_slice(&ip.to_be_bytes());
            out.extend_from_slice(&scope.to_ne_bytes());
        }
        Addr::UnixPath { len } => {
            out.extend_from_slice(&(libc::AF_UNIX as u16).to_ne_bytes());
            out.push(b'/');
            out.extend_from_slice(&unix_name(len - 1, 3));
            out.push(0);
        }
        Addr::UnixAbstract { len } => {
            out.extend_from_slice(&(libc::AF_UNIX as u16).to_ne_bytes());
            out.push(0);
            out.extend_from_slice(&unix_name(len, 5));
        }
        Addr::UnixUnnamed => out.extend_from_slice(&(libc::AF_UNIX as u16).to_ne_bytes()),
    }
    out
}

enum StdAddr {
    V4(std::net::SocketAddrV4),
    V6(std::net::SocketAddrV6),
    Unix(std::os::unix::net::SocketAddr),
}

fn std_addr(a: Addr) -> StdAddr {
    use std::os::linux::net::SocketAddrExt;
    use std::os::unix::ffi::OsStrExt;
    match a {
        Addr::V4 { ip, port } => StdAddr::V4(std::net::SocketAddrV4::new(std::net::Ipv4Addr::from(ip), port)),
        Addr::V6 { ip, port, flow, scope } => StdAddr::V6(std::net::SocketAddrV6::new(std::net::Ipv6Addr::from(ip), port, flow, scope)),
        Addr::UnixPath { len } => {
            let mut p = vec![b'/'];
            p.extend_from_slice(&unix_name(len - 1, 3));
            StdAddr::Unix(std::os::unix::net::SocketAddr::from_pathname(std::ffi::OsStr::from_bytes(&p)).expect("pathname"))
        }
        Addr::UnixAbstract { len } => StdAddr::Unix(std::os::unix::net::SocketAddr::from_abstract_name(unix_name(len, 5)).expect("abstract name")),
        Addr::UnixUnnamed => {
            // The address of an unbound socket.
            let s = std::os::unix::net::UnixDatagram::unbound().expect("unix socket");
            StdAddr::Unix(s.local_addr().expect("local_addr"))
        }
    }
}

/// Size of the address structure of a receiving family (0 IPv4, 1 IPv6,
/// 2 either, 3 Unix): what the kernel may fill at most.
fn storage_len(family: u8) -> Option<usize> {
    match family {
        0 => Some(size_of::<libc::sockaddr_in>()),
        1 => Some(size_of::<libc::sockaddr_in6>()),
        // Either family: at least an IPv6 address must fit.
        2 => None,
        _ => Some(size_of::<libc::sockaddr_un>()),
    }
}

struct Want {
    sqe: Sqe,
    /// Ignore `addr` (a pointer into a10's own state, checked by residence).
    any_addr: bool,
    /// Ignore `off` (same).
    any_off: bool,
    any_buf_group: bool,
    iov: Option<Vec<(usize, usize)>>,
    name: Option<Vec<u8>>,
    /// msghdr expectations: Some(true) sending (name as `name`), Some(false)
    /// receiving with `recv_name` bytes of address storage.
    msg: Option<bool>,
    recv_name: Option<Option<usize>>,
    mask_nosignal: bool,
    /// IOSQE_FIXED_FILE must not be set although the operation's descriptor
    /// is direct (it is not the request's `fd`).
    no_fixed_flag: bool,
}

fn prep(opcode: u8, fd: i32, addr: u64, len: u32, off: u64) -> Want {
    let mut sqe = Sqe::zeroed();
    sqe.opcode = opcode;
    sqe.fd = fd;
    sqe.addr = addr;
    sqe.len = len;
    sqe.off = off;
    Want { sqe, any_addr: false, any_off: false, any_buf_group: false, iov: None, name: None, msg: None, recv_name: None, mask_nosignal: false, no_fixed_flag: false }
}

const NO_OFFSET: u64 = u64::MAX;
const FILE_INDEX_ALLOC: u32 = u32::MAX;
const SPLICE_F_FD_IN_FIXED: u32 = 1 << 31;

pub fn run(case: &Audit, classes: &mut Vec<&'static str>, ctx: &mut Ctx) -> Result<(), String> {
    sim::install();
    let r = run_installed(case, classes, ctx);
    sim::uninstall();
    r
}

fn run_installed(case: &Audit, classes: &mut Vec<&'static str>, _ctx: &mut Ctx) -> Result<(), String> {
    let mut cfg = RingCfg::simple(3);
    cfg.direct_slots = 8;
    let mut world = World::new(&cfg).map_err(|e| format!("infra:{e}"))?;
    let i = world.new_fd();
    let no_fd = matches!(case.op, AOp::Socket { .. } | AOp::Pipe { .. } | AOp::Wait { .. } | AOp::Madvise { .. });
    let direct = case.direct && !no_fd;
    if direct {
        world.make_fd_direct(i).map_err(|e| format!("infra:{e}"))?;
        classes.push("direct-descriptor");
    }
    let afd: &'static AsyncFd = world.fd(i);
    let fd: i32 = if direct { world.direct_index.ok_or("infra:no direct index")? } else { afd.as_fd().ok_or("infra:no regular descriptor")?.as_raw_fd() };
    let sq: SubmissionQueue = world.sq();
    let fixed = if direct { abi::IOSQE_FIXED_FILE } else { 0 };
    // A second (regular) descriptor: the other end of a splice.
    let other = sim::sim().issue_fd();
    let other_fd = unsafe { BorrowedFd::borrow_raw(other) };

    let (snaps, mut want): (Result<Vec<Snap>, String>, Want) = match &case.op {
        AOp::Read { cap, filled, from } => {
            let (v, addr, spare) = vec_with(*cap, *filled);
            let mut f = { let _s = track::scope(track::TAG_A10); afd.read(v) };
            if let Some(o) = from {
                f = f.from(*o);
                classes.push("offset");
            }
            let mut w = prep(abi::OP_READ, fd, addr as u64, spare as u32, from.unwrap_or(NO_OFFSET));
            w.any_addr = spare == 0;
            (capture(&mut world, fut(f)), w)
        }
        AOp::ReadVectored { caps, from } => {
            let bufs: Vec<(Vec<u8>, usize, usize)> = caps.iter().map(|(c, f)| vec_with(*c, *f)).collect();
            let iov: Vec<(usize, usize)> = bufs.iter().map(|b| (b.1, b.2)).collect();
            let mut it = bufs.into_iter().map(|b| b.0);
            macro_rules! go {
                ($bufs:expr) => {{
                    let mut f = { let _s = track::scope(track::TAG_A10); afd.read_vectored($bufs) };
                    if let Some(o) = from {
                        f = f.from(*o);
                        classes.push("offset");
                    }
                    capture(&mut world, fut(f))
                }};
            }
            let snaps = match caps.len() {
                1 => go!([it.next().unwrap()]),
                2 => go!([it.next().unwrap(), it.next().unwrap()]),
                _ => go!((it.next().unwrap(), it.next().unwrap(), it.next().unwrap())),
            };
            let mut w = prep(abi::OP_READV, fd, 0, caps.len() as u32, from.unwrap_or(NO_OFFSET));
            w.any_addr = true;
            w.iov = Some(iov);
            (snaps, w)
        }
        AOp::Write { len, at } => {
            let (v, addr) = src(*len, 1);
            let mut f = { let _s = track::scope(track::TAG_A10); afd.write(v) };
            if let Some(o) = at {
                f = f.at(*o);
                classes.push("offset");
            }
            let mut w = prep(abi::OP_WRITE, fd, addr as u64, *len as u32, at.unwrap_or(NO_OFFSET));
            w.any_addr = *len == 0;
            (capture(&mut world, fut(f)), w)
        }
        AOp::WriteVectored { lens, at } => {
            let bufs: Vec<(Vec<u8>, usize)> = lens.iter().enumerate().map(|(k, l)| src(*l, k as u8)).collect();
            let iov: Vec<(usize, usize)> = bufs.iter().zip(lens).map(|(b, l)| (b.1, *l as usize)).collect();
            let mut it = bufs.into_iter().map(|b| b.0);
            macro_rules! go {
                ($bufs:expr) => {{
                    let mut f = { let _s = track::scope(track::TAG_A10); afd.write_vectored($bufs) };
                    if let Some(o) = at {
                        f = f.at(*o);
                        classes.push("offset");
                    }
                    capture(&mut world, fut(f))
                }};
            }
            let snaps = match lens.len() {
                1 => go!([it.next().unwrap()]),
                2 => go!([it.next().unwrap(), it.next().unwrap()]),
                _ => go!((it.next().unwrap(), it.next().unwrap(), it.next().unwrap())),
            };
            let mut w = prep(abi::OP_WRITEV, fd, 0, lens.len() as u32, at.unwrap_or(NO_OFFSET));
            w.any_addr = true;
            w.iov = Some(iov);
            (snaps, w)
        }
        AOp::Recv { cap, filled, flags } => {
            let (v, addr, spare) = vec_with(*cap, *filled);
            let mut f = { let _s = track::scope(track::TAG_A10); afd.recv(v) };
            let mut raw = 0;
            if let Some(b) = flags {
                let (fl, r) = pick(&RECV_BITS, *b);
                f = f.flags(fl);
                raw = r;
                classes.push("msg-flags");
            }
            let mut w = prep(abi::OP_RECV, fd, addr as u64, spare as u32, 0);
            w.sqe.op_flags = raw;
            (capture(&mut world, fut(f)), w)
        }
        AOp::RecvVectored { caps, flags } => {
            let bufs: Vec<(Vec<u8>, usize, usize)> = caps.iter().map(|(c, f)| vec_with(*c, *f)).collect();
            let iov: Vec<(usize, usize)> = bufs.iter().map(|b| (b.1, b.2)).collect();
            let mut it = bufs.into_iter().map(|b| b.0);
            let mut raw = 0;
            let fl = flags.map(|b| {
                let (fl, r) = pick(&RECV_BITS, b);
                raw = r;
                classes.push("msg-flags");
                fl
            });
            macro_rules! go {
                ($bufs:expr) => {{
                    let mut f = { let _s = track::scope(track::TAG_A10); afd.recv_vectored($bufs) };
                    if let Some(fl) = fl {
                        f = f.flags(fl);
                    }
                    capture(&mut world, fut(f))
                }};
            }
            let snaps = match caps.len() {
                1 => go!([it.next().unwrap()]),
                2 => go!([it.next().unwrap(), it.next().unwrap()]),
                _ => go!((it.next().unwrap(), it.next().unwrap(), it.next().unwrap())),
            };
            let mut w = prep(abi::OP_RECVMSG, fd, 0, 1, 0);
            w.any_addr = true;
            w.sqe.op_flags = raw;
            w.iov = Some(iov);
            w.msg = Some(false);
            w.recv_name = Some(Some(0));
            (snaps, w)
        }
        AOp::RecvFrom { cap, filled, flags, family } => {
            let (v, addr, spare) = vec_with(*cap, *filled);
            let mut raw = 0;
            let fl = flags.map(|b| {
                let (fl, r) = pick(&RECV_BITS, b);
                raw = r;
                classes.push("msg-flags");
                fl
            });
            macro_rules! go {
                ($a:ty) => {{
                    let mut f = { let _s = track::scope(track::TAG_A10); afd.recv_from::<_, $a>(v) };
                    if let Some(fl) = fl {
                        f = f.flags(fl);
                    }
                    capture(&mut world, fut(f))
                }};
            }
            let snaps = match family {
                0 => go!(std::net::SocketAddrV4),
                1 => go!(std::net::SocketAddrV6),
                2 => go!(std::net::SocketAddr),
                _ => go!(std::os::unix::net::SocketAddr),
            };
            let mut w = prep(abi::OP_RECVMSG, fd, 0, 1, 0);
            w.any_addr = true;
            w.sqe.op_flags = raw;
            w.iov = Some(vec![(addr, spare)]);
            w.msg = Some(false);
            w.recv_name = Some(storage_len(*family));
            (snaps, w)
        }
        AOp::RecvFromVectored { caps, flags, family } => {
            let bufs: Vec<(Vec<u8>, usize, usize)> = caps.iter().map(|(c, f)| vec_with(*c, *f)).collect();
            let iov: Vec<(usize, usize)> = bufs.iter().map(|b| (b.1, b.2)).collect();
            let mut raw = 0;
            let fl = flags.map(|b| {
                let (fl, r) = pick(&RECV_BITS, b);
                raw = r;
                classes.push("msg-flags");
                fl
            });
            macro_rules! with_addr {
                ($bufs:expr) => {{
                    macro_rules! go {
                        ($a:ty) => {{
                            let mut f = { let _s = track::scope(track::TAG_A10); afd.recv_from_vectored::<_, $a, _>($bufs) };
                            if let Some(fl) = fl {
                                f = f.flags(fl);
                            }
                            capture(&mut world, fut(f))
                        }};
                    }
                    match family {
                        0 => go!(std::net::SocketAddrV4),
                        1 => go!(std::net::SocketAddrV6),
                        2 => go!(std::net::SocketAddr),
                        _ => go!(std::os::unix::net::SocketAddr),
                    }
                }};
            }
            let mut it = bufs.into_iter().map(|b| b.0);
            let snaps = match caps.len() {
                1 => with_addr!([it.next().unwrap()]),
                2 => with_addr!([it.next().unwrap(), it.next().unwrap()]),
                _ => with_addr!((it.next().unwrap(), it.next().unwrap(), it.next().unwrap())),
            };
            let mut w = prep(abi::OP_RECVMSG, fd, 0, 1, 0);
            w.any_addr = true;
            w.sqe.op_flags = raw;
            w.iov = Some(iov);
            w.msg = Some(false);
            w.recv_name = Some(storage_len(*family));
            (snaps, w)
        }
        AOp::Send { len, flags, zc } => {
            let (v, addr) = src(*len, 2);
            let mut f = { let _s = track::scope(track::TAG_A10); afd.send(v) };
            let mut raw = 0;
            if let Some(b) = flags {
                let (fl, r) = pick(&SEND_BITS, *b);
                f = f.flags(fl);
                raw = r;
                classes.push("msg-flags");
            }
            if *zc {
                f = f.zc();
                classes.push("zero-copy");
            }
            let mut w = prep(if *zc { abi::OP_SEND_ZC } else { abi::OP_SEND }, fd, addr as u64, *len as u32, 0);
            w.any_addr = *len == 0;
            w.sqe.op_flags = raw;
            w.mask_nosignal = true;
            (capture(&mut world, fut(f)), w)
        }
        AOp::SendTo { len, flags, zc, addr: to } => {
            let (v, addr) = src(*len, 3);
            let mut raw = 0;
            let fl = flags.map(|b| {
                let (fl, r) = pick(&SEND_BITS, b);
                raw = r;
                classes.push("msg-flags");
                fl
            });
            macro_rules! go {
                ($a:expr) => {{
                    let mut f = { let _s = track::scope(track::TAG_A10); afd.send_to(v, $a) };
                    if let Some(fl) = fl {
                        f = f.flags(fl);
                    }
                    if *zc {
                        f = f.zc();
                    }
                    capture(&mut world, fut(f))
                }};
            }
            if *zc {
                classes.push("zero-copy");
            }
            let snaps = match std_addr(*to) {
                StdAddr::V4(a) => go!(a),
                StdAddr::V6(a) => go!(a),
                StdAddr::Unix(a) => go!(a),
            };
            let bytes = sockaddr_bytes(*to);
            let mut w = prep(if *zc { abi::OP_SEND_ZC } else { abi::OP_SEND }, fd, addr as u64, *len as u32, 0);
            w.any_addr = *len == 0;
            w.any_off = true;
            w.sqe.op_flags = raw;
            w.sqe.file_index = bytes.len() as u32;
            w.name = Some(bytes);
            w.mask_nosignal = true;
            (snaps, w)
        }
        AOp::SendVectored { lens, flags, zc } => {
            let bufs: Vec<(Vec<u8>, usize)> = lens.iter().enumerate().map(|(k, l)| src(*l, k as u8)).collect();
            let iov: Vec<(usize, usize)> = bufs.iter().zip(lens).map(|(b, l)| (b.1, *l as usize)).collect();
            let mut it = bufs.into_iter().map(|b| b.0);
            let mut raw = 0;
            let fl = flags.map(|b| {
                let (fl, r) = pick(&SEND_BITS, b);
                raw = r;
                classes.push("msg-flags");
                fl
            });
            macro_rules! go {
                ($bufs:expr) => {{
                    let mut f = { let _s = track::scope(track::TAG_A10); afd.send_vectored($bufs) };
                    if let Some(fl) = fl {
                        f = f.flags(fl);
                    }
                    if *zc {
                        f = f.zc();
                    }
                    capture(&mut world, fut(f))
                }};
            }
            if *zc {
                classes.push("zero-copy");
            }
            let snaps = match lens.len() {
                1 => go!([it.next().unwrap()]),
                2 => go!([it.next().unwrap(), it.next().unwrap()]),
                _ => go!((it.next().unwrap(), it.next().unwrap(), it.next().unwrap())),
            };
            let mut w = prep(if *zc { abi::OP_SENDMSG_ZC } else { abi::OP_SENDMSG }, fd, 0, 1, 0);
            w.any_addr = true;
            w.sqe.op_flags = raw;
            w.iov = Some(iov);
            w.msg = Some(true);
            w.name = Some(Vec::new());
            w.mask_nosignal = true;
            (snaps, w)
        }
        AOp::SendToVectored { lens, flags, zc, addr: to } => {
            let bufs: Vec<(Vec<u8>, usize)> = lens.iter().enumerate().map(|(k, l)| src(*l, k as u8)).collect();
            let iov: Vec<(usize, usize)> = bufs.iter().zip(lens).map(|(b, l)| (b.1, *l as usize)).collect();
            let mut raw = 0;
            let fl = flags.map(|b| {
                let (fl, r) = pick(&SEND_BITS, b);
                raw = r;
                classes.push("msg-flags");
                fl
            });
            if *zc {
                classes.push("zero-copy");
            }
            macro_rules! with_bufs {
                ($a:expr) => {{
                    macro_rules! go {
                        ($bufs:expr) => {{
                            let mut f = { let _s = track::scope(track::TAG_A10); afd.send_to_vectored($bufs, $a) };
                            if let Some(fl) = fl {
                                f = f.flags(fl);
                            }
                            if *zc {
                                f = f.zc();
                            }
                            capture(&mut world, fut(f))
                        }};
                    }
                    let mut it = bufs.into_iter().map(|b| b.0);
                    match lens.len() {
                        1 => go!([it.next().unwrap()]),
                        2 => go!([it.next().unwrap(), it.next().unwrap()]),
                        _ => go!((it.next().unwrap(), it.next().unwrap(), it.next().unwrap())),
                    }
                }};
            }
            let snaps = match std_addr(*to) {
                StdAddr::V4(a) => with_bufs!(a),
                StdAddr::V6(a) => with_bufs!(a),
                StdAddr::Unix(a) => with_bufs!(a),
            };
            let mut w = prep(if *zc { abi::OP_SENDMSG_ZC } else { abi::OP_SENDMSG }, fd, 0, 1, 0);
            w.any_addr = true;
            w.sqe.op_flags = raw;
            w.iov = Some(iov);
            w.msg = Some(true);
            w.name = Some(sockaddr_bytes(*to));
            w.mask_nosignal = true;
            (snaps, w)
        }
        AOp::MultishotRecv { flags } => {
            let pool = { let _s = track::scope(track::TAG_A10); ReadBufPool::new(sq.clone(), 2, 64) }.map_err(|e| format!("infra:ReadBufPool::new: {e}"))?;
            let mut it = { let _s = track::scope(track::TAG_A10); afd.multishot_recv(pool) };
            let mut raw = 0;
            if let Some(b) = flags {
                let (fl, r) = pick(&RECV_BITS, *b);
                it = it.flags(fl);
                raw = r;
                classes.push("msg-flags");
            }
            let mut it = Box::pin(it);
            let snaps = capture(&mut world, move |cx| match it.as_mut().poll_next(cx) {
                Poll::Pending => Polled::Pending,
                Poll::Ready(Some(Ok(_))) | Poll::Ready(None) => Polled::Ok,
                Poll::Ready(Some(Err(e))) => Polled::Err(e),
            });
            let mut w = prep(abi::OP_RECV, fd, 0, 0, 0);
            w.sqe.flags = abi::IOSQE_BUFFER_SELECT;
            w.sqe.ioprio = 2; // IORING_RECV_MULTISHOT
            w.sqe.op_flags = raw;
            w.any_buf_group = true;
            (snaps, w)
        }
        AOp::Accept { family } => {
            macro_rules! go {
                ($a:ty) => {{
                    let f = { let _s = track::scope(track::TAG_A10); afd.accept::<$a>() };
                    capture(&mut world, fut(f))
                }};
            }
            let snaps = match family {
                0 => go!(std::net::SocketAddrV4),
                1 => go!(std::net::SocketAddrV6),
                2 => go!(std::net::SocketAddr),
                _ => go!(std::os::unix::net::SocketAddr),
            };
            let mut w = prep(abi::OP_ACCEPT, fd, 0, 0, 0);
            w.any_addr = true;
            w.any_off = true;
            // The new descriptor is of the listener's kind; a regular one is
            // close-on-exec (what a10 promises for every descriptor it makes).
            if direct {
                w.sqe.file_index = FILE_INDEX_ALLOC;
            } else {
                w.sqe.op_flags = libc::SOCK_CLOEXEC as u32;
            }
            w.recv_name = Some(storage_len(*family));
            (snaps, w)
        }
        AOp::MultishotAccept => {
            let it = { let _s = track::scope(track::TAG_A10); afd.multishot_accept() };
            let mut it = Box::pin(it);
            let snaps = capture(&mut world, move |cx| match it.as_mut().poll_next(cx) {
                Poll::Pending => Polled::Pending,
                Poll::Ready(Some(Ok(_))) | Poll::Ready(None) => Polled::Ok,
                Poll::Ready(Some(Err(e))) => Polled::Err(e),
            });
            let mut w = prep(abi::OP_ACCEPT, fd, 0, 0, 0);
            w.sqe.ioprio = 1; // IORING_ACCEPT_MULTISHOT
            if direct {
                w.sqe.file_index = FILE_INDEX_ALLOC;
            } else {
                w.sqe.op_flags = libc::SOCK_CLOEXEC as u32;
            }
            (snaps, w)
        }
        AOp::Splice { to, len, from, at, flags } => {
            let mut f = { let _s = track::scope(track::TAG_A10); if *to { afd.splice_to(other_fd, *len) } else { afd.splice_from(other_fd, *len) } };
            if let Some(o) = from {
                f = f.from(*o);
                classes.push("offset");
            }
            if let Some(o) = at {
                f = f.at(*o);
                classes.push("offset");
            }
            let mut raw = 0;
            if let Some(b) = flags {
                let fl = match b {
                    0 => a10::io::SpliceFlag::MOVE,
                    1 => a10::io::SpliceFlag::MORE,
                    _ => a10::io::SpliceFlag::MOVE | a10::io::SpliceFlag::MORE,
                };
                raw = match b {
                    0 => libc::SPLICE_F_MOVE,
                    1 => libc::SPLICE_F_MORE,
                    _ => libc::SPLICE_F_MOVE | libc::SPLICE_F_MORE,
                };
                f = f.flags(fl);
                classes.push("splice-flags");
            }
            // io_uring_prep_splice(sqe, fd_in, off_in, fd_out, off_out, nbytes, flags).
            let (fd_in, fd_out) = if *to { (fd, other) } else { (other, fd) };
            let mut w = prep(abi::OP_SPLICE, fd_out, from.unwrap_or(NO_OFFSET), *len, at.unwrap_or(NO_OFFSET));
            w.sqe.file_index = fd_in as u32;
            w.sqe.op_flags = raw as u32;
            // IOSQE_FIXED_FILE describes `fd` (the output); a direct input
            // descriptor is announced with SPLICE_F_FD_IN_FIXED instead.
            if direct && *to {
                w.sqe.op_flags |= SPLICE_F_FD_IN_FIXED;
                w.no_fixed_flag = true;
            }
            (capture(&mut world, fut(f)), w)
        }
        AOp::Allocate { off, len, mode } => {
            let mut f = { let _s = track::scope(track::TAG_A10); afd.allocate(*off, *len) };
            let mut raw = 0;
            if let Some(b) = mode {
                use a10::fs::AllocateMode as M;
                let table = [(M::KEEP_SIZE, libc::FALLOC_FL_KEEP_SIZE), (M::UNSHARE_RANGE, libc::FALLOC_FL_UNSHARE_RANGE), (M::PUNCH_HOLE, libc::FALLOC_FL_PUNCH_HOLE), (M::COLLAPSE_RANGE, libc::FALLOC_FL_COLLAPSE_RANGE), (M::ZERO_RANGE, libc::FALLOC_FL_ZERO_RANGE), (M::INSERT_RANGE, libc::FALLOC_FL_INSERT_RANGE)];
                let (m, r) = pick(&table, *b);
                f = f.mode(m);
                raw = r;
                classes.push("allocate-mode");
            }
            // io_uring_prep_fallocate(sqe, fd, mode, offset, len): len in addr.
            let w = prep(abi::OP_FALLOCATE, fd, *len as u64, raw, *off);
            (capture(&mut world, fut(f)), w)
        }
        AOp::Advise { off, len, advice } => {
            use a10::fs::AdviseFlag as A;
            let table = [(A::NORMAL, libc::POSIX_FADV_NORMAL), (A::SEQUENTIAL, libc::POSIX_FADV_SEQUENTIAL), (A::RANDOM, libc::POSIX_FADV_RANDOM), (A::NO_REUSE, libc::POSIX_FADV_NOREUSE), (A::WILL_NEED, libc::POSIX_FADV_WILLNEED), (A::DONT_NEED, libc::POSIX_FADV_DONTNEED)];
            let (a, raw) = table[*advice as usize % table.len()];
            let f = { let _s = track::scope(track::TAG_A10); afd.advise(*off, *len, a) };
            let mut w = prep(abi::OP_FADVISE, fd, 0, *len, *off);
            w.sqe.op_flags = raw as u32;
            classes.push("advice");
            (capture(&mut world, fut(f)), w)
        }
        AOp::Truncate { len } => {
            let f = { let _s = track::scope(track::TAG_A10); afd.truncate(*len) };
            (capture(&mut world, fut(f)), prep(abi::OP_FTRUNCATE, fd, 0, 0, *len))
        }
        AOp::Sync { data } => {
            let f = { let _s = track::scope(track::TAG_A10); if *data { afd.sync_data() } else { afd.sync_all() } };
            let mut w = prep(abi::OP_FSYNC, fd, 0, 0, 0);
            w.sqe.op_flags = if *data { 1 } else { 0 }; // IORING_FSYNC_DATASYNC
            (capture(&mut world, fut(f)), w)
        }
        AOp::Metadata { only } => {
            use a10::fs::MetadataInterest as I;
            let mut f = { let _s = track::scope(track::TAG_A10); afd.metadata() };
            // STATX_BASIC_STATS | STATX_BTIME is what statx(2) calls
            // "everything"; a10's default is judged by C13's differential
            // (all fields filled), here only an explicit interest is.
            let mut mask: Option<u32> = None;
            if let Some(b) = only {
                let table = [(I::TYPE, libc::STATX_TYPE as i32), (I::SIZE, libc::STATX_SIZE as i32), (I::BLOCKS, libc::STATX_BLOCKS as i32), (I::MODE, libc::STATX_MODE as i32), (I::MODIFIED_TIME, libc::STATX_MTIME as i32), (I::ACCESSED_TIME, libc::STATX_ATIME as i32), (I::CREATED_TIME, libc::STATX_BTIME as i32)];
                let (m, r) = pick(&table, *b & 0x7f);
                f = f.only(m);
                mask = Some(r);
                classes.push("statx-mask");
            }
            let snaps = capture(&mut world, fut(f));
            // io_uring_prep_statx(sqe, dfd, path, flags, mask, statxbuf).
            let mut w = prep(abi::OP_STATX, fd, 0, mask.unwrap_or(0), 0);
            w.any_addr = true;
            w.any_off = true;
            w.sqe.op_flags = libc::AT_EMPTY_PATH as u32;
            if mask.is_none() {
                if let Ok(s) = &snaps {
                    w.sqe.len = s.first().map_or(0, |s| s.sqe.len);
                }
            }
            (snaps, w)
        }
        AOp::Socket { domain, ty, proto, direct: new_direct } => {
            let (d, d_raw) = [(Domain::IPV4, libc::AF_INET), (Domain::IPV6, libc::AF_INET6), (Domain::UNIX, libc::AF_UNIX)][*domain as usize % 3];
            let (t, t_raw) = [(Type::STREAM, libc::SOCK_STREAM), (Type::DGRAM, libc::SOCK_DGRAM), (Type::RAW, libc::SOCK_RAW), (Type::RDM, libc::SOCK_RDM), (Type::SEQPACKET, libc::SOCK_SEQPACKET)][*ty as usize % 5];
            let protos = [(Protocol::ICMPV4, libc::IPPROTO_ICMP), (Protocol::ICMPV6, libc::IPPROTO_ICMPV6), (Protocol::TCP, libc::IPPROTO_TCP), (Protocol::UDP, libc::IPPROTO_UDP), (Protocol::DCCP, libc::IPPROTO_DCCP), (Protocol::SCTP, libc::IPPROTO_SCTP), (Protocol::UDPLITE, libc::IPPROTO_UDPLITE), (Protocol::RAW, libc::IPPROTO_RAW), (Protocol::MPTCP, libc::IPPROTO_MPTCP)];
            let p = proto.map(|k| protos[k as usize % protos.len()]);
            let mut f = { let _s = track::scope(track::TAG_A10); a10::net::socket(sq.clone(), d, t, p.map(|p| p.0)) };
            if *new_direct {
                f = f.kind(Kind::Direct);
                classes.push("direct-descriptor");
            }
            // io_uring_prep_socket(sqe, domain, type, protocol, flags).
            let mut w = prep(abi::OP_SOCKET, d_raw, 0, p.map_or(0, |p| p.1 as u32), (t_raw | if *new_direct { 0 } else { libc::SOCK_CLOEXEC }) as u64);
            if *new_direct {
                w.sqe.file_index = FILE_INDEX_ALLOC;
            }
            (capture(&mut world, fut(f)), w)
        }
        AOp::Pipe { direct_flag, direct: new_direct } => {
            let mut f = { let _s = track::scope(track::TAG_A10); a10::pipe::pipe(sq.clone()) };
            if *direct_flag {
                f = f.flags(a10::pipe::PipeFlag::DIRECT);
                classes.push("pipe-flags");
            }
            if *new_direct {
                f = f.kind(Kind::Direct);
                classes.push("direct-descriptor");
            }
            let mut w = prep(abi::OP_PIPE, 0, 0, 0, 0);
            w.any_addr = true;
            w.sqe.op_flags = (if *direct_flag { libc::O_DIRECT } else { 0 } | if *new_direct { 0 } else { libc::O_CLOEXEC }) as u32;
            if *new_direct {
                w.sqe.file_index = FILE_INDEX_ALLOC;
            }
            (capture(&mut world, fut(f)), w)
        }
        AOp::Shutdown { how } => {
            let (h, raw) = [(std::net::Shutdown::Read, libc::SHUT_RD), (std::net::Shutdown::Write, libc::SHUT_WR), (std::net::Shutdown::Both, libc::SHUT_RDWR)][*how as usize % 3];
            let f = { let _s = track::scope(track::TAG_A10); afd.shutdown(h) };
            (capture(&mut world, fut(f)), prep(abi::OP_SHUTDOWN, fd, 0, raw as u32, 0))
        }
        AOp::Listen { backlog } => {
            let f = { let _s = track::scope(track::TAG_A10); afd.listen(*backlog) };
            (capture(&mut world, fut(f)), prep(abi::OP_LISTEN, fd, 0, *backlog, 0))
        }
        AOp::Connect { addr: to } | AOp::Bind { addr: to } => {
            let connect = matches!(case.op, AOp::Connect { .. });
            macro_rules! go {
                ($a:expr) => {{
                    if connect {
                        let f = { let _s = track::scope(track::TAG_A10); afd.connect($a) };
                        capture(&mut world, fut(f))
                    } else {
                        let f = { let _s = track::scope(track::TAG_A10); afd.bind($a) };
                        capture(&mut world, fut(f))
                    }
                }};
            }
            let snaps = match std_addr(*to) {
                StdAddr::V4(a) => go!(a),
                StdAddr::V6(a) => go!(a),
                StdAddr::Unix(a) => go!(a),
            };
            let bytes = sockaddr_bytes(*to);
            // io_uring_prep_connect/bind(sqe, fd, addr, addrlen): length in off.
            let mut w = prep(if connect { abi::OP_CONNECT } else { abi::OP_BIND }, fd, 0, 0, bytes.len() as u64);
            w.any_addr = true;
            w.name = Some(bytes);
            classes.push("address");
            (snaps, w)
        }
        AOp::Wait { on, id, options } => {
            use a10::process::{WaitOn, WaitOption as O};
            let (target, idtype, pid) = match on % 3 {
                0 => (WaitOn::Process(*id), libc::P_PID, *id),
                1 => (WaitOn::Group(*id), libc::P_PGID, *id),
                _ => (WaitOn::All, libc::P_ALL, 0),
            };
            let mut f = { let _s = track::scope(track::TAG_A10); a10::process::wait(sq.clone(), target) };
            let mut raw = 0;
            if let Some(k) = options {
                let (o, r) = [(O::UNTRACED, libc::WUNTRACED), (O::STOPPED, libc::WSTOPPED), (O::EXITED, libc::WEXITED), (O::CONTINUED, libc::WCONTINUED), (O::NO_WAIT, libc::WNOWAIT)][*k as usize % 5];
                f = f.flags(o);
                raw = r as u32;
                classes.push("wait-options");
            }
            // io_uring_prep_waitid(sqe, idtype, id, infop, options, flags).
            let mut w = prep(abi::OP_WAITID, pid as i32, 0, idtype as u32, 0);
            w.any_off = true;
            w.sqe.file_index = raw;
            // With P_ALL the id is ignored by waitid(2).
            if idtype == libc::P_ALL {
                if let Ok(s) = &Ok::<(), ()>(()) {
                    let _ = s;
                }
            }
            (capture(&mut world, fut(f)), w)
        }
        AOp::Madvise { addr, len, advice } => {
            use a10::mem::AdviseFlag as A;
            let table = [(A::NORMAL, libc::MADV_NORMAL), (A::RANDOM, libc::MADV_RANDOM), (A::SEQUENTIAL, libc::MADV_SEQUENTIAL), (A::WILL_NEED, libc::MADV_WILLNEED), (A::DONT_NEED, libc::MADV_DONTNEED), (A::REMOVE, libc::MADV_REMOVE), (A::DONT_FORK, libc::MADV_DONTFORK), (A::DO_FORK, libc::MADV_DOFORK), (A::HW_POISON, libc::MADV_HWPOISON), (A::MERGEABLE, libc::MADV_MERGEABLE), (A::UNMERGEABLE, libc::MADV_UNMERGEABLE), (A::SOFT_OFFLINE, libc::MADV_SOFT_OFFLINE), (A::HUGE_PAGE, libc::MADV_HUGEPAGE)];
            let (a, raw) = table[*advice as usize % table.len()];
            let f = { let _s = track::scope(track::TAG_A10); a10::mem::advise(sq.clone(), *addr as usize as *mut (), *len, a) };
            // io_uring_prep_madvise(sqe, addr, length, advice): fd -1.
            let mut w = prep(abi::OP_MADVISE, -1, *addr, *len, 0);
            w.sqe.op_flags = raw as u32;
            classes.push("advice");
            (capture(&mut world, fut(f)), w)
        }
    };

    let name = format!("{:?}", case.op);
    let name = name.split([' ', '{']).next().unwrap_or("op").to_string();
    let snaps = match snaps {
        Ok(s) => s,
        Err(e) => {
            drop(world);
            if let Some(m) = e.strip_prefix("infra:") {
                return Err(format!("infra:{m}"));
            }
            let (k, m) = e.split_once(": ").unwrap_or(("stuck", &e));
            return Err(format!("audit:{k}:{name}: {m}"));
        }
    };
    let result = judge(&name, case, &snaps, &mut want, fixed, direct, &mut world);
    drop(world);
    result
}

fn judge(name: &str, case: &Audit, snaps: &[Snap], want: &mut Want, fixed: u8, direct: bool, _world: &mut World) -> Result<(), String> {
    let at = if direct { "@direct" } else { "" };
    if snaps.len() != 1 {
        return Err(format!("audit:request-count:{name}{at}: the operation submitted {} requests before it resolved, expected exactly one ({:?})", snaps.len(), snaps.iter().map(|s| abi::opcode_name(s.sqe.opcode)).collect::<Vec<_>>()));
    }
    let s = &snaps[0];
    let mut got = s.sqe;
    let mut exp = want.sqe;
    if !want.no_fixed_flag {
        exp.flags |= fixed;
    }
    // Not judged: the operation's identity, and the IOSQE_ASYNC hint.
    got.user_data = 0;
    got.flags &= !abi::IOSQE_ASYNC;
    if want.any_addr {
        got.addr = 0;
        exp.addr = 0;
    }
    if want.any_off {
        got.off = 0;
        exp.off = 0;
    }
    if want.any_buf_group {
        let group = got.buf_group;
        if !s.group_known {
            return Err(format!("audit:buffer-group:{name}{at}: the request selects buffers from group {group}, which is not registered"));
        }
        got.buf_group = 0;
    }
    if want.mask_nosignal {
        // io_uring sets MSG_NOSIGNAL on every send itself.
        got.op_flags &= !(libc::MSG_NOSIGNAL as u32);
    }
    if matches!(case.op, AOp::Wait { on, .. } if on % 3 == 2) {
        // P_ALL: waitid(2) ignores the id.
        got.fd = 0;
        exp.fd = 0;
    }
    if got != exp {
        let mut diffs = Vec::new();
        macro_rules! field {
            ($f:ident, $what:expr) => {
                if got.$f != exp.$f {
                    diffs.push(format!("{} is {:#x}, expected {:#x}", $what, got.$f, exp.$f));
                }
            };
        }
        field!(opcode, "opcode");
        field!(flags, "sqe flags");
        field!(ioprio, "ioprio");
        field!(fd, "fd");
        field!(off, "off/addr2");
        field!(addr, "addr/splice_off_in");
        field!(len, "len");
        field!(op_flags, "op flags (rw/msg/accept/splice/fsync/advice/statx flags)");
        field!(buf_group, "buf_index/buf_group");
        field!(personality, "personality");
        field!(file_index, "file_index/splice_fd_in/addr_len/options");
        field!(addr3, "addr3");
        field!(pad2, "pad");
        return Err(format!("audit:encoding:{name}{at}: the request ({}) differs from what io_uring_enter(2) documents for these arguments: {} (case {:?})", abi::opcode_name(s.sqe.opcode), diffs.join("; "), case.op));
    }
    if let Some(iov) = &want.iov {
        let got_iov = s.iov.clone().ok_or_else(|| format!("audit:memory:{name}{at}: the iovec array of the request is not in live memory"))?;
        // Empty buffers may carry any base address.
        let norm = |v: &[(usize, usize)]| v.iter().map(|(b, l)| if *l == 0 { (0, 0) } else { (*b, *l) }).collect::<Vec<_>>();
        if norm(&got_iov) != norm(iov) {
            return Err(format!("audit:iovecs:{name}{at}: the request's iovecs are {got_iov:x?}, the caller's buffers are {iov:x?}"));
        }
    }
    if let Some(sending) = want.msg {
        let msg = s.msg.ok_or_else(|| format!("audit:memory:{name}{at}: the msghdr of the request is not in live memory"))?;
        if !msg.msg_control.is_null() || msg.msg_controllen != 0 {
            return Err(format!("audit:msghdr:{name}{at}: control buffer {:?}+{} although the operation has none", msg.msg_control, msg.msg_controllen));
        }
        if sending && msg.msg_flags != 0 {
            return Err(format!("audit:msghdr:{name}{at}: msg_flags {:#x} in the header of a send", msg.msg_flags));
        }
        if !sending {
            if let Some(Some(n)) = want.recv_name {
                if msg.msg_namelen as usize != n {
                    return Err(format!("audit:msghdr:{name}{at}: {} bytes of address storage offered to the kernel, the address structure of this family has {n}", msg.msg_namelen));
                }
            } else if (msg.msg_namelen as usize) < size_of::<libc::sockaddr_in6>() {
                return Err(format!("audit:msghdr:{name}{at}: {} bytes of address storage offered to the kernel, an IPv6 address needs {}", msg.msg_namelen, size_of::<libc::sockaddr_in6>()));
            }
        }
    }
    if let Some(name_bytes) = &want.name {
        match &s.name {
            None => return Err(format!("audit:memory:{name}{at}: the socket address of the request is not in live memory")),
            Some(got) if got != name_bytes => return Err(format!("audit:address:{name}{at}: the request points at the address bytes {got:02x?} ({} bytes), the address given is {name_bytes:02x?} ({} bytes)", got.len(), name_bytes.len())),
            Some(_) => {}
        }
    }
    if !s.out_live {
        return Err(format!("audit:memory:{name}{at}: memory the kernel is to write (address storage or result structure) is not in live memory"));
    }
    if let (Some(len), true) = (s.addrlen, matches!(case.op, AOp::Accept { .. })) {
        match want.recv_name {
            Some(Some(n)) if len as usize != n => return Err(format!("audit:address:{name}{at}: accept offers {len} bytes of address storage, the address structure of this family has {n}")),
            Some(None) if (len as usize) < size_of::<libc::sockaddr_in6>() => return Err(format!("audit:address:{name}{at}: accept offers {len} bytes of address storage, an IPv6 address needs {}", size_of::<libc::sockaddr_in6>())),
            _ => {}
        }
    } else if matches!(case.op, AOp::Accept { .. }) {
        return Err(format!("audit:memory:{name}{at}: accept's address length is not in live memory"));
    }
    Ok(())
}

#[allow(dead_code)]
fn _unused(_: Pin<&mut ()>) {}
