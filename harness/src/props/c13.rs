//! C13 — each operation equals its POSIX call (real-kernel differential, E6).
//!
//! No simulator here: the generated argument tuple is executed through a10 on
//! the real io_uring on twin A and through the corresponding libc call on
//! twin B; all observable state is compared.

use std::ffi::CString;
use std::future::Future;
use std::io;
use std::os::fd::{AsRawFd, FromRawFd, OwnedFd, RawFd};
use std::os::unix::ffi::OsStrExt;
use std::path::{Path, PathBuf};
use std::task::{Context, Poll};
use std::time::Duration;

use a10::fd::Kind;
use a10::fs::OpenOptions;
use a10::net::{Domain, RecvFlag, SendFlag, Type, option};
use a10::{AsyncFd, Ring, SubmissionQueue};
use proptest::prelude::*;
use serde::{Deserialize, Serialize};

use crate::common::{Ctx, Tier};
use crate::interp::waker::WakerHandle;
use crate::runner::{Property, catch};

#[derive(Clone, Debug, Serialize, Deserialize)]
pub enum FileOp {
    Read { len: u16, at: Option<u32> },
    ReadVectored { lens: Vec<u16>, at: Option<u32> },
    Write { len: u16, at: Option<u32>, seed: u8 },
    WriteVectored { lens: Vec<u16>, at: Option<u32>, seed: u8 },
    Truncate(u32),
    Allocate { off: u32, len: u32, keep_size: bool },
    Advise { off: u32, len: u32, advice: u8 },
    SyncAll,
    SyncData,
    Metadata,
}

#[derive(Clone, Debug, Serialize, Deserialize)]
pub enum TreeOp {
    Mkdir(u8),
    Rename(u8, u8),
    Unlink(u8),
    Rmdir(u8),
    Touch(u8),
}

#[derive(Copy, Clone, Debug, Serialize, Deserialize, PartialEq, Eq)]
pub enum AddrFamily {
    V4,
    V6,
    UnixPath,
    UnixAbstract,
    /// AF_INET6 socket bound to an IPv4-mapped address (::ffff:127.0.0.1).
    V6Mapped,
}

#[derive(Clone, Debug, Serialize, Deserialize)]
pub enum Case {
    File { initial: u32, append: bool, direct: bool, ops: Vec<FileOp> },
    Tree { ops: Vec<TreeOp> },
    Open {
        read: bool,
        write: bool,
        write_only: bool,
        append: bool,
        truncate: bool,
        create: bool,
        create_new: bool,
        sync: u8,
        mode: Option<u16>,
        target: u8,
        direct: bool,
        /// `open_temp_file` (O_TMPFILE) in a directory instead of `open`.
        #[serde(default)]
        temp: bool,
    },
    Stream { family: AddrFamily, direct: bool, payload: u16, send_flags: u8, recv_peek: bool, recv_waitall: bool, vectored: u8, shutdown: u8, name_len: u8 },
    Dgram {
        family: AddrFamily,
        payload: u16,
        vectored: u8,
        name_len: u8,
        /// A receive with MSG_PEEK first (builder `.flags(..)` of 1: recv_from,
        /// 2: recv_from_vectored, 3: recv_vectored, 4: recv); 0: none.
        #[serde(default)]
        peek: u8,
        /// The final receive is recv_from_vectored.
        #[serde(default)]
        final_vectored: bool,
        /// The vectored send is zero-copy / carries MSG_DONTROUTE.
        #[serde(default)]
        zc: bool,
        #[serde(default)]
        dontroute: bool,
    },
    SockOpt { which: u8, value: u32, tcp: bool },
    Pipe { direct_flag: bool, payload: u16, kind_direct: bool },
    Socket { domain: u8, ty: u8, direct: bool },
    /// recv_n / recv_n_vectored with MSG_PEEK whose first receive is short.
    RecvN { family: AddrFamily, c1: u16, vectored: bool },
    Splice {
        to_pipe: bool,
        off: Option<u32>,
        len: u16,
        file_len: u16,
        more: bool,
        /// The file is opened as a direct descriptor.
        #[serde(default)]
        direct: bool,
    },
    Convert { payload: u16, clone_first: bool },
    Madvise { pages: u8, off: u8, len: u8, advice: u8 },
    Wait { code: u8 },
    /// An IPv6 socket bound to a scoped (interface-local multicast) address:
    /// the names a10 reports carry the scope id getsockname(2) reports.
    ScopedV6 { group: u8, stream_type: bool },
    /// metadata() of files of every type, all fields, against statx(2) on the same object.
    Meta {
        target: u8,
        mode: u16,
        size: u16,
        /// (mtime s, ns, atime s, ns) set with futimens(2) before the query.
        #[serde(default)]
        times: Option<(i64, u32, i64, u32)>,
    },
    /// Operations on buffers from a ReadBufPool.
    PoolIo { dgram: bool, peek: bool, len: u16, pool_log2: u8, file_off: Option<u16> },
    /// The synchronous helpers (sync_socket, sync_bind, sync_listen,
    /// sync_local_addr, sync_pipe2) against socket(2)/bind(2)/listen(2)/
    /// getsockname(2)/pipe2(2).
    SyncSock { family: AddrFamily, ty: u8, name_len: u8, backlog: u16, pipe_direct: bool },
    /// The request handed to the (simulated) kernel, audited against the
    /// documented encoding (props/c13b.rs).
    Audit(super::c13b::Audit),
}

struct Real {
    ring: Ring,
    sq: SubmissionQueue,
    /// Findings after which the case goes on: (signature, message). Reported
    /// when the case is over (known findings are counted, anything else is the
    /// case's violation unless an earlier one was reported).
    soft: Vec<(String, String)>,
}

/// The error of an operation io_uring cannot perform on a direct descriptor.
fn is_unsupported(e: &io::Error) -> bool {
    e.kind() == io::ErrorKind::Unsupported || e.raw_os_error() == Some(libc::EOPNOTSUPP)
}

impl Real {
    fn new() -> io::Result<Real> {
        let ring = Ring::config().with_submission_queue_size(16).with_direct_descriptors(64).build()?;
        let sq = ring.sq();
        Ok(Real { ring, sq, soft: Vec::new() })
    }

    /// Drive a future to completion on the real ring.
    fn block_on<F: Future>(&mut self, fut: F) -> Result<F::Output, String> {
        self.block_on_for(fut, 4000)
    }

    /// Like `block_on`, giving up after `rounds` x 5 ms.
    fn block_on_for<F: Future>(&mut self, fut: F, rounds: u32) -> Result<F::Output, String> {
        let mut fut = Box::pin(fut);
        let w = WakerHandle::new();
        for _ in 0..rounds {
            let mut cx = Context::from_waker(&w.waker);
            match catch(|| fut.as_mut().poll(&mut cx)) {
                Err((m, l)) => {
                    std::mem::forget(fut);
                    return Err(format!("panicked at {l}: {m}"));
                }
                Ok(Poll::Ready(o)) => return Ok(o),
                Ok(Poll::Pending) => {
                    self.ring.poll(Some(Duration::from_millis(5))).map_err(|e| format!("Ring::poll: {e}"))?;
                }
            }
        }
        // The operation is abandoned (its future is dropped, which cancels it).
        Err(format!("operation did not complete within {} ms", rounds * 5))
    }
}

fn pattern(seed: u8, len: usize) -> Vec<u8> {
    (0..len).map(|j| (j as u8).wrapping_mul(31).wrapping_add(seed).wrapping_add((j >> 8) as u8)).collect()
}

fn cstr(p: &Path) -> CString {
    CString::new(p.as_os_str().as_bytes()).unwrap()
}

fn last_err() -> i32 {
    io::Error::last_os_error().raw_os_error().unwrap_or(0)
}

/// Errnos for which io_uring and the system call are documented to agree.
const ERRNO_AGREE: &[i32] = &[libc::ENOENT, libc::EEXIST, libc::ENOTDIR, libc::EISDIR, libc::ENOTEMPTY, libc::EBADF, libc::EPIPE, libc::ENOTCONN, libc::EADDRINUSE, libc::EACCES];

/// Compare an a10 result with the libc result (Ok(value) or Err(errno)).
fn same_outcome<T: PartialEq + std::fmt::Debug>(what: &str, a: &io::Result<T>, b: &Result<T, i32>) -> Result<(), String> {
    match (a, b) {
        (Ok(x), Ok(y)) if x == y => Ok(()),
        (Ok(x), Ok(y)) => Err(format!("value:{what}: a10 returned {x:?}, the system call {y:?}")),
        (Err(e), Err(errno)) => {
            if ERRNO_AGREE.contains(errno) && e.raw_os_error() != Some(*errno) {
                Err(format!("errno:{what}: a10 failed with {e}, the system call with errno {errno}"))
            } else {
                Ok(())
            }
        }
        (Ok(x), Err(errno)) => Err(format!("success-vs-failure:{what}: a10 succeeded with {x:?}, the system call failed with errno {errno}")),
        (Err(e), Ok(y)) => Err(format!("failure-vs-success:{what}: a10 failed with {e}, the system call succeeded with {y:?}")),
    }
}

struct Scratch {
    dir: PathBuf,
}

impl Scratch {
    fn new(tag: &str) -> Scratch {
        static N: std::sync::atomic::AtomicU64 = std::sync::atomic::AtomicU64::new(0);
        let n = N.fetch_add(1, std::sync::atomic::Ordering::Relaxed);
        let dir = std::env::temp_dir().join(format!("a10verif-c13-{}", std::process::id())).join(format!("{tag}{n}"));
        let _ = std::fs::create_dir_all(&dir);
        Scratch { dir }
    }
}

impl Drop for Scratch {
    fn drop(&mut self) {
        let _ = std::fs::remove_dir_all(&self.dir);
    }
}

pub struct C13;

fn file_op() -> impl Strategy<Value = FileOp> {
    let at = || proptest::option::weighted(0.6, prop_oneof![3 => 0u32..70_000, 1 => Just(0u32)]);
    let lens = || proptest::collection::vec(prop_oneof![1 => Just(0u16), 5 => 1u16..3000], 1..=8);
    prop_oneof![
        4 => (prop_oneof![1 => Just(0u16), 6 => 1u16..9000], at()).prop_map(|(len, at)| FileOp::Read { len, at }),
        3 => (lens(), at()).prop_map(|(lens, at)| FileOp::ReadVectored { lens, at }),
        4 => (prop_oneof![1 => Just(0u16), 6 => 1u16..9000], at(), any::<u8>()).prop_map(|(len, at, seed)| FileOp::Write { len, at, seed }),
        3 => (lens(), at(), any::<u8>()).prop_map(|(lens, at, seed)| FileOp::WriteVectored { lens, at, seed }),
        2 => (0u32..100_000).prop_map(FileOp::Truncate),
        2 => (0u32..100_000, 1u32..50_000, any::<bool>()).prop_map(|(off, len, keep_size)| FileOp::Allocate { off, len, keep_size }),
        1 => (0u32..100_000, 0u32..50_000, 0u8..6).prop_map(|(off, len, advice)| FileOp::Advise { off, len, advice }),
        1 => Just(FileOp::SyncAll),
        1 => Just(FileOp::SyncData),
        2 => Just(FileOp::Metadata),
    ]
}

fn family() -> impl Strategy<Value = AddrFamily> {
    prop_oneof![3 => Just(AddrFamily::V4), 3 => Just(AddrFamily::V6), 3 => Just(AddrFamily::UnixPath), 3 => Just(AddrFamily::UnixAbstract), 2 => Just(AddrFamily::V6Mapped)]
}

impl Property for C13 {
    const ID: &'static str = "C13";
    type Case = Case;

    fn uses_sim() -> bool {
        false
    }

    fn strategy(_tier: Tier) -> BoxedStrategy<Case> {
        let tree_op = prop_oneof![
            3 => (0u8..6).prop_map(TreeOp::Mkdir),
            3 => (0u8..6, 0u8..6).prop_map(|(a, b)| TreeOp::Rename(a, b)),
            2 => (0u8..6).prop_map(TreeOp::Unlink),
            2 => (0u8..6).prop_map(TreeOp::Rmdir),
            3 => (0u8..6).prop_map(TreeOp::Touch),
        ];
        prop_oneof![
            6 => (0u32..70_000, any::<bool>(), any::<bool>(), proptest::collection::vec(file_op(), 1..7)).prop_map(|(initial, append, direct, ops)| Case::File { initial, append, direct, ops }),
            3 => proptest::collection::vec(tree_op, 1..10).prop_map(|ops| Case::Tree { ops }),
            4 => (any::<bool>(), any::<bool>(), any::<bool>(), any::<bool>(), any::<bool>(), any::<bool>(), any::<bool>(), 0u8..3, proptest::option::of(0u16..0o1000), 0u8..4, any::<bool>())
                .prop_map(|(read, write, write_only, append, truncate, create, create_new, sync, mode, target, direct)| Case::Open { read, write, write_only, append, truncate, create, create_new, sync, mode, target, direct, temp: false }),
            1 => (any::<bool>(), any::<bool>(), any::<bool>(), proptest::option::of(0u16..0o1000), any::<bool>()).prop_map(|(read, write, write_only, mode, direct)| Case::Open { read, write, write_only, append: false, truncate: false, create: false, create_new: false, sync: 0, mode, target: 2, direct, temp: true }),
            5 => (family(), any::<bool>(), 1u16..5000, any::<u8>(), any::<bool>(), any::<bool>(), 0u8..5, 0u8..4, 1u8..100)
                .prop_map(|(family, direct, payload, send_flags, recv_peek, recv_waitall, vectored, shutdown, name_len)| Case::Stream { family, direct, payload, send_flags, recv_peek, recv_waitall, vectored, shutdown, name_len }),
            4 => (family(), 1u16..2000, 0u8..5, 1u8..100, 0u8..5, any::<bool>(), any::<bool>(), any::<bool>()).prop_map(|(family, payload, vectored, name_len, peek, final_vectored, zc, dontroute)| Case::Dgram { family, payload, vectored, name_len, peek, final_vectored, zc, dontroute }),
            3 => (0u8..16, any::<u32>(), any::<bool>()).prop_map(|(which, value, tcp)| Case::SockOpt { which, value, tcp }),
            2 => (any::<bool>(), 1u16..3000, any::<bool>()).prop_map(|(direct_flag, payload, kind_direct)| Case::Pipe { direct_flag, payload, kind_direct }),
            2 => (0u8..3, 0u8..3, any::<bool>()).prop_map(|(domain, ty, direct)| Case::Socket { domain, ty, direct }),
            2 => (family(), 1u16..3000, any::<bool>()).prop_map(|(family, c1, vectored)| Case::RecvN { family, c1, vectored }),
            3 => (any::<bool>(), proptest::option::weighted(0.6, 0u32..20_000), 1u16..9000, 0u16..20_000, any::<bool>(), any::<bool>()).prop_map(|(to_pipe, off, len, file_len, more, direct)| Case::Splice { to_pipe, off, len, file_len, more, direct }),
            2 => (1u16..5000, any::<bool>()).prop_map(|(payload, clone_first)| Case::Convert { payload, clone_first }),
            2 => (1u8..6, 0u8..6, 0u8..7, 0u8..5).prop_map(|(pages, off, len, advice)| Case::Madvise { pages, off, len, advice }),
            1 => any::<u8>().prop_map(|code| Case::Wait { code }),
            1 => (any::<u8>(), any::<bool>()).prop_map(|(group, stream_type)| Case::ScopedV6 { group, stream_type }),
            2 => (0u8..5, 0u16..0o1000, 0u16..9000, proptest::option::weighted(0.6, (file_secs(), 0u32..1_000_000_000, file_secs(), prop_oneof![Just(0u32), Just(999_999_999u32), 0u32..1_000_000_000]))).prop_map(|(target, mode, size, times)| Case::Meta { target, mode, size, times }),
            3 => (any::<bool>(), any::<bool>(), 1u16..4000, 0u8..3, proptest::option::weighted(0.5, 0u16..6000)).prop_map(|(dgram, peek, len, pool_log2, file_off)| Case::PoolIo { dgram, peek, len, pool_log2, file_off }),
            16 => super::c13b::strategy().prop_map(Case::Audit),
            2 => (family(), 0u8..3, 1u8..100, any::<u16>(), any::<bool>()).prop_map(|(family, ty, name_len, backlog, pipe_direct)| Case::SyncSock { family, ty, name_len, backlog, pipe_direct }),
        ]
        .boxed()
    }

    fn cases(tier: Tier) -> u32 {
        tier.pick(12_000, 600_000)
    }

    fn run(case: &Case, ctx: &mut Ctx) {
        if let Case::Audit(audit) = case {
            let mut classes: Vec<&'static str> = Vec::new();
            if let Err(e) = super::c13b::run(audit, &mut classes, ctx) {
                if let Some(msg) = e.strip_prefix("infra:") {
                    ctx.infra(msg.to_string());
                } else {
                    let (kind, msg) = e.split_once(": ").unwrap_or((&e, ""));
                    ctx.violation(&format!("C13:{kind}"), msg.to_string());
                }
            }
            ctx.class("audit");
            let name = format!("{:?}", audit.op);
            ctx.class(&format!("audit:{}", name.split([' ', '{']).next().unwrap_or("op")));
            classes.sort();
            classes.dedup();
            for c in &classes {
                ctx.class(c);
            }
            ctx.nontrivial = !classes.is_empty();
            ctx.fingerprint = format!("audit|{}|{:x}", classes.join("|"), crate::common::fnv(&format!("{case:?}")) & 0xfffff);
            return;
        }
        let mut real = match Real::new() {
            Ok(r) => r,
            Err(e) => {
                ctx.infra(format!("real io_uring not available: {e}"));
                return;
            }
        };
        let mut classes: Vec<&'static str> = Vec::new();
        let res = match case {
            Case::File { initial, append, direct, ops } => run_file(&mut real, *initial, *append, *direct, ops, &mut classes, ctx),
            Case::Tree { ops } => run_tree(&mut real, ops, &mut classes),
            Case::Open { .. } => run_open(&mut real, case, &mut classes),
            Case::Stream { .. } => run_stream(&mut real, case, &mut classes),
            Case::Dgram { .. } => run_dgram(&mut real, case, &mut classes),
            Case::SockOpt { which, value, tcp } => run_sockopt(&mut real, *which, *value, *tcp, &mut classes),
            Case::Pipe { direct_flag, payload, kind_direct } => run_pipe(&mut real, *direct_flag, *payload, *kind_direct, &mut classes),
            Case::Socket { domain, ty, direct } => run_socket(&mut real, *domain, *ty, *direct, &mut classes),
            Case::RecvN { family, c1, vectored } => run_recv_n(&mut real, *family, *c1, *vectored, &mut classes),
            Case::Splice { to_pipe, off, len, file_len, more, direct } => run_splice(&mut real, *to_pipe, *off, *len, *file_len, *more, *direct, &mut classes),
            Case::Convert { payload, clone_first } => run_convert(&mut real, *payload, *clone_first, &mut classes),
            Case::Madvise { pages, off, len, advice } => run_madvise(&mut real, *pages, *off, *len, *advice, &mut classes),
            Case::Wait { code } => run_wait(&mut real, *code, &mut classes),
            Case::ScopedV6 { group, stream_type } => run_scoped_v6(&mut real, *group, *stream_type, &mut classes),
            Case::Meta { target, mode, size, times } => run_meta(&mut real, *target, *mode, *size, *times, &mut classes),
            Case::PoolIo { dgram, peek, len, pool_log2, file_off } => run_pool_io(&mut real, *dgram, *peek, *len, *pool_log2, *file_off, &mut classes),
            Case::Audit(_) => unreachable!(),
            Case::SyncSock { family, ty, name_len, backlog, pipe_direct } => run_sync_sock(*family, *ty, *name_len, *backlog, *pipe_direct, &mut classes),
        };
        for (sig, msg) in std::mem::take(&mut real.soft) {
            ctx.violation(&format!("C13:{sig}"), msg);
        }
        if let Err(e) = res {
            if let Some(msg) = e.strip_prefix("infra:") {
                ctx.infra(msg.to_string());
            } else {
                let (kind, msg) = e.split_once(": ").unwrap_or((&e, ""));
                let mut msg = msg.to_string();
                if msg.len() > 700 {
                    let mut cut = 700;
                    while !msg.is_char_boundary(cut) {
                        cut -= 1;
                    }
                    msg.truncate(cut);
                    msg.push_str("…");
                }
                ctx.violation(&format!("C13:{kind}"), msg);
            }
        }
        drop(real);
        let fam = match case {
            Case::File { .. } => "file",
            Case::Tree { .. } => "tree",
            Case::Open { .. } => "open",
            Case::Stream { .. } => "stream",
            Case::Dgram { .. } => "dgram",
            Case::SockOpt { .. } => "sockopt",
            Case::Pipe { .. } => "pipe",
            Case::Socket { .. } => "socket",
            Case::RecvN { .. } => "recv_n",
            Case::Splice { .. } => "splice",
            Case::Convert { .. } => "convert",
            Case::Madvise { .. } => "madvise",
            Case::Wait { .. } => "wait",
            Case::ScopedV6 { .. } => "scoped-v6",
            Case::Meta { .. } => "metadata",
            Case::PoolIo { .. } => "pool-io",
            Case::Audit(_) => "audit",
            Case::SyncSock { .. } => "sync-helpers",
        };
        ctx.class(fam);
        classes.sort();
        classes.dedup();
        for c in &classes {
            ctx.class(c);
        }
        ctx.nontrivial = !classes.is_empty();
        ctx.fingerprint = format!("{fam}|{}|{:x}", classes.join("|"), crate::common::fnv(&format!("{case:?}")) & 0xfffff);
    }

    fn rule() -> &'static str {
        "proptest argument tuples per operation family, each executed through a10 on the real io_uring (twin A) and through the corresponding libc call (twin B) and compared: file I/O (read/write/readv/writev at current position and at generated offsets, append mode, lengths incl. 0, 1..8 vectors, truncate, fallocate with/without KEEP_SIZE, fadvise, fsync/fdatasync, statx) comparing returned counts, bytes, file contents, size, blocks and file position; directory trees (mkdir/rename/unlink/rmdir) comparing outcome and listing; open with every OpenOptions combination on existing/missing/directory paths comparing outcome, F_GETFL, mode and truncation; stream sockets over IPv4/IPv6/Unix path/Unix abstract (bind/listen/connect/accept/local_addr/peer_addr compared with getsockname/getpeername through the other API, send flags, recv PEEK/WAITALL, vectored send/recv, shutdown); datagram sockets (send_to/recv_from(+vectored), source addresses); socket options (set through a10, read through libc and vice versa); pipes (O_DIRECT, descriptor flags); socket creation (SO_DOMAIN/SO_TYPE/SO_PROTOCOL, FD_CLOEXEC); regular and direct descriptors. errno is compared only inside an allow-list where io_uring and the system call are documented to agree. About 22 % of the cases are encoding audits (props/c13b.rs) against the simulated kernel: one of 28 operations (read/write (+vectored) with from/at, recv/recv_vectored/recv_from/recv_from_vectored and send/send_to/send_vectored/send_to_vectored with every subset of their flag constants and zc(), multishot recv/accept, accept per address family, splice in both directions with from/at/flags, fallocate modes, fadvise advice, ftruncate, fsync/fdatasync, statx interest, socket domain/type/protocol/kind, pipe flags/kind, shutdown, listen, connect/bind with IPv4/IPv6/Unix path/abstract/unnamed addresses, waitid targets and options), on a regular or a direct descriptor, is built with generated arguments and builder calls and polled; the consumed SQE (all 64 bytes but user_data and the IOSQE_ASYNC hint), the iovecs, the msghdr and the socket address bytes it points at are compared with a table written from io_uring_enter(2) and liburing's io_uring_prep_* helpers, the request is failed with EIO and the future must resolve to exactly that error after exactly one request. Non-trivial = a tuple unlike those in tests/: offset other than 0/-1, length 0, >= 3 vectors, direct descriptor, Unix address, >= 2 flags. Distinct = (family, classes, 20-bit case hash)."
    }

    fn assumptions() -> Vec<&'static str> {
        vec!["the differential families run against the real kernel of the sandbox (no simulator), the encoding audits against the simulated kernel (which only records the request and fails it); twin fixtures are built identically with std; signal delivery and waitid are excluded (process-wide side effects)", "timing-dependent behaviour (short reads on sockets) is avoided by transferring less than the socket buffers hold and waiting for data with WAITALL/poll where needed"]
    }
}

fn nontrivial_offset(at: Option<u32>, classes: &mut Vec<&'static str>) {
    if matches!(at, Some(o) if o != 0) {
        classes.push("offset");
    }
}

fn run_file(real: &mut Real, initial: u32, append: bool, direct: bool, ops: &[FileOp], classes: &mut Vec<&'static str>, ctx: &mut Ctx) -> Result<(), String> {
    let scratch = Scratch::new("file");
    let pa = scratch.dir.join("a");
    let pb = scratch.dir.join("b");
    let init = pattern(9, initial as usize);
    std::fs::write(&pa, &init).map_err(|e| format!("infra:{e}"))?;
    std::fs::write(&pb, &init).map_err(|e| format!("infra:{e}"))?;
    let mut oo = OpenOptions::new().read().write();
    if append {
        oo = oo.append();
        classes.push("append");
    }
    if direct {
        oo = oo.kind(Kind::Direct);
        classes.push("direct-descriptor");
    }
    let fa: AsyncFd = real.block_on(oo.open(real.sq.clone(), pa.clone()))?.map_err(|e| format!("infra:a10 open failed: {e}"))?;
    let flags = libc::O_RDWR | libc::O_CLOEXEC | if append { libc::O_APPEND } else { 0 };
    let fb = unsafe { libc::open(cstr(&pb).as_ptr(), flags) };
    if fb < 0 {
        return Err("infra:libc open failed".into());
    }
    let fb_owned = unsafe { OwnedFd::from_raw_fd(fb) };
    for (k, op) in ops.iter().enumerate() {
        let what = format!("file.{}{}", format!("{op:?}").split([' ', '(', '{']).next().unwrap_or(""), if direct { "@direct" } else { "" });
        let what = what.as_str();
        let detail = |e: String| format!("{e} [step {k}: {op:?}]");
        match op {
            FileOp::Read { len, at } => {
                nontrivial_offset(*at, classes);
                if *len == 0 {
                    classes.push("zero-length");
                }
                let buf = Vec::with_capacity(*len as usize);
                let fut = fa.read(buf);
                let a = match at {
                    Some(o) => real.block_on(fut.from(*o as u64))?,
                    None => real.block_on(fut)?,
                };
                let mut bbuf = vec![0u8; *len as usize];
                let n = match at {
                    Some(o) => unsafe { libc::pread(fb, bbuf.as_mut_ptr().cast(), bbuf.len(), *o as i64) },
                    None => unsafe { libc::read(fb, bbuf.as_mut_ptr().cast(), bbuf.len()) },
                };
                let b = if n < 0 { Err(last_err()) } else { Ok(bbuf[..n as usize].to_vec()) };
                same_outcome(what, &a, &b).map_err(detail)?;
            }
            FileOp::ReadVectored { lens, at } => {
                nontrivial_offset(*at, classes);
                if lens.len() >= 3 {
                    classes.push(">=3-vectors");
                }
                let a: io::Result<Vec<Vec<u8>>> = read_vectored_a10(real, &fa, lens, *at)?;
                let mut bufs: Vec<Vec<u8>> = lens.iter().map(|l| vec![0u8; *l as usize]).collect();
                let iov: Vec<libc::iovec> = bufs.iter_mut().map(|b| libc::iovec { iov_base: b.as_mut_ptr().cast(), iov_len: b.len() }).collect();
                let n = match at {
                    Some(o) => unsafe { libc::preadv(fb, iov.as_ptr(), iov.len() as i32, *o as i64) },
                    None => unsafe { libc::readv(fb, iov.as_ptr(), iov.len() as i32) },
                };
                let b = if n < 0 {
                    Err(last_err())
                } else {
                    let mut left = n as usize;
                    for bf in bufs.iter_mut() {
                        let take = left.min(bf.len());
                        bf.truncate(take);
                        left -= take;
                    }
                    Ok(bufs)
                };
                same_outcome(what, &a, &b).map_err(detail)?;
            }
            FileOp::Write { len, at, seed } => {
                nontrivial_offset(*at, classes);
                let data = pattern(*seed, *len as usize);
                let fut = fa.write(data.clone());
                let a = match at {
                    Some(o) => real.block_on(fut.at(*o as u64))?,
                    None => real.block_on(fut)?,
                };
                let n = match at {
                    Some(o) => unsafe { libc::pwrite(fb, data.as_ptr().cast(), data.len(), *o as i64) },
                    None => unsafe { libc::write(fb, data.as_ptr().cast(), data.len()) },
                };
                let b = if n < 0 { Err(last_err()) } else { Ok(n as usize) };
                same_outcome(what, &a, &b).map_err(detail)?;
            }
            FileOp::WriteVectored { lens, at, seed } => {
                nontrivial_offset(*at, classes);
                if lens.len() >= 3 {
                    classes.push(">=3-vectors");
                }
                let bufs: Vec<Vec<u8>> = lens.iter().enumerate().map(|(i, l)| pattern(seed.wrapping_add(i as u8), *l as usize)).collect();
                let a = write_vectored_a10(real, &fa, bufs.clone(), *at)?;
                let iov: Vec<libc::iovec> = bufs.iter().map(|b| libc::iovec { iov_base: b.as_ptr().cast_mut().cast(), iov_len: b.len() }).collect();
                let n = match at {
                    Some(o) => unsafe { libc::pwritev(fb, iov.as_ptr(), iov.len() as i32, *o as i64) },
                    None => unsafe { libc::writev(fb, iov.as_ptr(), iov.len() as i32) },
                };
                let b = if n < 0 { Err(last_err()) } else { Ok(n as usize) };
                same_outcome(what, &a, &b).map_err(detail)?;
            }
            FileOp::Truncate(len) => {
                let a = real.block_on(fa.truncate(*len as u64))?;
                let r = unsafe { libc::ftruncate(fb, *len as i64) };
                same_outcome(what, &a, &if r < 0 { Err(last_err()) } else { Ok(()) }).map_err(detail)?;
            }
            FileOp::Allocate { off, len, keep_size } => {
                let fut = fa.allocate(*off as u64, *len);
                let a = if *keep_size { real.block_on(fut.mode(a10::fs::AllocateMode::KEEP_SIZE))? } else { real.block_on(fut)? };
                let r = unsafe { libc::fallocate(fb, if *keep_size { libc::FALLOC_FL_KEEP_SIZE } else { 0 }, *off as i64, *len as i64) };
                same_outcome(what, &a, &if r < 0 { Err(last_err()) } else { Ok(()) }).map_err(detail)?;
                classes.push("fallocate");
            }
            FileOp::Advise { off, len, advice } => {
                let flags = [a10::fs::AdviseFlag::NORMAL, a10::fs::AdviseFlag::RANDOM, a10::fs::AdviseFlag::SEQUENTIAL, a10::fs::AdviseFlag::WILL_NEED, a10::fs::AdviseFlag::DONT_NEED, a10::fs::AdviseFlag::NO_REUSE];
                let raw = [libc::POSIX_FADV_NORMAL, libc::POSIX_FADV_RANDOM, libc::POSIX_FADV_SEQUENTIAL, libc::POSIX_FADV_WILLNEED, libc::POSIX_FADV_DONTNEED, libc::POSIX_FADV_NOREUSE];
                let i = *advice as usize % flags.len();
                let a = real.block_on(fa.advise(*off as u64, *len, flags[i]))?;
                let r = unsafe { libc::posix_fadvise(fb, *off as i64, *len as i64, raw[i]) };
                same_outcome(what, &a, &if r != 0 { Err(r) } else { Ok(()) }).map_err(detail)?;
            }
            FileOp::SyncAll => {
                let a = real.block_on(fa.sync_all())?;
                let r = unsafe { libc::fsync(fb) };
                same_outcome(what, &a, &if r < 0 { Err(last_err()) } else { Ok(()) }).map_err(detail)?;
            }
            FileOp::SyncData => {
                let a = real.block_on(fa.sync_data())?;
                let r = unsafe { libc::fdatasync(fb) };
                same_outcome(what, &a, &if r < 0 { Err(last_err()) } else { Ok(()) }).map_err(detail)?;
            }
            FileOp::Metadata => {
                let a = match real.block_on(fa.metadata())? {
                    Ok(a) => a,
                    Err(e) => {
                        // fstat(2) on the twin cannot fail here.
                        if ctx.violation(&format!("C13:failure-vs-success:{what}"), format!("metadata failed with {e} where fstat(2) succeeds [step {k}: {op:?}]")) {
                            return Ok(());
                        }
                        continue;
                    }
                };
                let mut st: libc::stat = unsafe { std::mem::zeroed() };
                if unsafe { libc::fstat(fb, &mut st) } != 0 {
                    return Err("infra:fstat failed".into());
                }
                if a.len() != st.st_size as u64 || !a.is_file() || a.is_dir() {
                    return Err(format!("value:{what}: a10 metadata len {} file {} ; fstat size {}", a.len(), a.is_file(), st.st_size));
                }
                let mode_ok = a.permissions().owner_can_read() == (st.st_mode & 0o400 != 0) && a.permissions().owner_can_write() == (st.st_mode & 0o200 != 0) && a.permissions().others_can_read() == (st.st_mode & 0o004 != 0);
                if !mode_ok {
                    return Err(format!("value:{what}: permission bits differ from fstat mode {:o}", st.st_mode));
                }
            }
        }
        // Observable state after every operation.
        let ca = std::fs::read(&pa).map_err(|e| format!("infra:{e}"))?;
        let cb = std::fs::read(&pb).map_err(|e| format!("infra:{e}"))?;
        if ca != cb {
            let first = ca.iter().zip(&cb).position(|(x, y)| x != y).unwrap_or(ca.len().min(cb.len()));
            return Err(format!("file-content:{what}: the twin files differ after the operation (sizes {} vs {}, first difference at byte {first})", ca.len(), cb.len()));
        }
        // NOTE: allocated block counts of the twins are not compared: they
        // depend on write-back timing and on the file system's preallocation.
        // What fallocate guarantees is a lower bound, checked on both twins.
        if let FileOp::Allocate { len, .. } = op {
            use std::os::unix::fs::MetadataExt;
            let need = (*len as u64 / 4096) * 4096;
            let (ma, mb) = (std::fs::metadata(&pa).map_err(|e| format!("infra:{e}"))?, std::fs::metadata(&pb).map_err(|e| format!("infra:{e}"))?);
            if mb.blocks() * 512 >= need && ma.blocks() * 512 < need {
                return Err(format!("file-blocks:{what}: after allocating {len} bytes the file has {} bytes of blocks through a10 (fallocate(2) on the twin: {}) [step {k}: {op:?}]", ma.blocks() * 512, mb.blocks() * 512));
            }
        }
        if let Some(bfd) = fa.as_fd() {
            let pos_a = unsafe { libc::lseek(bfd.as_raw_fd(), 0, libc::SEEK_CUR) };
            let pos_b = unsafe { libc::lseek(fb, 0, libc::SEEK_CUR) };
            if pos_a != pos_b {
                return Err(format!("file-position:{what}: file position {pos_a} after the a10 operation, {pos_b} after the system call"));
            }
        }
    }
    let _ = real.block_on(fa.close());
    drop(fb_owned);
    Ok(())
}

fn read_vectored_a10(real: &mut Real, fa: &AsyncFd, lens: &[u16], at: Option<u32>) -> Result<io::Result<Vec<Vec<u8>>>, String> {
    let bufs: Vec<Vec<u8>> = lens.iter().map(|l| Vec::with_capacity(*l as usize)).collect();
    macro_rules! go {
        ($n:literal) => {{
            let arr: [Vec<u8>; $n] = bufs.try_into().unwrap();
            let fut = fa.read_vectored(arr);
            let r = match at {
                Some(o) => real.block_on(fut.from(o as u64))?,
                None => real.block_on(fut)?,
            };
            Ok(r.map(|a| a.into_iter().collect::<Vec<_>>()))
        }};
    }
    match lens.len() {
        1 => go!(1),
        2 => go!(2),
        3 => go!(3),
        4 => go!(4),
        5 => go!(5),
        6 => go!(6),
        7 => go!(7),
        _ => go!(8),
    }
}

fn write_vectored_a10(real: &mut Real, fa: &AsyncFd, bufs: Vec<Vec<u8>>, at: Option<u32>) -> Result<io::Result<usize>, String> {
    macro_rules! go {
        ($n:literal) => {{
            let arr: [Vec<u8>; $n] = bufs.try_into().unwrap();
            let fut = fa.write_vectored(arr);
            match at {
                Some(o) => real.block_on(fut.at(o as u64)),
                None => real.block_on(fut),
            }
        }};
    }
    match bufs.len() {
        1 => go!(1),
        2 => go!(2),
        3 => go!(3),
        4 => go!(4),
        5 => go!(5),
        6 => go!(6),
        7 => go!(7),
        _ => go!(8),
    }
}

fn listing(dir: &Path) -> Vec<String> {
    let mut out = Vec::new();
    fn walk(base: &Path, dir: &Path, out: &mut Vec<String>) {
        if let Ok(rd) = std::fs::read_dir(dir) {
            for e in rd.flatten() {
                let p = e.path();
                let rel = p.strip_prefix(base).unwrap().to_string_lossy().into_owned();
                let is_dir = p.is_dir();
                out.push(format!("{rel}{}", if is_dir { "/" } else { "" }));
                if is_dir {
                    walk(base, &p, out);
                }
            }
        }
    }
    walk(dir, dir, &mut out);
    out.sort();
    out
}

fn run_tree(real: &mut Real, ops: &[TreeOp], classes: &mut Vec<&'static str>) -> Result<(), String> {
    let scratch = Scratch::new("tree");
    let (ra, rb) = (scratch.dir.join("a"), scratch.dir.join("b"));
    for r in [&ra, &rb] {
        std::fs::create_dir_all(r.join("d0")).map_err(|e| format!("infra:{e}"))?;
        std::fs::write(r.join("f1"), b"x").map_err(|e| format!("infra:{e}"))?;
        std::fs::write(r.join("d0").join("f2"), b"y").map_err(|e| format!("infra:{e}"))?;
    }
    let names = ["d0", "f1", "d0/f2", "n3", "d0/n4", "n5"];
    let name = |k: u8| names[k as usize % names.len()];
    for (k, op) in ops.iter().enumerate() {
        let what = format!("tree.{}", format!("{op:?}").split('(').next().unwrap_or(""));
        let detail = |e: String| format!("{e} [step {k}: {op:?}]");
        let (a, b): (io::Result<()>, Result<(), i32>) = match op {
            TreeOp::Mkdir(n) => {
                let a = real.block_on(a10::fs::create_dir(real.sq.clone(), ra.join(name(*n))))?;
                let r = unsafe { libc::mkdir(cstr(&rb.join(name(*n))).as_ptr(), 0o777) };
                (a, if r < 0 { Err(last_err()) } else { Ok(()) })
            }
            TreeOp::Rename(x, y) => {
                let a = real.block_on(a10::fs::rename(real.sq.clone(), ra.join(name(*x)), ra.join(name(*y))))?;
                let r = unsafe { libc::rename(cstr(&rb.join(name(*x))).as_ptr(), cstr(&rb.join(name(*y))).as_ptr()) };
                (a, if r < 0 { Err(last_err()) } else { Ok(()) })
            }
            TreeOp::Unlink(n) => {
                let a = real.block_on(a10::fs::remove_file(real.sq.clone(), ra.join(name(*n))))?;
                let r = unsafe { libc::unlink(cstr(&rb.join(name(*n))).as_ptr()) };
                (a, if r < 0 { Err(last_err()) } else { Ok(()) })
            }
            TreeOp::Rmdir(n) => {
                let a = real.block_on(a10::fs::remove_dir(real.sq.clone(), ra.join(name(*n))))?;
                let r = unsafe { libc::rmdir(cstr(&rb.join(name(*n))).as_ptr()) };
                (a, if r < 0 { Err(last_err()) } else { Ok(()) })
            }
            TreeOp::Touch(n) => {
                let a = real.block_on(OpenOptions::new().write().create().open(real.sq.clone(), ra.join(name(*n))))?.map(|fd| drop(fd));
                let r = unsafe { libc::open(cstr(&rb.join(name(*n))).as_ptr(), libc::O_RDWR | libc::O_CREAT | libc::O_CLOEXEC, 0o666) };
                if r >= 0 {
                    unsafe { libc::close(r) };
                }
                (a, if r < 0 { Err(last_err()) } else { Ok(()) })
            }
        };
        // Let the asynchronous close of Touch land.
        let _ = real.ring.poll(Some(Duration::ZERO));
        same_outcome(&what, &a, &b).map_err(detail)?;
        if b.is_err() {
            classes.push("failing-call");
        }
        let (la, lb) = (listing(&ra), listing(&rb));
        if la != lb {
            return Err(format!("tree-listing:{what}: directory trees differ: a10 {la:?}, system calls {lb:?} [step {k}: {op:?}]"));
        }
    }
    classes.push("tree");
    Ok(())
}

fn run_open(real: &mut Real, case: &Case, classes: &mut Vec<&'static str>) -> Result<(), String> {
    let Case::Open { read, write, write_only, append, truncate, create, create_new, sync, mode, target, direct, temp } = case else { unreachable!() };
    let scratch = Scratch::new("open");
    let (ra, rb) = (scratch.dir.join("a"), scratch.dir.join("b"));
    for r in [&ra, &rb] {
        std::fs::create_dir_all(r.join("dir")).map_err(|e| format!("infra:{e}"))?;
        std::fs::write(r.join("existing"), pattern(3, 5000)).map_err(|e| format!("infra:{e}"))?;
    }
    let rel = ["existing", "missing", "dir", "dir/new"][*target as usize % 4];
    // a10 side: builder calls in a fixed order.
    let mut oo = OpenOptions::new();
    let mut flags = libc::O_RDONLY;
    // Independent reading of the documentation of each builder method.
    if *write_only {
        oo = oo.write_only();
        flags = libc::O_WRONLY;
    }
    if *write {
        oo = oo.write();
        if flags == libc::O_RDONLY {
            flags = libc::O_RDWR;
        }
    }
    if *read {
        oo = oo.read();
        if flags == libc::O_WRONLY {
            flags = libc::O_RDWR;
        }
    }
    if *append {
        oo = oo.append();
        flags |= libc::O_APPEND;
    }
    if *truncate {
        oo = oo.truncate();
        flags |= libc::O_TRUNC;
    }
    if *create {
        oo = oo.create();
        flags |= libc::O_CREAT;
    }
    if *create_new {
        oo = oo.create_new();
        flags |= libc::O_CREAT | libc::O_EXCL;
    }
    match sync {
        1 => {
            oo = oo.data_sync();
            flags |= libc::O_DSYNC;
        }
        2 => {
            oo = oo.sync();
            flags |= libc::O_SYNC;
        }
        _ => {}
    }
    let m = mode.map(|m| m as u32);
    if let Some(m) = m {
        oo = oo.mode(m);
    }
    if *direct {
        oo = oo.kind(Kind::Direct);
        classes.push("direct-descriptor");
    }
    if *temp {
        classes.push("temp-file");
        flags |= libc::O_TMPFILE;
    }
    let a = if *temp { real.block_on(oo.open_temp_file(real.sq.clone(), ra.join(rel)))? } else { real.block_on(oo.open(real.sq.clone(), ra.join(rel)))? };
    let fb = unsafe { libc::open(cstr(&rb.join(rel)).as_ptr(), flags | libc::O_CLOEXEC, m.unwrap_or(0o666)) };
    let b = if fb < 0 { Err(last_err()) } else { Ok(()) };
    let what = format!("open{}", if *direct { "@direct" } else { "" });
    let detail = |e: String| format!("{e} [{rel} flags {flags:#o} mode {m:?}]");
    same_outcome(&what, &a.as_ref().map(|_| ()).map_err(|e| io::Error::from_raw_os_error(e.raw_os_error().unwrap_or(0))), &b).map_err(detail)?;
    if let (Ok(fa), true) = (&a, fb >= 0) {
        if let Some(bfd) = fa.as_fd() {
            let mask = libc::O_ACCMODE | libc::O_APPEND | libc::O_DSYNC | libc::O_SYNC;
            let (ga, gb) = (unsafe { libc::fcntl(bfd.as_raw_fd(), libc::F_GETFL) } & mask, unsafe { libc::fcntl(fb, libc::F_GETFL) } & mask);
            if ga != gb {
                return Err(detail(format!("open-flags:{what}: F_GETFL {ga:#o} through a10, {gb:#o} through open(2)")));
            }
            let (ca, cb) = (unsafe { libc::fcntl(bfd.as_raw_fd(), libc::F_GETFD) }, unsafe { libc::fcntl(fb, libc::F_GETFD) });
            if ca != cb {
                return Err(detail(format!("open-cloexec:{what}: F_GETFD {ca} vs {cb}")));
            }
            // The object behind the descriptor: type and permission bits.
            let st = |fd: RawFd| {
                let mut st: libc::stat = unsafe { std::mem::zeroed() };
                if unsafe { libc::fstat(fd, &mut st) } == 0 { Some(st.st_mode) } else { None }
            };
            let (sa, sb) = (st(bfd.as_raw_fd()), st(fb));
            if sa != sb {
                return Err(detail(format!("open-mode:{what}: fstat st_mode {:o} through a10, {:o} through open(2)", sa.unwrap_or(0), sb.unwrap_or(0))));
            }
        }
    }
    if fb >= 0 {
        unsafe { libc::close(fb) };
    }
    drop(a);
    let _ = real.ring.poll(Some(Duration::ZERO));
    // Effects on the file system.
    use std::os::unix::fs::MetadataExt;
    for f in ["existing", "missing", "dir/new"] {
        let (ma, mb) = (std::fs::metadata(ra.join(f)).ok(), std::fs::metadata(rb.join(f)).ok());
        let (sa, sb) = (ma.as_ref().map(|m| (m.len(), m.mode() & 0o7777)), mb.as_ref().map(|m| (m.len(), m.mode() & 0o7777)));
        if sa != sb {
            return Err(detail(format!("open-effect:{what}: {f} is (len, mode) {sa:?} after a10 and {sb:?} after open(2)")));
        }
    }
    if [*read, *write, *write_only, *append, *truncate, *create, *create_new].iter().filter(|b| **b).count() >= 2 {
        classes.push(">=2-flags");
    }
    Ok(())
}

/// A listening address for the family, unique per call.
enum AnyAddr {
    Ip(std::net::SocketAddr),
    Unix(std::os::unix::net::SocketAddr, Option<PathBuf>),
}

fn make_addr(family: AddrFamily, scratch: &Scratch, tag: &str, name_len: u8) -> AnyAddr {
    use std::os::linux::net::SocketAddrExt;
    static N: std::sync::atomic::AtomicU64 = std::sync::atomic::AtomicU64::new(0);
    let n = N.fetch_add(1, std::sync::atomic::Ordering::Relaxed);
    match family {
        AddrFamily::V4 => AnyAddr::Ip("127.0.0.1:0".parse().unwrap()),
        AddrFamily::V6 => AnyAddr::Ip("[::1]:0".parse().unwrap()),
        AddrFamily::V6Mapped => AnyAddr::Ip("[::ffff:127.0.0.1]:0".parse().unwrap()),
        AddrFamily::UnixPath => {
            let p = scratch.dir.join(format!("{tag}{n}.sock"));
            AnyAddr::Unix(std::os::unix::net::SocketAddr::from_pathname(&p).unwrap(), Some(p))
        }
        AddrFamily::UnixAbstract => {
            let mut name = format!("a10verif-{}-{tag}{n}-", std::process::id()).into_bytes();
            // Abstract names are plain bytes: every third name is padded with
            // NUL bytes (and so ends in one), the others with letters.
            let pad = if name_len % 3 == 0 { 0 } else { b'x' };
            if name_len % 3 == 0 {
                name.push(0);
            }
            while name.len() < name_len as usize {
                name.push(pad);
            }
            AnyAddr::Unix(std::os::unix::net::SocketAddr::from_abstract_name(&name).unwrap(), None)
        }
    }
}

fn unix_desc(a: &std::os::unix::net::SocketAddr) -> String {
    use std::os::linux::net::SocketAddrExt;
    if let Some(p) = a.as_pathname() {
        format!("path:{}", p.display())
    } else if let Some(n) = a.as_abstract_name() {
        format!("abstract:{:?}", n)
    } else {
        "unnamed".into()
    }
}

/// Address of a socket as the *other* API (libc through std) reports it.
fn std_local_addr(fd: RawFd, unix: bool) -> String {
    if unix {
        let mut st: libc::sockaddr_un = unsafe { std::mem::zeroed() };
        let mut len = size_of::<libc::sockaddr_un>() as u32;
        if unsafe { libc::getsockname(fd, (&raw mut st).cast(), &mut len) } != 0 {
            return "error".into();
        }
        unix_from_raw(&st, len)
    } else {
        let s = unsafe { socket_borrow(fd) };
        s.local_addr().ok().and_then(|a| a.as_socket()).map(|a| a.to_string()).unwrap_or("error".into())
    }
}

fn std_peer_addr(fd: RawFd, unix: bool) -> String {
    if unix {
        let mut st: libc::sockaddr_un = unsafe { std::mem::zeroed() };
        let mut len = size_of::<libc::sockaddr_un>() as u32;
        if unsafe { libc::getpeername(fd, (&raw mut st).cast(), &mut len) } != 0 {
            return "error".into();
        }
        unix_from_raw(&st, len)
    } else {
        let s = unsafe { socket_borrow(fd) };
        s.peer_addr().ok().and_then(|a| a.as_socket()).map(|a| a.to_string()).unwrap_or("error".into())
    }
}

fn unix_from_raw(st: &libc::sockaddr_un, len: u32) -> String {
    let n = (len as usize).saturating_sub(2);
    let path: Vec<u8> = st.sun_path[..n.min(108)].iter().map(|c| *c as u8).collect();
    if n == 0 {
        "unnamed".into()
    } else if path[0] == 0 {
        format!("abstract:{:?}", &path[1..])
    } else {
        let end = path.iter().position(|b| *b == 0).unwrap_or(path.len());
        format!("path:{}", String::from_utf8_lossy(&path[..end]))
    }
}

struct BorrowedSock {
    fd: RawFd,
}
impl BorrowedSock {
    fn local_addr(&self) -> io::Result<SockAddrAny> {
        let mut st: libc::sockaddr_storage = unsafe { std::mem::zeroed() };
        let mut len = size_of::<libc::sockaddr_storage>() as u32;
        if unsafe { libc::getsockname(self.fd, (&raw mut st).cast(), &mut len) } != 0 {
            return Err(io::Error::last_os_error());
        }
        Ok(SockAddrAny(st))
    }
    fn peer_addr(&self) -> io::Result<SockAddrAny> {
        let mut st: libc::sockaddr_storage = unsafe { std::mem::zeroed() };
        let mut len = size_of::<libc::sockaddr_storage>() as u32;
        if unsafe { libc::getpeername(self.fd, (&raw mut st).cast(), &mut len) } != 0 {
            return Err(io::Error::last_os_error());
        }
        Ok(SockAddrAny(st))
    }
}
struct SockAddrAny(libc::sockaddr_storage);
impl SockAddrAny {
    fn as_socket(&self) -> Option<std::net::SocketAddr> {
        match self.0.ss_family as i32 {
            libc::AF_INET => {
                let a: &libc::sockaddr_in = unsafe { &*(&raw const self.0).cast() };
                Some(std::net::SocketAddr::V4(std::net::SocketAddrV4::new(std::net::Ipv4Addr::from(a.sin_addr.s_addr.to_ne_bytes()), u16::from_be(a.sin_port))))
            }
            libc::AF_INET6 => {
                let a: &libc::sockaddr_in6 = unsafe { &*(&raw const self.0).cast() };
                Some(std::net::SocketAddr::V6(std::net::SocketAddrV6::new(std::net::Ipv6Addr::from(a.sin6_addr.s6_addr), u16::from_be(a.sin6_port), a.sin6_flowinfo, a.sin6_scope_id)))
            }
            _ => None,
        }
    }
}
unsafe fn socket_borrow(fd: RawFd) -> BorrowedSock {
    BorrowedSock { fd }
}

fn domain_of(f: AddrFamily) -> Domain {
    match f {
        AddrFamily::V4 => Domain::IPV4,
        AddrFamily::V6 | AddrFamily::V6Mapped => Domain::IPV6,
        _ => Domain::UNIX,
    }
}

/// A connected stream pair created entirely through a10: (client, accepted).
/// Also compares every address a10 reports with what libc reports.
fn a10_stream_pair(real: &mut Real, family: AddrFamily, direct: bool, scratch: &Scratch, name_len: u8) -> Result<(AsyncFd, AsyncFd, AsyncFd), String> {
    let unix = matches!(family, AddrFamily::UnixPath | AddrFamily::UnixAbstract);
    let dom = domain_of(family);
    let listener = real.block_on(a10::net::socket(real.sq.clone(), dom, Type::STREAM, None))?.map_err(|e| format!("infra:socket: {e}"))?;
    let client = real.block_on(a10::net::socket(real.sq.clone(), dom, Type::STREAM, None).kind(if direct { Kind::Direct } else { Kind::File }))?.map_err(|e| format!("infra:socket: {e}"))?;
    let addr = make_addr(family, scratch, "s", name_len);
    let lfd = listener.as_fd().unwrap().as_raw_fd();
    let want_local;
    match &addr {
        AnyAddr::Ip(a) => {
            real.block_on(listener.bind(*a))?.map_err(|e| format!("failure-vs-success:bind {a}: {e}"))?;
            want_local = std_local_addr(lfd, false);
        }
        AnyAddr::Unix(a, _) => {
            real.block_on(listener.bind(a.clone()))?.map_err(|e| format!("failure-vs-success:bind {}: {e}", unix_desc(a)))?;
            want_local = std_local_addr(lfd, true);
            // The address bound through a10 must be the address asked for.
            if want_local != unix_desc(a) {
                return Err(format!("address:bind: asked a10 to bind {}, getsockname(2) reports {want_local}", unix_desc(a)));
            }
        }
    }
    real.block_on(listener.listen(8))?.map_err(|e| format!("failure-vs-success:listen: {e}"))?;
    // local_addr through a10 vs getsockname through libc.
    let got_local = if unix {
        real.block_on(listener.local_addr::<std::os::unix::net::SocketAddr>())?.map(|a| unix_desc(&a)).map_err(|e| format!("failure-vs-success:local_addr: {e}"))?
    } else {
        real.block_on(listener.local_addr::<std::net::SocketAddr>())?.map(|a| a.to_string()).map_err(|e| format!("failure-vs-success:local_addr: {e}"))?
    };
    if got_local != want_local {
        return Err(format!("address:local_addr: a10 reports {got_local}, getsockname(2) reports {want_local}"));
    }
    // Connect (the kernel queues the connection; accept afterwards).
    if unix {
        let AnyAddr::Unix(a, _) = &addr else { unreachable!() };
        real.block_on(client.connect(a.clone()))?.map_err(|e| format!("failure-vs-success:connect {}: {e}", unix_desc(a)))?;
    } else {
        let a: std::net::SocketAddr = want_local.parse().map_err(|_| format!("infra:bad local addr {want_local}"))?;
        real.block_on(client.connect(a))?.map_err(|e| format!("failure-vs-success:connect {a}: {e}"))?;
    }
    let (accepted, peer_seen) = if unix {
        let (s, a) = real.block_on(listener.accept::<std::os::unix::net::SocketAddr>())?.map_err(|e| format!("failure-vs-success:accept: {e}"))?;
        (s, unix_desc(&a))
    } else {
        let (s, a) = real.block_on(listener.accept::<std::net::SocketAddr>())?.map_err(|e| format!("failure-vs-success:accept: {e}"))?;
        (s, a.to_string())
    };
    // The client's view (regular or direct descriptor): its peer is the
    // listener's address, its own address is what accept reported.
    {
        let at = if direct { "@direct" } else { "" };
        let (got_peer, got_local): (io::Result<String>, io::Result<String>) = if unix {
            (real.block_on(client.peer_addr::<std::os::unix::net::SocketAddr>())?.map(|a| unix_desc(&a)), real.block_on(client.local_addr::<std::os::unix::net::SocketAddr>())?.map(|a| unix_desc(&a)))
        } else {
            (real.block_on(client.peer_addr::<std::net::SocketAddr>())?.map(|a| a.to_string()), real.block_on(client.local_addr::<std::net::SocketAddr>())?.map(|a| a.to_string()))
        };
        for (what, got, want) in [("peer_addr", got_peer, &want_local), ("local_addr", got_local, &peer_seen)] {
            match got {
                Ok(got) if &got == want => {}
                Ok(got) => return Err(format!("address:client.{what}{at}: a10 reports {got} for the connected client, the other side says {want}")),
                // No way to ask the kernel about a direct descriptor: a10 says
                // so (the twin, getsockname(2) on the same socket, works).
                Err(e) if direct && is_unsupported(&e) => real.soft.push(("failure-vs-success:socket-name@direct:unsupported".into(), format!("{what} on a direct descriptor: {e}"))),
                Err(e) => return Err(format!("failure-vs-success:client.{what}{at}: {e} (getsockname(2)/getpeername(2) on the same socket report {want})")),
            }
        }
    }
    // The peer address accept returned vs getpeername on the accepted socket.
    if let Some(afd) = accepted.as_fd() {
        let want = std_peer_addr(afd.as_raw_fd(), unix);
        if want != peer_seen {
            return Err(format!("address:accept: a10 returned peer {peer_seen}, getpeername(2) reports {want}"));
        }
        // peer_addr through a10.
        let got = if unix {
            real.block_on(accepted.peer_addr::<std::os::unix::net::SocketAddr>())?.map(|a| unix_desc(&a)).map_err(|e| format!("failure-vs-success:peer_addr: {e}"))?
        } else {
            real.block_on(accepted.peer_addr::<std::net::SocketAddr>())?.map(|a| a.to_string()).map_err(|e| format!("failure-vs-success:peer_addr: {e}"))?
        };
        if got != want {
            return Err(format!("address:peer_addr: a10 reports {got}, getpeername(2) reports {want}"));
        }
    }
    Ok((client, accepted, listener))
}

fn std_stream_pair(family: AddrFamily, scratch: &Scratch) -> Result<(OwnedFd, OwnedFd), String> {
    use std::os::fd::IntoRawFd;
    let own = |fd: RawFd| unsafe { OwnedFd::from_raw_fd(fd) };
    match family {
        AddrFamily::V4 | AddrFamily::V6 | AddrFamily::V6Mapped => {
            let l = std::net::TcpListener::bind(match family {
                AddrFamily::V4 => "127.0.0.1:0",
                AddrFamily::V6 => "[::1]:0",
                _ => "[::ffff:127.0.0.1]:0",
            }).map_err(|e| format!("infra:{e}"))?;
            let c = std::net::TcpStream::connect(l.local_addr().unwrap()).map_err(|e| format!("infra:{e}"))?;
            let (s, _) = l.accept().map_err(|e| format!("infra:{e}"))?;
            Ok((own(c.into_raw_fd()), own(s.into_raw_fd())))
        }
        _ => {
            let _ = scratch;
            let (a, b) = std::os::unix::net::UnixStream::pair().map_err(|e| format!("infra:{e}"))?;
            Ok((own(a.into_raw_fd()), own(b.into_raw_fd())))
        }
    }
}

fn run_stream(real: &mut Real, case: &Case, classes: &mut Vec<&'static str>) -> Result<(), String> {
    let Case::Stream { family, direct, payload, send_flags, recv_peek, recv_waitall, vectored, shutdown, name_len } = case else { unreachable!() };
    let scratch = Scratch::new("stream");
    if matches!(family, AddrFamily::UnixPath | AddrFamily::UnixAbstract) {
        classes.push("unix-address");
    }
    if *direct {
        classes.push("direct-descriptor");
    }
    let (ca, sa, _la) = a10_stream_pair(real, *family, *direct, &scratch, *name_len)?;
    let (cb, sb) = std_stream_pair(*family, &scratch)?;
    let data = pattern(17, *payload as usize);
    // Send flags: MORE / DONTROUTE / (OOB only on TCP changes what is received; leave it out) .
    let mut sf: Option<SendFlag> = None;
    let mut raw_sf = 0;
    if send_flags & 1 != 0 {
        sf = Some(SendFlag::MORE);
        raw_sf |= libc::MSG_MORE;
    }
    if send_flags & 2 != 0 {
        sf = Some(sf.map_or(SendFlag::DONT_ROUTE, |f| f | SendFlag::DONT_ROUTE));
        raw_sf |= libc::MSG_DONTROUTE;
    }
    if send_flags & 3 == 3 {
        classes.push(">=2-flags");
    }
    let nvec = (*vectored as usize).min(4);
    let a_sent: io::Result<usize> = if nvec >= 2 {
        classes.push("vectored");
        let chunk = data.len().div_ceil(nvec);
        let parts: Vec<Vec<u8>> = data.chunks(chunk.max(1)).map(<[u8]>::to_vec).collect();
        let mut parts = parts;
        while parts.len() < nvec {
            parts.push(Vec::new());
        }
        match nvec {
            2 => {
                let arr: [Vec<u8>; 2] = parts.try_into().unwrap();
                let f = ca.send_vectored(arr);
                real.block_on(match sf { Some(fl) => f.flags(fl), None => f })?
            }
            3 => {
                let arr: [Vec<u8>; 3] = parts.try_into().unwrap();
                let f = ca.send_vectored(arr);
                real.block_on(match sf { Some(fl) => f.flags(fl), None => f })?
            }
            _ => {
                let arr: [Vec<u8>; 4] = parts.try_into().unwrap();
                let f = ca.send_vectored(arr);
                real.block_on(match sf { Some(fl) => f.flags(fl), None => f })?
            }
        }
    } else {
        let f = ca.send(data.clone());
        real.block_on(match sf { Some(fl) => f.flags(fl), None => f })?
    };
    let n = unsafe { libc::send(cb.as_raw_fd(), data.as_ptr().cast(), data.len(), raw_sf | libc::MSG_NOSIGNAL) };
    let b_sent = if n < 0 { Err(last_err()) } else { Ok(n as usize) };
    same_outcome("send", &a_sent, &b_sent)?;
    // MSG_MORE corks: push the data out on both sides.
    if raw_sf & libc::MSG_MORE != 0 {
        let _ = real.block_on(ca.send(Vec::from(&b"!"[..])))?;
        unsafe { libc::send(cb.as_raw_fd(), b"!".as_ptr().cast(), 1, libc::MSG_NOSIGNAL) };
    }
    // Receive: optionally PEEK first, then WAITALL for the exact amount.
    let total = data.len() + usize::from(raw_sf & libc::MSG_MORE != 0);
    if *recv_peek {
        classes.push("peek");
        // Wait until everything arrived so the peek is deterministic.
        let mut tmp = vec![0u8; total];
        unsafe { libc::recv(sb.as_raw_fd(), tmp.as_mut_ptr().cast(), total, libc::MSG_PEEK | libc::MSG_WAITALL) };
        if let Some(sfd) = sa.as_fd() {
            unsafe { libc::recv(sfd.as_raw_fd(), tmp.as_mut_ptr().cast(), total, libc::MSG_PEEK | libc::MSG_WAITALL) };
        }
        let a = real.block_on(sa.recv(Vec::with_capacity(total)).flags(RecvFlag::PEEK))?;
        let mut bb = vec![0u8; total];
        let n = unsafe { libc::recv(sb.as_raw_fd(), bb.as_mut_ptr().cast(), total, libc::MSG_PEEK) };
        let b = if n < 0 { Err(last_err()) } else { Ok(bb[..n as usize].to_vec()) };
        same_outcome("recv(PEEK)", &a, &b)?;
    }
    let a = if *recv_waitall {
        real.block_on(sa.recv(Vec::with_capacity(total)).flags(RecvFlag::WAIT_ALL))?
    } else {
        real.block_on(sa.recv_n(Vec::with_capacity(total), total))?
    };
    let mut bb = vec![0u8; total];
    let n = unsafe { libc::recv(sb.as_raw_fd(), bb.as_mut_ptr().cast(), total, libc::MSG_WAITALL) };
    let b = if n < 0 { Err(last_err()) } else { Ok(bb[..n as usize].to_vec()) };
    same_outcome("recv", &a, &b)?;
    if let Ok(got) = &a {
        let mut want = data.clone();
        if raw_sf & libc::MSG_MORE != 0 {
            want.push(b'!');
        }
        if *got != want {
            return Err("payload:stream: the bytes received through a10 are not the bytes sent".to_string());
        }
    }
    // Shutdown semantics.
    if *shutdown > 0 {
        classes.push("shutdown");
        let how = [std::net::Shutdown::Read, std::net::Shutdown::Write, std::net::Shutdown::Both][(*shutdown as usize - 1) % 3];
        let raw_how = [libc::SHUT_RD, libc::SHUT_WR, libc::SHUT_RDWR][(*shutdown as usize - 1) % 3];
        let a = real.block_on(ca.shutdown(how))?;
        let r = unsafe { libc::shutdown(cb.as_raw_fd(), raw_how) };
        same_outcome("shutdown", &a, &if r < 0 { Err(last_err()) } else { Ok(()) })?;
        if raw_how != libc::SHUT_RD {
            // The peer sees end of stream.
            let a = real.block_on(sa.recv(Vec::with_capacity(8)))?;
            let mut bb = [0u8; 8];
            let n = unsafe { libc::recv(sb.as_raw_fd(), bb.as_mut_ptr().cast(), 8, 0) };
            same_outcome("recv after peer shutdown", &a, &if n < 0 { Err(last_err()) } else { Ok(bb[..n as usize].to_vec()) })?;
            // Sending on the shut down side fails the same way.
            let a = real.block_on(ca.send(Vec::from(&b"x"[..])))?;
            let n = unsafe { libc::send(cb.as_raw_fd(), b"x".as_ptr().cast(), 1, libc::MSG_NOSIGNAL) };
            same_outcome("send after shutdown", &a, &if n < 0 { Err(last_err()) } else { Ok(n as usize) })?;
        }
    }
    Ok(())
}

fn run_dgram(real: &mut Real, case: &Case, classes: &mut Vec<&'static str>) -> Result<(), String> {
    let Case::Dgram { family, payload, vectored, name_len, peek, final_vectored, zc, dontroute } = case else { unreachable!() };
    // (Zero copy is a property of the socket type: Unix sockets answer
    // EOPNOTSUPP, which has no counterpart in sendto(2); IP only.)
    let (peek, final_vectored, zc, dontroute) = (*peek, *final_vectored, *zc && !matches!(family, AddrFamily::UnixPath | AddrFamily::UnixAbstract), *dontroute);
    let scratch = Scratch::new("dgram");
    let unix = matches!(family, AddrFamily::UnixPath | AddrFamily::UnixAbstract);
    if unix {
        classes.push("unix-address");
    }
    let dom = domain_of(*family);
    // Twin A: both sockets through a10. Twin B: both through libc.
    let ra = real.block_on(a10::net::socket(real.sq.clone(), dom, Type::DGRAM, None))?.map_err(|e| format!("infra:socket: {e}"))?;
    let sa = real.block_on(a10::net::socket(real.sq.clone(), dom, Type::DGRAM, None))?.map_err(|e| format!("infra:socket: {e}"))?;
    let rb = unsafe { libc::socket(dom_raw(*family), libc::SOCK_DGRAM | libc::SOCK_CLOEXEC, 0) };
    let sb = unsafe { libc::socket(dom_raw(*family), libc::SOCK_DGRAM | libc::SOCK_CLOEXEC, 0) };
    if rb < 0 || sb < 0 {
        return Err("infra:libc socket".into());
    }
    let (rb, sb) = unsafe { (OwnedFd::from_raw_fd(rb), OwnedFd::from_raw_fd(sb)) };
    let data = pattern(33, *payload as usize);
    let nvec = (*vectored as usize).min(3);
    // Bind all four (sender addresses matter: they are what recv_from reports).
    let mut addrs = Vec::new();
    for (k, (is_a10, fd_a, fd_b)) in [(true, Some(&ra), None), (true, Some(&sa), None), (false, None, Some(rb.as_raw_fd())), (false, None, Some(sb.as_raw_fd()))].into_iter().enumerate() {
        let addr = make_addr(*family, &scratch, &format!("d{k}"), *name_len);
        match (&addr, is_a10) {
            (AnyAddr::Ip(a), true) => real.block_on(fd_a.unwrap().bind(*a))?.map_err(|e| format!("failure-vs-success:bind: {e}"))?,
            (AnyAddr::Unix(a, _), true) => real.block_on(fd_a.unwrap().bind(a.clone()))?.map_err(|e| format!("failure-vs-success:bind: {e}"))?,
            (AnyAddr::Ip(a), false) => {
                let (st, len) = ip_raw(a);
                if unsafe { libc::bind(fd_b.unwrap(), (&raw const st).cast(), len) } != 0 {
                    return Err("infra:libc bind".into());
                }
            }
            (AnyAddr::Unix(a, _), false) => {
                let (st, len) = unix_raw(a);
                if unsafe { libc::bind(fd_b.unwrap(), (&raw const st).cast(), len) } != 0 {
                    return Err("infra:libc bind".into());
                }
            }
        }
        addrs.push(addr);
    }
    let ra_fd = ra.as_fd().unwrap().as_raw_fd();
    let sa_fd = sa.as_fd().unwrap().as_raw_fd();
    let dest_a = std_local_addr(ra_fd, unix);
    let src_a = std_local_addr(sa_fd, unix);
    let dest_b = std_local_addr(rb.as_raw_fd(), unix);
    let src_b = std_local_addr(sb.as_raw_fd(), unix);
    // send_to through a10 to the a10 receiver; sendto through libc to the libc receiver.
    let a_sent: io::Result<usize> = if unix {
        let AnyAddr::Unix(dest, _) = &addrs[0] else { unreachable!() };
        if nvec >= 2 {
            classes.push("vectored");
            let half = data.len() / 2;
            let mut f = sa.send_to_vectored([data[..half].to_vec(), data[half..].to_vec()], dest.clone());
            if zc {
                classes.push("sendmsg-zc");
                f = f.zc();
            }
            if dontroute {
                f = f.flags(SendFlag::DONT_ROUTE);
            }
            real.block_on(f)?
        } else {
            real.block_on(sa.send_to(data.clone(), dest.clone()))?
        }
    } else {
        let dest: std::net::SocketAddr = dest_a.parse().map_err(|_| "infra:addr".to_string())?;
        if nvec >= 2 {
            classes.push("vectored");
            let half = data.len() / 2;
            let mut f = sa.send_to_vectored([data[..half].to_vec(), data[half..].to_vec()], dest);
            if zc {
                classes.push("sendmsg-zc");
                f = f.zc();
            }
            if dontroute {
                f = f.flags(SendFlag::DONT_ROUTE);
            }
            real.block_on(f)?
        } else {
            real.block_on(sa.send_to(data.clone(), dest))?
        }
    };
    let n = if unix {
        let AnyAddr::Unix(dest, _) = &addrs[2] else { unreachable!() };
        let (st, len) = unix_raw(dest);
        unsafe { libc::sendto(sb.as_raw_fd(), data.as_ptr().cast(), data.len(), libc::MSG_NOSIGNAL | if dontroute && nvec >= 2 { libc::MSG_DONTROUTE } else { 0 }, (&raw const st).cast(), len) }
    } else {
        let dest: std::net::SocketAddr = dest_b.parse().map_err(|_| "infra:addr".to_string())?;
        let (st, len) = ip_raw(&dest);
        unsafe { libc::sendto(sb.as_raw_fd(), data.as_ptr().cast(), data.len(), libc::MSG_NOSIGNAL | if dontroute && nvec >= 2 { libc::MSG_DONTROUTE } else { 0 }, (&raw const st).cast(), len) }
    };
    same_outcome("send_to", &a_sent, &if n < 0 { Err(last_err()) } else { Ok(n as usize) })?;
    // Optionally look at the datagram first (MSG_PEEK set through the
    // builder of one of the four receive forms): same payload, same sender,
    // and the datagram stays queued.
    fn receive<A: a10::net::SocketAddress + 'static>(real: &mut Real, ra: &AsyncFd, form: u8, peek: bool, cap: usize, show: fn(&A) -> String) -> Result<(Vec<u8>, Option<String>), String> {
        let what = ["", "recv_from", "recv_from_vectored", "recv_vectored", "recv"][form as usize];
        let fl = |e: io::Error| format!("failure-vs-success:{what}{}: {e}", if peek { "(PEEK)" } else { "" });
        Ok(match form {
            1 => {
                let mut f = ra.recv_from::<_, A>(Vec::with_capacity(cap));
                if peek {
                    f = f.flags(RecvFlag::PEEK);
                }
                let (b, a, _) = real.block_on_for(f, 400)?.map_err(fl)?;
                (b, Some(show(&a)))
            }
            2 => {
                let mut f = ra.recv_from_vectored::<_, A, 2>([Vec::with_capacity(cap / 2 + 1), Vec::with_capacity(cap)]);
                if peek {
                    f = f.flags(RecvFlag::PEEK);
                }
                let ([x, y], a, _) = real.block_on_for(f, 400)?.map_err(fl)?;
                ([x, y].concat(), Some(show(&a)))
            }
            3 => {
                let mut f = ra.recv_vectored([Vec::with_capacity(cap / 2 + 1), Vec::with_capacity(cap)]);
                if peek {
                    f = f.flags(RecvFlag::PEEK);
                }
                let ([x, y], _) = real.block_on_for(f, 400)?.map_err(fl)?;
                ([x, y].concat(), None)
            }
            _ => {
                let mut f = ra.recv(Vec::with_capacity(cap));
                if peek {
                    f = f.flags(RecvFlag::PEEK);
                }
                (real.block_on_for(f, 400)?.map_err(fl)?, None)
            }
        })
    }
    fn show_unix(a: &std::os::unix::net::SocketAddr) -> String {
        unix_desc(a)
    }
    fn show_ip(a: &std::net::SocketAddr) -> String {
        a.to_string()
    }
    let cap = data.len() + 16;
    if peek != 0 && a_sent.is_ok() {
        classes.push("peek-first");
        let (b, from) = if unix { receive::<std::os::unix::net::SocketAddr>(real, &ra, peek, true, cap, show_unix)? } else { receive::<std::net::SocketAddr>(real, &ra, peek, true, cap, show_ip)? };
        if b != data {
            return Err(format!("payload:dgram-peek: the receive with MSG_PEEK (form {peek}) returned {} bytes, {} were sent, or contents differ", b.len(), data.len()));
        }
        if let Some(from) = from {
            if from != src_a {
                return Err(format!("address:recv_from(PEEK): a10 reports the sender as {from}, getsockname(2) on the sender says {src_a}"));
            }
        }
        let left = unread(ra_fd);
        if left <= 0 {
            return Err(format!("unread-bytes:dgram-peek: after a receive with MSG_PEEK set through the builder (form {peek}) nothing is left to read: the flag did not reach the kernel"));
        }
    }
    // recv_from (or recv_from_vectored): payload and source address.
    let form = if final_vectored { 2 } else { 1 };
    if final_vectored {
        classes.push("recv_from_vectored");
    }
    let (got, from_a) = if unix { receive::<std::os::unix::net::SocketAddr>(real, &ra, form, false, cap, show_unix)? } else { receive::<std::net::SocketAddr>(real, &ra, form, false, cap, show_ip)? };
    let from_a = from_a.unwrap_or_default();
    let mut bb = vec![0u8; data.len() + 16];
    let mut st: libc::sockaddr_storage = unsafe { std::mem::zeroed() };
    let mut len = size_of::<libc::sockaddr_storage>() as u32;
    let n = unsafe { libc::recvfrom(rb.as_raw_fd(), bb.as_mut_ptr().cast(), bb.len(), 0, (&raw mut st).cast(), &mut len) };
    if n < 0 {
        return Err("infra:recvfrom".into());
    }
    if got != bb[..n as usize] {
        return Err(format!("payload:dgram: a10 received {} bytes, the system call {} bytes, or contents differ", got.len(), n));
    }
    // Each receiver must report its own sender's address; compare with what
    // getsockname says about that sender.
    if from_a != src_a {
        return Err(format!("address:recv_from: a10 reports the sender as {from_a}, getsockname(2) on the sender says {src_a}"));
    }
    let from_b = if unix { unix_from_raw(unsafe { &*(&raw const st).cast::<libc::sockaddr_un>() }, len) } else { SockAddrAny(st).as_socket().map(|a| a.to_string()).unwrap_or_default() };
    if from_b != src_b {
        return Err(format!("infra:libc twin reports sender {from_b}, expected {src_b}"));
    }
    Ok(())
}

fn dom_raw(f: AddrFamily) -> i32 {
    match f {
        AddrFamily::V4 => libc::AF_INET,
        AddrFamily::V6 | AddrFamily::V6Mapped => libc::AF_INET6,
        _ => libc::AF_UNIX,
    }
}

fn ip_raw(a: &std::net::SocketAddr) -> (libc::sockaddr_storage, u32) {
    let mut st: libc::sockaddr_storage = unsafe { std::mem::zeroed() };
    match a {
        std::net::SocketAddr::V4(v) => {
            let s: &mut libc::sockaddr_in = unsafe { &mut *(&raw mut st).cast() };
            s.sin_family = libc::AF_INET as u16;
            s.sin_port = v.port().to_be();
            s.sin_addr.s_addr = u32::from_ne_bytes(v.ip().octets());
            (st, size_of::<libc::sockaddr_in>() as u32)
        }
        std::net::SocketAddr::V6(v) => {
            let s: &mut libc::sockaddr_in6 = unsafe { &mut *(&raw mut st).cast() };
            s.sin6_family = libc::AF_INET6 as u16;
            s.sin6_port = v.port().to_be();
            s.sin6_addr.s6_addr = v.ip().octets();
            (st, size_of::<libc::sockaddr_in6>() as u32)
        }
    }
}

fn unix_raw(a: &std::os::unix::net::SocketAddr) -> (libc::sockaddr_un, u32) {
    use std::os::linux::net::SocketAddrExt;
    let mut st: libc::sockaddr_un = unsafe { std::mem::zeroed() };
    st.sun_family = libc::AF_UNIX as u16;
    if let Some(p) = a.as_pathname() {
        let b = p.as_os_str().as_bytes();
        for (i, c) in b.iter().enumerate() {
            st.sun_path[i] = *c as i8;
        }
        (st, (2 + b.len() + 1) as u32)
    } else if let Some(n) = a.as_abstract_name() {
        for (i, c) in n.iter().enumerate() {
            st.sun_path[1 + i] = *c as i8;
        }
        (st, (2 + 1 + n.len()) as u32)
    } else {
        (st, 2)
    }
}

fn getsockopt_int(fd: RawFd, level: i32, name: i32) -> i32 {
    let mut v: i32 = 0;
    let mut l = 4u32;
    unsafe { libc::getsockopt(fd, level, name, (&raw mut v).cast(), &mut l) };
    v
}

fn run_sockopt(real: &mut Real, which: u8, value: u32, tcp: bool, classes: &mut Vec<&'static str>) -> Result<(), String> {
    // One socket through a10; options set through a10 are read through libc
    // and options set through libc are read through a10.
    let ty = if tcp { Type::STREAM } else { Type::DGRAM };
    let s = real.block_on(a10::net::socket(real.sq.clone(), Domain::IPV4, ty, None))?.map_err(|e| format!("infra:socket: {e}"))?;
    let fd = s.as_fd().unwrap().as_raw_fd();
    let on = value & 1 == 1;
    let small = 1 + value % 50;
    let buf = 4096 + value % 100_000;
    macro_rules! set_then_read_bool {
        ($opt:ty, $level:expr, $name:expr, $label:literal) => {{
            real.block_on(s.set_socket_option::<$opt>(on))?.map_err(|e| format!("failure-vs-success:set {}: {e}", $label))?;
            let raw = getsockopt_int(fd, $level, $name);
            if (raw != 0) != on {
                return Err(format!("sockopt:{}: set {on} through a10, getsockopt(2) reads {raw}", $label));
            }
            let back = real.block_on(s.socket_option::<$opt>())?.map_err(|e| format!("failure-vs-success:get {}: {e}", $label))?;
            if back != on {
                return Err(format!("sockopt:{}: a10 reads {back} after setting {on}", $label));
            }
            // Other direction.
            let flip: i32 = (!on).into();
            unsafe { libc::setsockopt(fd, $level, $name, (&raw const flip).cast(), 4) };
            let back = real.block_on(s.socket_option::<$opt>())?.map_err(|e| format!("failure-vs-success:get {}: {e}", $label))?;
            if back == on {
                return Err(format!("sockopt:{}: setsockopt(2) set {}, a10 still reads {back}", $label, !on));
            }
        }};
    }
    macro_rules! set_then_read_u32 {
        ($opt:ty, $level:expr, $name:expr, $label:literal, $v:expr) => {{
            let v: u32 = $v;
            real.block_on(s.set_socket_option::<$opt>(v))?.map_err(|e| format!("failure-vs-success:set {}: {e}", $label))?;
            let raw = getsockopt_int(fd, $level, $name);
            let back = real.block_on(s.socket_option::<$opt>())?.map_err(|e| format!("failure-vs-success:get {}: {e}", $label))?;
            if back as i64 != raw as i64 {
                return Err(format!("sockopt:{}: a10 reads {back}, getsockopt(2) reads {raw} (after setting {v} through a10)", $label));
            }
            // The value took effect the way setsockopt(2) would make it.
            let twin = unsafe { libc::socket(libc::AF_INET, if tcp { libc::SOCK_STREAM } else { libc::SOCK_DGRAM } | libc::SOCK_CLOEXEC, 0) };
            let vi = v as i32;
            unsafe { libc::setsockopt(twin, $level, $name, (&raw const vi).cast(), 4) };
            let want = getsockopt_int(twin, $level, $name);
            unsafe { libc::close(twin) };
            if raw != want {
                return Err(format!("sockopt:{}: setting {v} through a10 results in {raw}, through setsockopt(2) in {want}", $label));
            }
        }};
    }
    match which % 14 {
        0 => set_then_read_bool!(option::KeepAlive, libc::SOL_SOCKET, libc::SO_KEEPALIVE, "SO_KEEPALIVE"),
        1 => set_then_read_bool!(option::ReuseAddress, libc::SOL_SOCKET, libc::SO_REUSEADDR, "SO_REUSEADDR"),
        2 => set_then_read_bool!(option::ReusePort, libc::SOL_SOCKET, libc::SO_REUSEPORT, "SO_REUSEPORT"),
        3 => set_then_read_u32!(option::RecvBuf, libc::SOL_SOCKET, libc::SO_RCVBUF, "SO_RCVBUF", buf),
        4 => set_then_read_u32!(option::SendBuf, libc::SOL_SOCKET, libc::SO_SNDBUF, "SO_SNDBUF", buf),
        5 => set_then_read_u32!(option::RecvLowWater, libc::SOL_SOCKET, libc::SO_RCVLOWAT, "SO_RCVLOWAT", small),
        6 => {
            // Linger: Option<u32>.
            // Some(0) is a value of its own: abortive close (l_onoff 1, l_linger 0).
            let v = if on { Some(value / 2 % 4) } else { None };
            real.block_on(s.set_socket_option::<option::Linger>(v))?.map_err(|e| format!("failure-vs-success:set SO_LINGER: {e}"))?;
            let mut l: libc::linger = unsafe { std::mem::zeroed() };
            let mut len = size_of::<libc::linger>() as u32;
            unsafe { libc::getsockopt(fd, libc::SOL_SOCKET, libc::SO_LINGER, (&raw mut l).cast(), &mut len) };
            let raw = if l.l_onoff != 0 { Some(l.l_linger as u32) } else { None };
            if raw != v {
                return Err(format!("sockopt:SO_LINGER: set {v:?} through a10, getsockopt(2) reads {raw:?}"));
            }
            let back = real.block_on(s.socket_option::<option::Linger>())?.map_err(|e| format!("failure-vs-success:get SO_LINGER: {e}"))?;
            if back != v {
                return Err(format!("sockopt:SO_LINGER: a10 reads {back:?} after setting {v:?}"));
            }
        }
        7 => {
            let t = real.block_on(s.socket_option::<option::Type>())?.map_err(|e| format!("failure-vs-success:get SO_TYPE: {e}"))?;
            let raw = getsockopt_int(fd, libc::SOL_SOCKET, libc::SO_TYPE);
            if t != (if tcp { Type::STREAM } else { Type::DGRAM }) || raw != (if tcp { libc::SOCK_STREAM } else { libc::SOCK_DGRAM }) {
                return Err(format!("sockopt:SO_TYPE: a10 reads {t:?}, getsockopt(2) {raw}"));
            }
        }
        8 => {
            let d = real.block_on(s.socket_option::<option::Domain>())?.map_err(|e| format!("failure-vs-success:get SO_DOMAIN: {e}"))?;
            if d != Domain::IPV4 {
                return Err(format!("sockopt:SO_DOMAIN: a10 reads {d:?} for an IPv4 socket"));
            }
            let p = real.block_on(s.socket_option::<option::Protocol>())?.map_err(|e| format!("failure-vs-success:get SO_PROTOCOL: {e}"))?;
            let raw = getsockopt_int(fd, libc::SOL_SOCKET, libc::SO_PROTOCOL);
            if format!("{p:?}") != format!("{:?}", a10::net::Protocol::TCP) && tcp || raw != (if tcp { libc::IPPROTO_TCP } else { libc::IPPROTO_UDP }) {
                return Err(format!("sockopt:SO_PROTOCOL: a10 reads {p:?}, getsockopt(2) {raw}"));
            }
        }
        9 => {
            let e = real.block_on(s.socket_option::<option::Error>())?.map_err(|e| format!("failure-vs-success:get SO_ERROR: {e}"))?;
            if e.is_some() {
                return Err(format!("sockopt:SO_ERROR: a10 reads {e:?} on a fresh socket"));
            }
            let a = real.block_on(s.socket_option::<option::Accept>())?.map_err(|e| format!("failure-vs-success:get SO_ACCEPTCONN: {e}"))?;
            let raw = getsockopt_int(fd, libc::SOL_SOCKET, libc::SO_ACCEPTCONN);
            if a != (raw != 0) {
                return Err(format!("sockopt:SO_ACCEPTCONN: a10 reads {a}, getsockopt(2) {raw}"));
            }
        }
        10 if tcp => {
            classes.push("tcp-level");
            set_then_read_bool!(option::TcpNoDelay, libc::IPPROTO_TCP, libc::TCP_NODELAY, "TCP_NODELAY")
        }
        11 if tcp => {
            classes.push("tcp-level");
            set_then_read_u32!(option::TcpKeepAliveCount, libc::IPPROTO_TCP, libc::TCP_KEEPCNT, "TCP_KEEPCNT", small)
        }
        12 if tcp => {
            classes.push("tcp-level");
            set_then_read_u32!(option::TcpKeepAliveInterval, libc::IPPROTO_TCP, libc::TCP_KEEPINTVL, "TCP_KEEPINTVL", small)
        }
        13 if tcp => {
            classes.push("tcp-level");
            set_then_read_u32!(option::TcpKeepAliveIdle, libc::IPPROTO_TCP, libc::TCP_KEEPIDLE, "TCP_KEEPIDLE", small)
        }
        _ => set_then_read_bool!(option::KeepAlive, libc::SOL_SOCKET, libc::SO_KEEPALIVE, "SO_KEEPALIVE"),
    }
    // Options of a direct descriptor: set and read through a10, then the
    // descriptor is installed as a regular one and read through libc.
    if tcp && value % 3 == 0 {
        classes.push("direct-descriptor");
        let d = real.block_on(a10::net::socket(real.sq.clone(), Domain::IPV4, Type::STREAM, None).kind(Kind::Direct))?.map_err(|e| format!("infra:socket(direct): {e}"))?;
        let tcp_level = which % 2 == 0;
        let set = if tcp_level { real.block_on(d.set_socket_option::<option::TcpNoDelay>(on))? } else { real.block_on(d.set_socket_option::<option::KeepAlive>(on))? };
        let get = if tcp_level { real.block_on(d.socket_option::<option::TcpNoDelay>())? } else { real.block_on(d.socket_option::<option::KeepAlive>())? };
        let label = if tcp_level { "TCP_NODELAY" } else { "SO_KEEPALIVE" };
        let regular = real.block_on(d.to_file_descriptor())?.map_err(|e| format!("infra:to_file_descriptor: {e}"))?;
        let rfd = regular.as_fd().unwrap().as_raw_fd();
        let raw = if tcp_level { getsockopt_int(rfd, libc::IPPROTO_TCP, libc::TCP_NODELAY) } else { getsockopt_int(rfd, libc::SOL_SOCKET, libc::SO_KEEPALIVE) };
        match set {
            Ok(()) if (raw != 0) != on => return Err(format!("sockopt:{label}@direct: set {on} through a10 on a direct descriptor, getsockopt(2) on the same socket reads {raw}")),
            Ok(()) => {}
            Err(e) if is_unsupported(&e) => real.soft.push(("failure-vs-success:sockopt@direct:unsupported".into(), format!("set {label} on a direct descriptor: {e}"))),
            Err(e) => return Err(format!("failure-vs-success:set {label}@direct: {e} (setsockopt(2) on the same socket works)")),
        }
        match get {
            Ok(v) if v != (raw != 0) => return Err(format!("sockopt:{label}@direct: a10 reads {v} from a direct descriptor, getsockopt(2) on the same socket reads {raw}")),
            Ok(_) => {}
            Err(e) if is_unsupported(&e) => real.soft.push(("failure-vs-success:sockopt@direct:unsupported".into(), format!("get {label} on a direct descriptor: {e}"))),
            Err(e) => return Err(format!("failure-vs-success:get {label}@direct: {e} (getsockopt(2) on the same socket reads {raw})")),
        }
    }
    // A second round through the synchronous flavour of the API and the
    // remaining option types.
    {
        use std::os::fd::BorrowedFd;
        let bfd = unsafe { BorrowedFd::borrow_raw(fd) };
        match value % 5 {
            0 => {
                a10::net::sync_set_socket_option::<option::ReuseAddress>(bfd, on).map_err(|e| format!("failure-vs-success:sync set SO_REUSEADDR: {e}"))?;
                let raw = getsockopt_int(fd, libc::SOL_SOCKET, libc::SO_REUSEADDR);
                let back = a10::net::sync_socket_option::<option::ReuseAddress>(bfd).map_err(|e| format!("failure-vs-success:sync get SO_REUSEADDR: {e}"))?;
                if (raw != 0) != on || back != on {
                    return Err(format!("sockopt:sync SO_REUSEADDR: set {on} through sync_set_socket_option, getsockopt(2) reads {raw}, sync_socket_option reads {back}"));
                }
            }
            1 => {
                let v = 4096 + value % 50_000;
                a10::net::sync_set_socket_option::<option::SendBuf>(bfd, v).map_err(|e| format!("failure-vs-success:sync set SO_SNDBUF: {e}"))?;
                let raw = getsockopt_int(fd, libc::SOL_SOCKET, libc::SO_SNDBUF);
                let back = a10::net::sync_socket_option::<option::SendBuf>(bfd).map_err(|e| format!("failure-vs-success:sync get SO_SNDBUF: {e}"))?;
                if back as i64 != raw as i64 {
                    return Err(format!("sockopt:sync SO_SNDBUF: sync_socket_option reads {back}, getsockopt(2) reads {raw}"));
                }
            }
            2 => {
                // SO_INCOMING_CPU: Option<u32>.
                let cpu = value % 2;
                let a = real.block_on(s.set_socket_option::<option::IncomingCpu>(cpu))?;
                let twin = unsafe { libc::socket(libc::AF_INET, if tcp { libc::SOCK_STREAM } else { libc::SOCK_DGRAM } | libc::SOCK_CLOEXEC, 0) };
                let ci = cpu as i32;
                let r = unsafe { libc::setsockopt(twin, libc::SOL_SOCKET, libc::SO_INCOMING_CPU, (&raw const ci).cast(), 4) };
                let want = getsockopt_int(twin, libc::SOL_SOCKET, libc::SO_INCOMING_CPU);
                unsafe { libc::close(twin) };
                same_outcome("set SO_INCOMING_CPU", &a, &if r < 0 { Err(last_err()) } else { Ok(()) })?;
                let raw = getsockopt_int(fd, libc::SOL_SOCKET, libc::SO_INCOMING_CPU);
                let back = real.block_on(s.socket_option::<option::IncomingCpu>())?.map_err(|e| format!("failure-vs-success:get SO_INCOMING_CPU: {e}"))?;
                let back_raw = back.map_or(-1i64, |c| c as i64);
                if raw != want || back_raw != raw as i64 {
                    return Err(format!("sockopt:SO_INCOMING_CPU: after setting {cpu}: getsockopt(2) reads {raw} (twin through setsockopt(2): {want}), a10 reads {back:?}"));
                }
            }
            3 if tcp => {
                classes.push("tcp-level");
                let a = real.block_on(s.set_socket_option::<option::TcpCork>(on))?.map_err(|e| format!("failure-vs-success:set TCP_CORK: {e}"));
                a?;
                let raw = getsockopt_int(fd, libc::IPPROTO_TCP, libc::TCP_CORK);
                let back = real.block_on(s.socket_option::<option::TcpCork>())?.map_err(|e| format!("failure-vs-success:get TCP_CORK: {e}"))?;
                if (raw != 0) != on || back != on {
                    return Err(format!("sockopt:TCP_CORK: set {on} through a10, getsockopt(2) reads {raw}, a10 reads {back}"));
                }
            }
            _ => {
                let back = real.block_on(s.socket_option::<option::SendLowWater>())?.map_err(|e| format!("failure-vs-success:get SO_SNDLOWAT: {e}"))?;
                let raw = getsockopt_int(fd, libc::SOL_SOCKET, libc::SO_SNDLOWAT);
                if back as i64 != raw as i64 {
                    return Err(format!("sockopt:SO_SNDLOWAT: a10 reads {back}, getsockopt(2) reads {raw}"));
                }
            }
        }
    }
    classes.push("sockopt");
    Ok(())
}

fn run_pipe(real: &mut Real, direct_flag: bool, payload: u16, kind_direct: bool, classes: &mut Vec<&'static str>) -> Result<(), String> {
    let mut f = a10::pipe::pipe(real.sq.clone());
    let mut raw_flags = libc::O_CLOEXEC;
    if direct_flag {
        f = f.flags(a10::pipe::PipeFlag::DIRECT);
        raw_flags |= libc::O_DIRECT;
        classes.push("o-direct");
    }
    if kind_direct {
        f = f.kind(Kind::Direct);
        classes.push("direct-descriptor");
    }
    let [ra, wa] = real.block_on(f)?.map_err(|e| format!("failure-vs-success:pipe: {e}"))?;
    let mut fds = [0i32; 2];
    if unsafe { libc::pipe2(fds.as_mut_ptr(), raw_flags) } != 0 {
        return Err("infra:pipe2".into());
    }
    let (rb, wb) = unsafe { (OwnedFd::from_raw_fd(fds[0]), OwnedFd::from_raw_fd(fds[1])) };
    // Descriptor flags (regular descriptors only).
    if let (Some(r), Some(w)) = (ra.as_fd(), wa.as_fd()) {
        for (a, b, name) in [(r.as_raw_fd(), rb.as_raw_fd(), "read end"), (w.as_raw_fd(), wb.as_raw_fd(), "write end")] {
            let (fa, fb) = (unsafe { libc::fcntl(a, libc::F_GETFL) }, unsafe { libc::fcntl(b, libc::F_GETFL) });
            if fa != fb {
                return Err(format!("pipe-flags:{name}: F_GETFL {fa:#o} through a10, {fb:#o} through pipe2(2)"));
            }
            let (da, db) = (unsafe { libc::fcntl(a, libc::F_GETFD) }, unsafe { libc::fcntl(b, libc::F_GETFD) });
            if da != db {
                return Err(format!("pipe-flags:{name}: F_GETFD {da} vs {db}"));
            }
        }
    }
    let data = pattern(5, payload as usize);
    let a = real.block_on(wa.write(data.clone()))?;
    let n = unsafe { libc::write(wb.as_raw_fd(), data.as_ptr().cast(), data.len()) };
    same_outcome("pipe write", &a, &if n < 0 { Err(last_err()) } else { Ok(n as usize) })?;
    let a = real.block_on(ra.read(Vec::with_capacity(data.len() + 8)))?;
    let mut bb = vec![0u8; data.len() + 8];
    let n = unsafe { libc::read(rb.as_raw_fd(), bb.as_mut_ptr().cast(), bb.len()) };
    same_outcome("pipe read", &a, &if n < 0 { Err(last_err()) } else { Ok(bb[..n as usize].to_vec()) })?;
    // Message boundaries: two writes, one read with room for both (a pipe
    // created with O_DIRECT is in packet mode and returns the first only).
    let what = match (direct_flag, kind_direct) {
        (true, true) => "pipe(O_DIRECT)@direct two writes, one read",
        (true, false) => "pipe(O_DIRECT) two writes, one read",
        (false, true) => "pipe@direct two writes, one read",
        (false, false) => "pipe two writes, one read",
    };
    for part in [&b"abc"[..], &b"defgh"[..]] {
        let a = real.block_on(wa.write(part.to_vec()))?;
        let n = unsafe { libc::write(wb.as_raw_fd(), part.as_ptr().cast(), part.len()) };
        same_outcome(what, &a, &if n < 0 { Err(last_err()) } else { Ok(n as usize) })?;
    }
    let a = real.block_on(ra.read(Vec::with_capacity(64)))?;
    let mut bb = [0u8; 64];
    let n = unsafe { libc::read(rb.as_raw_fd(), bb.as_mut_ptr().cast(), bb.len()) };
    same_outcome(what, &a, &if n < 0 { Err(last_err()) } else { Ok(bb[..n as usize].to_vec()) })?;
    Ok(())
}

fn run_socket(real: &mut Real, domain: u8, ty: u8, direct: bool, classes: &mut Vec<&'static str>) -> Result<(), String> {
    let (d, rd) = [(Domain::IPV4, libc::AF_INET), (Domain::IPV6, libc::AF_INET6), (Domain::UNIX, libc::AF_UNIX)][domain as usize % 3];
    let (t, rt) = [(Type::STREAM, libc::SOCK_STREAM), (Type::DGRAM, libc::SOCK_DGRAM), (Type::SEQPACKET, libc::SOCK_SEQPACKET)][ty as usize % 3];
    let mut f = a10::net::socket(real.sq.clone(), d, t, None);
    if direct {
        f = f.kind(Kind::Direct);
        classes.push("direct-descriptor");
    }
    let a = real.block_on(f)?;
    let fb = unsafe { libc::socket(rd, rt | libc::SOCK_CLOEXEC, 0) };
    let b = if fb < 0 { Err(last_err()) } else { Ok(()) };
    same_outcome(&format!("socket({rd},{rt})"), &a.as_ref().map(|_| ()).map_err(|e| io::Error::from_raw_os_error(e.raw_os_error().unwrap_or(0))), &b)?;
    if let (Ok(sa), true) = (&a, fb >= 0) {
        // Through a direct descriptor the options are read with a10 itself.
        let dom = real.block_on(sa.socket_option::<option::Domain>())?.map_err(|e| format!("failure-vs-success:SO_DOMAIN: {e}"))?;
        let typ = real.block_on(sa.socket_option::<option::Type>())?.map_err(|e| format!("failure-vs-success:SO_TYPE: {e}"))?;
        if dom != d || typ != t {
            return Err(format!("socket: asked for ({d:?}, {t:?}), got ({dom:?}, {typ:?})"));
        }
        if let Some(bfd) = sa.as_fd() {
            for (name, opt) in [("SO_DOMAIN", libc::SO_DOMAIN), ("SO_TYPE", libc::SO_TYPE), ("SO_PROTOCOL", libc::SO_PROTOCOL)] {
                let (x, y) = (getsockopt_int(bfd.as_raw_fd(), libc::SOL_SOCKET, opt), getsockopt_int(fb, libc::SOL_SOCKET, opt));
                if x != y {
                    return Err(format!("socket:{name}: {x} through a10, {y} through socket(2)"));
                }
            }
            let (ca, cb) = (unsafe { libc::fcntl(bfd.as_raw_fd(), libc::F_GETFD) }, unsafe { libc::fcntl(fb, libc::F_GETFD) });
            let (fa, fbl) = (unsafe { libc::fcntl(bfd.as_raw_fd(), libc::F_GETFL) }, unsafe { libc::fcntl(fb, libc::F_GETFL) });
            if ca != cb || fa != fbl {
                return Err(format!("socket-flags: F_GETFD {ca} vs {cb}, F_GETFL {fa:#o} vs {fbl:#o}"));
            }
        }
    }
    if fb >= 0 {
        unsafe { libc::close(fb) };
    }
    if domain % 3 == 2 {
        classes.push("unix-address");
    }
    Ok(())
}

/// The synchronous helpers a10 offers next to its operations: same effect as
/// the system call of the same name.
fn run_sync_sock(family: AddrFamily, ty: u8, name_len: u8, backlog: u16, pipe_direct: bool, classes: &mut Vec<&'static str>) -> Result<(), String> {
    let scratch = Scratch::new("sync");
    let unix = matches!(family, AddrFamily::UnixPath | AddrFamily::UnixAbstract);
    let (t, rt) = [(Type::STREAM, libc::SOCK_STREAM), (Type::DGRAM, libc::SOCK_DGRAM), (Type::SEQPACKET, libc::SOCK_SEQPACKET)][ty as usize % 3];
    let a = a10::net::sync_socket(domain_of(family), t, None);
    let fb = unsafe { libc::socket(dom_raw(family), rt | libc::SOCK_CLOEXEC, 0) };
    same_outcome(&format!("sync_socket({},{rt})", dom_raw(family)), &a.as_ref().map(|_| ()).map_err(|e| io::Error::from_raw_os_error(e.raw_os_error().unwrap_or(0))), &if fb < 0 { Err(last_err()) } else { Ok(()) })?;
    let (Ok(sa), true) = (a, fb >= 0) else {
        if fb >= 0 {
            unsafe { libc::close(fb) };
        }
        return Ok(());
    };
    let sb = unsafe { OwnedFd::from_raw_fd(fb) };
    let (fa, fb) = (sa.as_raw_fd(), sb.as_raw_fd());
    for (name, opt) in [("SO_DOMAIN", libc::SO_DOMAIN), ("SO_TYPE", libc::SO_TYPE), ("SO_PROTOCOL", libc::SO_PROTOCOL)] {
        let (x, y) = (getsockopt_int(fa, libc::SOL_SOCKET, opt), getsockopt_int(fb, libc::SOL_SOCKET, opt));
        if x != y {
            return Err(format!("sync_socket:{name}: {x} through a10, {y} through socket(2)"));
        }
    }
    let (ca, cb) = (unsafe { libc::fcntl(fa, libc::F_GETFD) }, unsafe { libc::fcntl(fb, libc::F_GETFD) });
    let (la, lb) = (unsafe { libc::fcntl(fa, libc::F_GETFL) }, unsafe { libc::fcntl(fb, libc::F_GETFL) });
    if ca != cb || la != lb {
        return Err(format!("sync_socket-flags: F_GETFD {ca} vs {cb}, F_GETFL {la:#o} vs {lb:#o}"));
    }
    // Before bind: the unbound address through both.
    let unbound_want = std_local_addr(fa, unix);
    let unbound_got = if unix { a10::net::sync_local_addr::<std::os::unix::net::SocketAddr>(&sa).map(|a| unix_desc(&a)) } else { a10::net::sync_local_addr::<std::net::SocketAddr>(&sa).map(|a| a.to_string()) }.map_err(|e| format!("failure-vs-success:sync_local_addr(unbound): {e}"))?;
    if unbound_got != unbound_want {
        return Err(format!("address:sync_local_addr(unbound): a10 reports {unbound_got}, getsockname(2) reports {unbound_want}"));
    }
    // Bind one through a10 and its twin through libc, compare what the
    // kernel then reports through the other API.
    let addr_a = make_addr(family, &scratch, "ya", name_len);
    let addr_b = make_addr(family, &scratch, "yb", name_len);
    let ra: io::Result<()> = match &addr_a {
        AnyAddr::Ip(a) => a10::net::sync_bind(&sa, *a),
        AnyAddr::Unix(a, _) => a10::net::sync_bind(&sa, a.clone()),
    };
    let rb = match &addr_b {
        AnyAddr::Ip(a) => {
            let (st, len) = ip_raw(a);
            unsafe { libc::bind(fb, (&raw const st).cast(), len) }
        }
        AnyAddr::Unix(a, _) => {
            let (st, len) = unix_raw(a);
            unsafe { libc::bind(fb, (&raw const st).cast(), len) }
        }
    };
    same_outcome("sync_bind", &ra, &if rb != 0 { Err(last_err()) } else { Ok(()) })?;
    if ra.is_ok() {
        let want = std_local_addr(fa, unix);
        if let AnyAddr::Unix(a, _) = &addr_a {
            if want != unix_desc(a) {
                return Err(format!("address:sync_bind: asked a10 to bind {}, getsockname(2) reports {want}", unix_desc(a)));
            }
        } else if let AnyAddr::Ip(a) = &addr_a {
            let got: std::net::SocketAddr = want.parse().map_err(|_| format!("infra:bad local addr {want}"))?;
            if got.ip() != a.ip() || got.port() == 0 {
                return Err(format!("address:sync_bind: asked a10 to bind {a}, getsockname(2) reports {want}"));
            }
        }
        let got = if unix { a10::net::sync_local_addr::<std::os::unix::net::SocketAddr>(&sa).map(|a| unix_desc(&a)) } else { a10::net::sync_local_addr::<std::net::SocketAddr>(&sa).map(|a| a.to_string()) }.map_err(|e| format!("failure-vs-success:sync_local_addr: {e}"))?;
        if got != want {
            return Err(format!("address:sync_local_addr: a10 reports {got}, getsockname(2) reports {want}"));
        }
        // The concrete address types as well.
        match (&addr_a, family) {
            (AnyAddr::Ip(_), AddrFamily::V4) => {
                let got = a10::net::sync_local_addr::<std::net::SocketAddrV4>(&sa).map(|a| a.to_string()).map_err(|e| format!("failure-vs-success:sync_local_addr::<V4>: {e}"))?;
                if got != want {
                    return Err(format!("address:sync_local_addr::<SocketAddrV4>: a10 reports {got}, getsockname(2) reports {want}"));
                }
            }
            (AnyAddr::Ip(_), _) => {
                let got = a10::net::sync_local_addr::<std::net::SocketAddrV6>(&sa).map(|a| a.to_string()).map_err(|e| format!("failure-vs-success:sync_local_addr::<V6>: {e}"))?;
                if got != want {
                    return Err(format!("address:sync_local_addr::<SocketAddrV6>: a10 reports {got}, getsockname(2) reports {want}"));
                }
            }
            _ => {}
        }
    }
    // listen: same outcome (datagram sockets refuse), same state.
    let la = a10::net::sync_listen(&sa, backlog as u32);
    let lb = unsafe { libc::listen(fb, backlog as i32) };
    same_outcome("sync_listen", &la, &if lb != 0 { Err(last_err()) } else { Ok(()) })?;
    let (x, y) = (getsockopt_int(fa, libc::SOL_SOCKET, libc::SO_ACCEPTCONN), getsockopt_int(fb, libc::SOL_SOCKET, libc::SO_ACCEPTCONN));
    if x != y {
        return Err(format!("sync_listen:SO_ACCEPTCONN: {x} through a10, {y} through listen(2)"));
    }
    // Pipes.
    let pa = if pipe_direct { a10::pipe::sync_pipe2(a10::pipe::PipeFlag::DIRECT) } else { a10::pipe::sync_pipe() };
    let mut fds = [0i32; 2];
    let pb = unsafe { libc::pipe2(fds.as_mut_ptr(), libc::O_CLOEXEC | if pipe_direct { libc::O_DIRECT } else { 0 }) };
    same_outcome("sync_pipe2", &pa.as_ref().map(|_| ()).map_err(|e| io::Error::from_raw_os_error(e.raw_os_error().unwrap_or(0))), &if pb != 0 { Err(last_err()) } else { Ok(()) })?;
    if let (Ok([r, w]), 0) = (pa, pb) {
        let (rb, wb) = unsafe { (OwnedFd::from_raw_fd(fds[0]), OwnedFd::from_raw_fd(fds[1])) };
        for (what, x, y) in [("read end", r.as_raw_fd(), rb.as_raw_fd()), ("write end", w.as_raw_fd(), wb.as_raw_fd())] {
            let (ca, cb) = (unsafe { libc::fcntl(x, libc::F_GETFD) }, unsafe { libc::fcntl(y, libc::F_GETFD) });
            let (la, lb) = (unsafe { libc::fcntl(x, libc::F_GETFL) }, unsafe { libc::fcntl(y, libc::F_GETFL) });
            if ca != cb || la != lb {
                return Err(format!("sync_pipe-flags: {what}: F_GETFD {ca} vs {cb}, F_GETFL {la:#o} vs {lb:#o}"));
            }
        }
        let data = pattern(5, 40);
        let n = unsafe { libc::write(w.as_raw_fd(), data.as_ptr().cast(), data.len()) };
        let mut back = vec![0u8; 64];
        let m = unsafe { libc::read(r.as_raw_fd(), back.as_mut_ptr().cast(), back.len()) };
        if n != data.len() as isize || m != n || back[..m as usize] != data[..] {
            return Err(format!("payload:sync_pipe: wrote {n} bytes into the write end, read {m} from the read end"));
        }
        if pipe_direct {
            classes.push("pipe-flags");
        }
    }
    if unix {
        classes.push("unix-address");
    }
    classes.push("sync-helpers");
    Ok(())
}

fn unread(fd: RawFd) -> i32 {
    let mut n: i32 = 0;
    unsafe { libc::ioctl(fd, libc::FIONREAD, &mut n) };
    n
}

/// Wait (bounded) until both sockets hold `want` unread bytes.
fn settle(a: RawFd, b: RawFd, want: i32) -> (i32, i32) {
    for _ in 0..400 {
        let (x, y) = (unread(a), unread(b));
        if x == want && y == want {
            return (x, y);
        }
        std::thread::sleep(Duration::from_micros(500));
    }
    (unread(a), unread(b))
}

fn run_recv_n(real: &mut Real, family: AddrFamily, c1: u16, vectored: bool, classes: &mut Vec<&'static str>) -> Result<(), String> {
    let scratch = Scratch::new("recvn");
    if matches!(family, AddrFamily::UnixPath | AddrFamily::UnixAbstract) {
        classes.push("unix-address");
    }
    let (ca, sa, _la) = a10_stream_pair(real, family, false, &scratch, 20)?;
    let (cb, sb) = std_stream_pair(family, &scratch)?;
    let (Some(ca_fd), Some(sa_fd)) = (ca.as_fd().map(|f| f.as_raw_fd()), sa.as_fd().map(|f| f.as_raw_fd())) else { return Err("infra:no raw fd".into()) };
    let c1 = c1 as usize;
    let data = pattern(71, c1);
    for fd in [ca_fd, cb.as_raw_fd()] {
        let n = unsafe { libc::send(fd, data.as_ptr().cast(), c1, libc::MSG_NOSIGNAL) };
        if n != c1 as isize {
            return Err("infra:send".into());
        }
    }
    let (x, y) = settle(sa_fd, sb.as_raw_fd(), c1 as i32);
    if x != c1 as i32 || y != c1 as i32 {
        return Err(format!("infra:data did not arrive ({x}, {y} of {c1})"));
    }
    // Peeking never consumes: asking for 2*c1 bytes takes two receives, both
    // of which must carry MSG_PEEK.
    let n = 2 * c1;
    let a: io::Result<Vec<u8>> = if vectored {
        classes.push("vectored");
        let r = real.block_on_for(sa.recv_n_vectored([Vec::with_capacity(c1), Vec::with_capacity(c1)], n).flags(RecvFlag::PEEK), 400);
        match r {
            Ok(r) => r.map(|[x, y]| [x, y].concat()),
            Err(e) => return Err(format!("hang:recv_n_vectored(PEEK): {e}; the equivalent recvmsg(2) loop terminates")),
        }
    } else {
        match real.block_on_for(sa.recv_n(Vec::with_capacity(n), n).flags(RecvFlag::PEEK), 400) {
            Ok(r) => r,
            Err(e) => return Err(format!("hang:recv_n(PEEK): {e}; the equivalent recv(2) loop terminates")),
        }
    };
    let mut bb = vec![0u8; n];
    let mut got = 0usize;
    let mut err = None;
    while got < n {
        let r = unsafe { libc::recv(sb.as_raw_fd(), bb[got..].as_mut_ptr().cast(), n - got, libc::MSG_PEEK) };
        if r <= 0 {
            err = Some(last_err());
            break;
        }
        got += r as usize;
    }
    bb.truncate(got);
    let b = match err {
        Some(e) => Err(e),
        None => Ok(bb),
    };
    same_outcome("recv_n(PEEK)", &a, &b)?;
    // Nothing was consumed on either side.
    let (x, y) = settle(sa_fd, sb.as_raw_fd(), c1 as i32);
    if x != y {
        return Err(format!("unread-bytes:recv_n(PEEK): {x} unread bytes left on the socket after recv_n with MSG_PEEK, {y} after the equivalent recv(2) loop"));
    }
    let a = real.block_on_for(sa.recv(Vec::with_capacity(c1)), 400).map_err(|e| format!("hang:recv after recv_n(PEEK): {e}"))?;
    let mut bb = vec![0u8; c1];
    let r = unsafe { libc::recv(sb.as_raw_fd(), bb.as_mut_ptr().cast(), c1, 0) };
    same_outcome("recv after recv_n(PEEK)", &a, &if r < 0 { Err(last_err()) } else { Ok(bb[..r as usize].to_vec()) })?;
    classes.push("peek");
    classes.push("re-armed-with-flags");
    Ok(())
}

fn run_splice(real: &mut Real, to_pipe: bool, off: Option<u32>, len: u16, file_len: u16, more: bool, direct: bool, classes: &mut Vec<&'static str>) -> Result<(), String> {
    use std::os::fd::AsFd;
    let scratch = Scratch::new("splice");
    let (pa, pb) = (scratch.dir.join("a"), scratch.dir.join("b"));
    let init = pattern(19, file_len as usize);
    std::fs::write(&pa, &init).map_err(|e| format!("infra:{e}"))?;
    std::fs::write(&pb, &init).map_err(|e| format!("infra:{e}"))?;
    let mut oo = OpenOptions::new().read().write();
    if direct {
        oo = oo.kind(Kind::Direct);
        classes.push("direct-descriptor");
    }
    let fa = real.block_on(oo.open(real.sq.clone(), pa.clone()))?.map_err(|e| format!("infra:open: {e}"))?;
    let fb = unsafe { libc::open(cstr(&pb).as_ptr(), libc::O_RDWR | libc::O_CLOEXEC) };
    if fb < 0 {
        return Err("infra:open".into());
    }
    let fb = unsafe { OwnedFd::from_raw_fd(fb) };
    let mk_pipe = || -> Result<(OwnedFd, OwnedFd), String> {
        let mut fds = [0i32; 2];
        if unsafe { libc::pipe2(fds.as_mut_ptr(), libc::O_CLOEXEC | libc::O_NONBLOCK) } != 0 {
            return Err("infra:pipe2".into());
        }
        Ok(unsafe { (OwnedFd::from_raw_fd(fds[0]), OwnedFd::from_raw_fd(fds[1])) })
    };
    let (ra, wa) = mk_pipe()?;
    let (rb, wb) = mk_pipe()?;
    let len = (len as usize).min(60_000);
    let flags = if more { libc::SPLICE_F_MORE } else { 0 };
    if off.is_some_and(|o| o != 0) {
        classes.push("offset");
    }
    let drain = |fd: RawFd| -> Vec<u8> {
        let mut out = Vec::new();
        let mut buf = [0u8; 4096];
        loop {
            let n = unsafe { libc::read(fd, buf.as_mut_ptr().cast(), buf.len()) };
            if n <= 0 {
                break;
            }
            out.extend_from_slice(&buf[..n as usize]);
        }
        out
    };
    if to_pipe {
        // file -> pipe
        let mut f = fa.splice_to(wa.as_fd(), len as u32);
        if let Some(o) = off {
            f = f.from(o as u64);
        }
        if more {
            f = f.flags(a10::io::SpliceFlag::MORE);
        }
        let a = real.block_on_for(f, 600).map_err(|e| format!("hang:splice_to: {e}"))?;
        let mut o64 = off.map(|o| o as i64);
        let r = unsafe { libc::splice(fb.as_raw_fd(), o64.as_mut().map_or(std::ptr::null_mut(), |o| o as *mut i64), wb.as_raw_fd(), std::ptr::null_mut(), len, flags as u32) };
        same_outcome("splice_to", &a, &if r < 0 { Err(last_err()) } else { Ok(r as usize) })?;
        let (da, db) = (drain(ra.as_raw_fd()), drain(rb.as_raw_fd()));
        if da != db {
            return Err(format!("payload:splice_to: the pipe received {} bytes through a10 and {} bytes through splice(2), or different bytes", da.len(), db.len()));
        }
    } else {
        // pipe -> file
        let data = pattern(23, len);
        for w in [&wa, &wb] {
            let n = unsafe { libc::write(w.as_raw_fd(), data.as_ptr().cast(), data.len()) };
            if n != data.len() as isize {
                return Err("infra:pipe write".into());
            }
        }
        let mut f = fa.splice_from(ra.as_fd(), len as u32);
        if let Some(o) = off {
            f = f.at(o as u64);
        }
        if more {
            f = f.flags(a10::io::SpliceFlag::MORE);
        }
        let a = real.block_on_for(f, 600).map_err(|e| format!("hang:splice_from: {e}"))?;
        let mut o64 = off.map(|o| o as i64);
        let r = unsafe { libc::splice(rb.as_raw_fd(), std::ptr::null_mut(), fb.as_raw_fd(), o64.as_mut().map_or(std::ptr::null_mut(), |o| o as *mut i64), len, flags as u32) };
        same_outcome("splice_from", &a, &if r < 0 { Err(last_err()) } else { Ok(r as usize) })?;
        let (ca, cb) = (std::fs::read(&pa).map_err(|e| format!("infra:{e}"))?, std::fs::read(&pb).map_err(|e| format!("infra:{e}"))?);
        if ca != cb {
            let first = ca.iter().zip(&cb).position(|(x, y)| x != y).unwrap_or(ca.len().min(cb.len()));
            return Err(format!("file-content:splice_from: the twin files differ (sizes {} vs {}, first difference at byte {first})", ca.len(), cb.len()));
        }
        let (da, db) = (drain(ra.as_raw_fd()), drain(rb.as_raw_fd()));
        if da.len() != db.len() {
            return Err(format!("payload:splice_from: {} bytes left in the pipe after a10, {} after splice(2)", da.len(), db.len()));
        }
    }
    if let Some(bfd) = fa.as_fd() {
        let (x, y) = (unsafe { libc::lseek(bfd.as_raw_fd(), 0, libc::SEEK_CUR) }, unsafe { libc::lseek(fb.as_raw_fd(), 0, libc::SEEK_CUR) });
        if x != y {
            return Err(format!("file-position:splice: file position {x} after a10, {y} after splice(2)"));
        }
    }
    classes.push("splice");
    Ok(())
}

fn run_convert(real: &mut Real, payload: u16, clone_first: bool, classes: &mut Vec<&'static str>) -> Result<(), String> {
    let scratch = Scratch::new("conv");
    let (pa, pb) = (scratch.dir.join("a"), scratch.dir.join("b"));
    for p in [&pa, &pb] {
        std::fs::write(p, pattern(1, 100)).map_err(|e| format!("infra:{e}"))?;
    }
    let data = pattern(41, payload as usize);
    // Twin A: regular -> (clone) -> direct -> write through the direct one ->
    // back to a regular one -> read through that.
    let orig = real.block_on(OpenOptions::new().read().write().open(real.sq.clone(), pa.clone()))?.map_err(|e| format!("infra:open: {e}"))?;
    let src = if clone_first {
        classes.push("try_clone");
        orig.try_clone().map_err(|e| format!("failure-vs-success:try_clone: {e}"))?
    } else {
        real.block_on(OpenOptions::new().read().write().open(real.sq.clone(), pa.clone()))?.map_err(|e| format!("infra:open: {e}"))?
    };
    let direct = real.block_on(src.to_direct_descriptor())?.map_err(|e| format!("failure-vs-success:to_direct_descriptor: {e}"))?;
    if direct.as_fd().is_some() {
        return Err("value:to_direct_descriptor: the result is not a direct descriptor".into());
    }
    let a = real.block_on(direct.write(data.clone()))?;
    let back = real.block_on(direct.to_file_descriptor())?.map_err(|e| format!("failure-vs-success:to_file_descriptor: {e}"))?;
    let Some(back_fd) = back.as_fd().map(|f| f.as_raw_fd()) else { return Err("value:to_file_descriptor: the result is not a regular descriptor".into()) };
    // Twin B: dup, write, dup.
    let ob = unsafe { libc::open(cstr(&pb).as_ptr(), libc::O_RDWR | libc::O_CLOEXEC) };
    let sb = if clone_first { unsafe { libc::fcntl(ob, libc::F_DUPFD_CLOEXEC, 0) } } else { unsafe { libc::open(cstr(&pb).as_ptr(), libc::O_RDWR | libc::O_CLOEXEC) } };
    if ob < 0 || sb < 0 {
        return Err("infra:open".into());
    }
    let (ob, sb) = unsafe { (OwnedFd::from_raw_fd(ob), OwnedFd::from_raw_fd(sb)) };
    let n = unsafe { libc::write(sb.as_raw_fd(), data.as_ptr().cast(), data.len()) };
    same_outcome("write through converted descriptor", &a, &if n < 0 { Err(last_err()) } else { Ok(n as usize) })?;
    let bb = unsafe { libc::fcntl(sb.as_raw_fd(), libc::F_DUPFD_CLOEXEC, 0) };
    let bb = unsafe { OwnedFd::from_raw_fd(bb) };
    // All descriptors of one open file description share the position.
    let pos = |fd: RawFd| unsafe { libc::lseek(fd, 0, libc::SEEK_CUR) };
    let (x, y) = (pos(back_fd), pos(bb.as_raw_fd()));
    if x != y {
        return Err(format!("file-position:convert: position {x} through the descriptor installed by to_file_descriptor, {y} through dup(2)"));
    }
    if let Some(o) = orig.as_fd() {
        let (x, y) = (pos(o.as_raw_fd()), pos(ob.as_raw_fd()));
        if x != y {
            return Err(format!("file-position:convert: position of the original descriptor {x} vs {y}"));
        }
    }
    let (fa, fb) = (unsafe { libc::fcntl(back_fd, libc::F_GETFD) }, unsafe { libc::fcntl(bb.as_raw_fd(), libc::F_GETFD) });
    if fa != fb {
        return Err(format!("open-cloexec:to_file_descriptor: F_GETFD {fa} vs {fb} (dup with CLOEXEC)"));
    }
    let (ca, cb) = (std::fs::read(&pa).map_err(|e| format!("infra:{e}"))?, std::fs::read(&pb).map_err(|e| format!("infra:{e}"))?);
    if ca != cb {
        return Err(format!("file-content:convert: twin files differ (sizes {} vs {})", ca.len(), cb.len()));
    }
    // Read back through the re-installed descriptor at an offset.
    let a = real.block_on(back.read(Vec::with_capacity(64)).from(10))?;
    let mut buf = vec![0u8; 64];
    let n = unsafe { libc::pread(bb.as_raw_fd(), buf.as_mut_ptr().cast(), 64, 10) };
    same_outcome("read through re-installed descriptor", &a, &if n < 0 { Err(last_err()) } else { Ok(buf[..n as usize].to_vec()) })?;
    classes.push("direct-descriptor");
    classes.push("converted");
    Ok(())
}

fn run_madvise(real: &mut Real, pages: u8, off: u8, len: u8, advice: u8, classes: &mut Vec<&'static str>) -> Result<(), String> {
    let page = 4096usize;
    let total = pages as usize * page;
    let map = || -> Result<*mut u8, String> {
        let p = unsafe { libc::mmap(std::ptr::null_mut(), total, libc::PROT_READ | libc::PROT_WRITE, libc::MAP_PRIVATE | libc::MAP_ANONYMOUS, -1, 0) };
        if p == libc::MAP_FAILED {
            return Err("infra:mmap".into());
        }
        let s = unsafe { std::slice::from_raw_parts_mut(p.cast::<u8>(), total) };
        for (j, b) in s.iter_mut().enumerate() {
            *b = (j as u8) | 1;
        }
        Ok(p.cast())
    };
    let (ma, mb) = (map()?, map()?);
    let off = (off as usize).min(pages as usize) * page;
    let len = (len as usize * page).min(total.saturating_sub(off));
    let flags = [a10::mem::AdviseFlag::NORMAL, a10::mem::AdviseFlag::RANDOM, a10::mem::AdviseFlag::SEQUENTIAL, a10::mem::AdviseFlag::WILL_NEED, a10::mem::AdviseFlag::DONT_NEED];
    let raw = [libc::MADV_NORMAL, libc::MADV_RANDOM, libc::MADV_SEQUENTIAL, libc::MADV_WILLNEED, libc::MADV_DONTNEED];
    let i = advice as usize % flags.len();
    let a = real.block_on(a10::mem::advise(real.sq.clone(), unsafe { ma.add(off) }.cast(), len as u32, flags[i]))?;
    let r = unsafe { libc::madvise(mb.add(off).cast(), len, raw[i]) };
    let res = same_outcome("madvise", &a, &if r < 0 { Err(last_err()) } else { Ok(()) });
    let (sa, sb) = unsafe { (std::slice::from_raw_parts(ma, total), std::slice::from_raw_parts(mb, total)) };
    let same = sa == sb;
    let first = sa.iter().zip(sb).position(|(x, y)| x != y);
    unsafe {
        libc::munmap(ma.cast(), total);
        libc::munmap(mb.cast(), total);
    }
    res?;
    if !same {
        return Err(format!("memory:madvise: after advice {} on [{off}, {}) of {total} bytes the two regions differ, first at byte {first:?}", raw[i], off + len));
    }
    if raw[i] == libc::MADV_DONTNEED && len > 0 {
        classes.push("dontneed");
    }
    if off > 0 {
        classes.push("offset");
    }
    Ok(())
}

fn run_scoped_v6(real: &mut Real, group: u8, _stream_type: bool, classes: &mut Vec<&'static str>) -> Result<(), String> {
    let lo = unsafe { libc::if_nametoindex(c"lo".as_ptr()) };
    if lo == 0 {
        classes.push("scoped-ipv6-unavailable");
        return Ok(());
    }
    // ff02::/16 is link-local scope multicast: the kernel keeps (and reports)
    // the interface as sin6_scope_id.
    let ip = std::net::Ipv6Addr::new(0xff02, 0, 0, 0, 0, 0, 0x0a10, 0x100 + group as u16);
    let want_bind = std::net::SocketAddrV6::new(ip, 0, 0, lo);
    let sock = real.block_on(a10::net::socket(real.sq.clone(), Domain::IPV6, Type::DGRAM, None))?.map_err(|e| format!("infra:socket: {e}"))?;
    match real.block_on(sock.bind(want_bind))? {
        Ok(()) => {}
        // No IPv6 / no multicast on this machine: nothing to compare.
        Err(_) => {
            classes.push("scoped-ipv6-unavailable");
            return Ok(());
        }
    }
    classes.push("scoped-ipv6");
    let fd = sock.as_fd().unwrap().as_raw_fd();
    let mut st: libc::sockaddr_in6 = unsafe { std::mem::zeroed() };
    let mut len = size_of::<libc::sockaddr_in6>() as u32;
    if unsafe { libc::getsockname(fd, (&raw mut st).cast(), &mut len) } != 0 {
        return Err("infra:getsockname".into());
    }
    let want = std::net::SocketAddrV6::new(std::net::Ipv6Addr::from(st.sin6_addr.s6_addr), u16::from_be(st.sin6_port), st.sin6_flowinfo, st.sin6_scope_id);
    let got6 = real.block_on(sock.local_addr::<std::net::SocketAddrV6>())?.map_err(|e| format!("failure-vs-success:local_addr(scoped v6): {e}"))?;
    if (got6.ip(), got6.port(), got6.flowinfo(), got6.scope_id()) != (want.ip(), want.port(), want.flowinfo(), want.scope_id()) {
        return Err(format!("address:local_addr(scoped v6): a10 reports {got6} (flow {}, scope {}), getsockname(2) reports {want} (flow {}, scope {})", got6.flowinfo(), got6.scope_id(), want.flowinfo(), want.scope_id()));
    }
    let got = real.block_on(sock.local_addr::<std::net::SocketAddr>())?.map_err(|e| format!("failure-vs-success:local_addr(scoped v6): {e}"))?;
    if got != std::net::SocketAddr::V6(want) {
        return Err(format!("address:local_addr(scoped v6, either family): a10 reports {got}, getsockname(2) reports {want}"));
    }
    Ok(())
}

fn run_wait(real: &mut Real, code: u8, classes: &mut Vec<&'static str>) -> Result<(), String> {
    let spawn = || std::process::Command::new("/bin/sh").arg("-c").arg(format!("exit {code}")).stdin(std::process::Stdio::null()).spawn().map_err(|e| format!("infra:spawn: {e}"));
    let (ca, cb) = (spawn()?, spawn()?);
    let a = real.block_on_for(a10::process::wait_on(real.sq.clone(), &ca).flags(a10::process::WaitOption::EXITED), 2000).map_err(|e| format!("hang:wait_on: {e}"))?;
    let mut info: libc::siginfo_t = unsafe { std::mem::zeroed() };
    let r = unsafe { libc::waitid(libc::P_PID, cb.id(), &mut info, libc::WEXITED) };
    if r != 0 {
        return Err("infra:waitid".into());
    }
    let a = a.map_err(|e| format!("failure-vs-success:wait_on: {e}"))?;
    let (want_code, want_status) = (info.si_code, unsafe { info.si_status() });
    use std::os::unix::process::ExitStatusExt;
    let got_status = a.status().into_raw();
    if a.pid() != ca.id() as i32 || format!("{:?}", a.code()) != format!("{:?}", a10::process::ChildStatus::EXITED) && want_code == libc::CLD_EXITED || got_status != want_status {
        return Err(format!("value:wait_on: a10 reports pid {} (child {}), code {:?}, status {got_status}; waitid(2) on the twin reports si_code {want_code}, si_status {want_status}", a.pid(), ca.id(), a.code()));
    }
    classes.push("waitid");
    Ok(())
}

fn run_pool_io(real: &mut Real, dgram: bool, peek: bool, len: u16, pool_log2: u8, file_off: Option<u16>, classes: &mut Vec<&'static str>) -> Result<(), String> {
    let pool = a10::io::ReadBufPool::new(real.sq.clone(), 1 << pool_log2.min(3), 4096).map_err(|e| format!("infra:ReadBufPool::new: {e}"))?;
    let len = len as usize;
    let pair = |ty: i32| -> Result<(OwnedFd, OwnedFd), String> {
        let mut fds = [0i32; 2];
        if unsafe { libc::socketpair(libc::AF_UNIX, ty | libc::SOCK_CLOEXEC, 0, fds.as_mut_ptr()) } != 0 {
            return Err("infra:socketpair".into());
        }
        Ok(unsafe { (OwnedFd::from_raw_fd(fds[0]), OwnedFd::from_raw_fd(fds[1])) })
    };
    let ty = if dgram { libc::SOCK_DGRAM } else { libc::SOCK_STREAM };
    let (sa, ra) = pair(ty)?;
    let (sb, rb) = pair(ty)?;
    let ra_raw = ra.as_raw_fd();
    let ra = AsyncFd::new(ra, real.sq.clone());
    let first = pattern(88, len);
    let second = pattern(99, 7);
    for s in [&sa, &sb] {
        for m in [&first, &second] {
            let n = unsafe { libc::send(s.as_raw_fd(), m.as_ptr().cast(), m.len(), libc::MSG_NOSIGNAL) };
            if n != m.len() as isize {
                return Err("infra:send".into());
            }
        }
    }
    // First receive into a pool buffer, with or without MSG_PEEK.
    let f = ra.recv(pool.get());
    let a = real.block_on_for(if peek { f.flags(RecvFlag::PEEK) } else { f }, 400).map_err(|e| format!("hang:recv(pool): {e}"))?;
    let mut bb = vec![0u8; 4096];
    let n = unsafe { libc::recv(rb.as_raw_fd(), bb.as_mut_ptr().cast(), bb.len(), if peek { libc::MSG_PEEK } else { 0 }) };
    let what = if peek { "recv(pool buffer, PEEK)" } else { "recv(pool buffer)" };
    same_outcome(what, &a.as_ref().map(|b| b.as_slice().to_vec()).map_err(|e| io::Error::from_raw_os_error(e.raw_os_error().unwrap_or(0))), &if n < 0 { Err(last_err()) } else { Ok(bb[..n as usize].to_vec()) })?;
    drop(a);
    let (x, y) = (unread(ra_raw), unread(rb.as_raw_fd()));
    if x != y {
        return Err(format!("unread-bytes:{what}: {x} unread bytes left on the socket after a10, {y} after recv(2)"));
    }
    // Everything that is left, again through pool buffers.
    for round in 0..3 {
        if unread(rb.as_raw_fd()) == 0 {
            break;
        }
        let a = real.block_on_for(ra.recv(pool.get()), 400).map_err(|e| format!("hang:recv(pool) #{round}: {e}"))?;
        let n = unsafe { libc::recv(rb.as_raw_fd(), bb.as_mut_ptr().cast(), bb.len(), 0) };
        same_outcome("recv(pool buffer) after", &a.as_ref().map(|b| b.as_slice().to_vec()).map_err(|e| io::Error::from_raw_os_error(e.raw_os_error().unwrap_or(0))), &if n < 0 { Err(last_err()) } else { Ok(bb[..n as usize].to_vec()) })?;
    }
    if peek {
        classes.push("peek");
    }
    classes.push("pool-buffer");
    // A positional read into a pool buffer.
    if let Some(off) = file_off {
        let scratch = Scratch::new("poolfile");
        let p = scratch.dir.join("f");
        let content = pattern(12, 5000);
        std::fs::write(&p, &content).map_err(|e| format!("infra:{e}"))?;
        let fa = real.block_on(OpenOptions::new().read().open(real.sq.clone(), p.clone()))?.map_err(|e| format!("infra:open: {e}"))?;
        let a = real.block_on(fa.read(pool.get()).from(off as u64))?;
        let start = (off as usize).min(content.len());
        let want = content[start..(start + 4096).min(content.len())].to_vec();
        same_outcome("read(pool buffer).from(offset)", &a.as_ref().map(|b| b.as_slice().to_vec()).map_err(|e| io::Error::from_raw_os_error(e.raw_os_error().unwrap_or(0))), &Ok(want))?;
        if off != 0 {
            classes.push("offset");
        }
    }
    Ok(())
}

/// File times in seconds since the epoch: around now, before 1970, after 2038.
fn file_secs() -> impl Strategy<Value = i64> {
    prop_oneof![
        3 => 0i64..2_000_000_000,
        3 => -2_000_000_000i64..0,
        1 => Just(-1i64),
        2 => 2_147_483_648i64..8_000_000_000,
    ]
}

fn run_meta(real: &mut Real, target: u8, mode: u16, size: u16, times: Option<(i64, u32, i64, u32)>, classes: &mut Vec<&'static str>) -> Result<(), String> {
    use std::os::unix::fs::{MetadataExt, PermissionsExt};
    let scratch = Scratch::new("meta");
    let p = scratch.dir.join("obj");
    let raw_fd: OwnedFd;
    // The object, opened by a10 or (where a10 cannot open it) adopted.
    let fa: AsyncFd = match target % 5 {
        0 | 1 => {
            std::fs::write(&p, pattern(2, size as usize)).map_err(|e| format!("infra:{e}"))?;
            std::fs::set_permissions(&p, std::fs::Permissions::from_mode(0o400 | mode as u32)).map_err(|e| format!("infra:{e}"))?;
            classes.push("file-with-mode");
            real.block_on(OpenOptions::new().read().open(real.sq.clone(), p.clone()))?.map_err(|e| format!("infra:open: {e}"))?
        }
        2 => {
            std::fs::create_dir(&p).map_err(|e| format!("infra:{e}"))?;
            std::fs::set_permissions(&p, std::fs::Permissions::from_mode(0o500 | mode as u32)).map_err(|e| format!("infra:{e}"))?;
            classes.push("directory");
            real.block_on(OpenOptions::new().read().open(real.sq.clone(), p.clone()))?.map_err(|e| format!("infra:open dir: {e}"))?
        }
        3 => {
            // A FIFO (opened read-write so that open does not block).
            if unsafe { libc::mkfifo(cstr(&p).as_ptr(), 0o600 | mode as u32) } != 0 {
                return Err("infra:mkfifo".into());
            }
            classes.push("fifo");
            real.block_on(OpenOptions::new().read().write().open(real.sq.clone(), p.clone()))?.map_err(|e| format!("infra:open fifo: {e}"))?
        }
        _ => {
            // A socket.
            classes.push("socket-object");
            real.block_on(a10::net::socket(real.sq.clone(), Domain::UNIX, Type::STREAM, None))?.map_err(|e| format!("infra:socket: {e}"))?
        }
    };
    let Some(bfd) = fa.as_fd() else { return Err("infra:no raw fd".into()) };
    raw_fd = bfd.try_clone_to_owned().map_err(|e| format!("infra:{e}"))?;
    if let Some((ms, mns, as_, ans)) = times {
        use std::os::fd::AsRawFd;
        let ts = [libc::timespec { tv_sec: as_, tv_nsec: ans as i64 }, libc::timespec { tv_sec: ms, tv_nsec: mns as i64 }];
        // (Where the object or the file system refuses, the times stay.)
        if unsafe { libc::futimens(raw_fd.as_raw_fd(), ts.as_ptr()) } == 0 {
            classes.push("times-set");
            if ms < 0 || as_ < 0 {
                classes.push("time-before-1970");
            }
        }
    }
    let m = real.block_on(fa.metadata())?.map_err(|e| format!("failure-vs-success:metadata: {e}"))?;
    // Reference: fstat through std on the same open file description.
    let f = std::fs::File::from(raw_fd);
    let st = f.metadata().map_err(|e| format!("infra:{e}"))?;
    let ft = m.file_type();
    let mut diffs = Vec::new();
    if m.len() != st.len() {
        diffs.push(format!("len {} vs st_size {}", m.len(), st.len()));
    }
    let kind = (st.mode() & libc::S_IFMT) as u32;
    let checks = [
        ("is_file", m.is_file(), kind == libc::S_IFREG),
        ("is_dir", m.is_dir(), kind == libc::S_IFDIR),
        ("is_symlink", m.is_symlink(), kind == libc::S_IFLNK),
        ("file_type.is_file", ft.is_file(), kind == libc::S_IFREG),
        ("file_type.is_dir", ft.is_dir(), kind == libc::S_IFDIR),
        ("file_type.is_socket", ft.is_socket(), kind == libc::S_IFSOCK),
        ("file_type.is_named_pipe", ft.is_named_pipe(), kind == libc::S_IFIFO),
        ("file_type.is_block_device", ft.is_block_device(), kind == libc::S_IFBLK),
        ("file_type.is_character_device", ft.is_character_device(), kind == libc::S_IFCHR),
    ];
    for (name, got, want) in checks {
        if got != want {
            diffs.push(format!("{name} is {got}, st_mode {:o} says {want}", st.mode()));
        }
    }
    let pm = m.permissions();
    let bits = [
        ("owner_can_read", pm.owner_can_read(), 0o400),
        ("owner_can_write", pm.owner_can_write(), 0o200),
        ("owner_can_execute", pm.owner_can_execute(), 0o100),
        ("group_can_read", pm.group_can_read(), 0o040),
        ("group_can_write", pm.group_can_write(), 0o020),
        ("group_can_execute", pm.group_can_execute(), 0o010),
        ("others_can_read", pm.others_can_read(), 0o004),
        ("others_can_write", pm.others_can_write(), 0o002),
        ("others_can_execute", pm.others_can_execute(), 0o001),
    ];
    for (name, got, bit) in bits {
        if got != (st.mode() & bit != 0) {
            diffs.push(format!("permissions().{name}() is {got}, st_mode is {:o}", st.mode() & 0o7777));
        }
    }
    if m.block_size() as u64 != st.blksize() {
        diffs.push(format!("block_size {} vs st_blksize {}", m.block_size(), st.blksize()));
    }
    // (seconds, nanoseconds) relative to the epoch, as struct timespec has them.
    let ts = |t: std::time::SystemTime| match t.duration_since(std::time::UNIX_EPOCH) {
        Ok(d) => (d.as_secs() as i64, d.subsec_nanos() as i64),
        Err(e) => {
            let d = e.duration();
            if d.subsec_nanos() == 0 { (-(d.as_secs() as i64), 0) } else { (-(d.as_secs() as i64) - 1, 1_000_000_000 - d.subsec_nanos() as i64) }
        }
    };
    let guarded = |what: &str, f: &dyn Fn() -> std::time::SystemTime| -> Result<(i64, i64), String> { crate::runner::catch(|| f()).map(ts).map_err(|(msg, loc)| format!("{what}() panicked at {loc}: {msg}")) };
    match guarded("modified", &|| m.modified()) {
        Ok(got) if got != (st.mtime(), st.mtime_nsec()) => diffs.push(format!("modified {got:?} vs st_mtime {:?}", (st.mtime(), st.mtime_nsec()))),
        Ok(_) => {}
        Err(e) => diffs.push(format!("{e} (st_mtime {:?})", (st.mtime(), st.mtime_nsec()))),
    }
    match guarded("accessed", &|| m.accessed()) {
        Ok(got) if got != (st.atime(), st.atime_nsec()) => diffs.push(format!("accessed {got:?} vs st_atime {:?}", (st.atime(), st.atime_nsec()))),
        Ok(_) => {}
        Err(e) => diffs.push(format!("{e} (st_atime {:?})", (st.atime(), st.atime_nsec()))),
    }
    if let Ok(created) = st.created() {
        match guarded("created", &|| m.created()) {
            Ok(got) if got != ts(created) => diffs.push(format!("created {got:?} vs statx btime {:?}", ts(created))),
            Ok(_) => {}
            Err(e) => diffs.push(e),
        }
    }
    if !diffs.is_empty() {
        return Err(format!("metadata: a10's metadata() differs from fstat/statx on the same object: {}", diffs.join("; ")));
    }
    Ok(())
}
