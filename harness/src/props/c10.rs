//! C10 — all-or-error composite I/O is exact under arbitrary short transfers.

use std::future::Future;
use std::io;
use std::pin::Pin;
use std::task::{Context, Poll};
use std::time::Duration;

use a10::Extract;
use a10::io::{BufMutSlice, BufSlice};
use a10::net::{RecvFlag, SendFlag};
use proptest::prelude::*;
use serde::{Deserialize, Serialize};

use super::c14::{AnyBuf, AnyMut, BufSpec, IntoAnyBufs, IntoVecs, Kind, MutSpec, owned_identity};
use crate::abi::{self, Sqe};
use crate::common::{Ctx, Tier};
use crate::interp::waker::WakerHandle;
use crate::interp::world::{RingCfg, World};
use crate::runner::{Property, catch};
use crate::sim::{self, EnterInfo, SimRing, regions};
use crate::track;

#[derive(Copy, Clone, Debug, Serialize, Deserialize, PartialEq, Eq)]
pub enum Op {
    WriteAll,
    WriteAllVectored,
    SendAll,
    SendAllVectored,
    ReadN,
    ReadNVectored,
    RecvN,
    RecvNVectored,
}

impl Op {
    fn is_write(self) -> bool {
        matches!(self, Op::WriteAll | Op::WriteAllVectored | Op::SendAll | Op::SendAllVectored)
    }
    fn vectored(self) -> bool {
        matches!(self, Op::WriteAllVectored | Op::SendAllVectored | Op::ReadNVectored | Op::RecvNVectored)
    }
    fn net(self) -> bool {
        matches!(self, Op::SendAll | Op::SendAllVectored | Op::RecvN | Op::RecvNVectored)
    }
}

#[derive(Copy, Clone, Debug, Serialize, Deserialize, PartialEq, Eq)]
pub enum Offset {
    Current,
    At(u64),
    /// u64::MAX - total - delta
    NearMax(u16),
}

#[derive(Clone, Debug, Serialize, Deserialize)]
pub struct Case {
    pub op: Op,
    /// Source buffers (writes) - 1 for the non-vectored forms.
    pub bufs: Vec<BufSpec>,
    /// Destination buffers (reads).
    pub mbufs: Vec<MutSpec>,
    pub array: bool,
    /// Target count for the read side, scaled into 1..=capacity.
    pub n: u16,
    pub offset: Offset,
    pub flags: u8,
    pub zc: bool,
    pub extract: bool,
    /// Transfer sizes per request, scaled into 0..=request size.
    pub transfers: Vec<Transfer>,
    /// Buffers in the u32 range (reserved address space that is never
    /// touched): the simulated kernel only does address arithmetic.
    #[serde(default)]
    pub phantom: Option<Vec<PhantomSpec>>,
    /// read_n / recv_n into a `ReadBuf` of a pool ("every kind of read
    /// buffer"): fresh from the pool, or already holding data.
    #[serde(default)]
    pub pool: Option<PoolSpec>,
    /// Only under C06's audit: the future is dropped once this many requests
    /// have been answered and it is Pending again (its next step is queued).
    #[serde(default)]
    pub abandon_after: Option<u8>,
}

#[derive(Copy, Clone, Debug, Serialize, Deserialize, PartialEq, Eq)]
pub struct PoolSpec {
    pub pool_log2: u8,
    pub buf_size: u16,
    /// `Some((fill, keep))`: the buffer is first filled by an ordinary pool
    /// read (fraction `fill` of the buffer) and truncated to a fraction `keep`
    /// of that, then used for the read_n / recv_n under test.
    pub prefill: Option<(u16, u16)>,
}

/// One phantom buffer: its size and (read side) how much of it is filled.
#[derive(Copy, Clone, Debug, Serialize, Deserialize, PartialEq, Eq)]
pub struct PhantomSpec {
    pub size: PhSize,
    pub fill: u16,
}

#[derive(Copy, Clone, Debug, Serialize, Deserialize, PartialEq, Eq)]
pub enum PhSize {
    Zero,
    Small(u16),
    /// Around the most one read/write call transfers (MAX_RW_COUNT).
    NearRwMax(i16),
    /// Around 2^31.
    Near2G(i16),
    /// `u32::MAX - d`.
    Near4G(u16),
    /// Any 32-bit size.
    Any(u32),
    /// Beyond 32 bits (destination buffers only): 4 GiB + k * 512 MiB.
    Beyond4G(u8),
}

impl PhSize {
    fn bytes(self, allow_big: bool) -> u64 {
        match self {
            PhSize::Zero => 0,
            PhSize::Small(n) => n as u64,
            PhSize::NearRwMax(d) => (MAX_RW_COUNT as i64 + d as i64) as u64,
            PhSize::Near2G(d) => ((1i64 << 31) + d as i64) as u64,
            PhSize::Near4G(d) => u32::MAX as u64 - d as u64,
            PhSize::Any(n) => n as u64,
            PhSize::Beyond4G(k) => {
                if allow_big {
                    (1u64 << 32) + (k as u64 % 6) * (512 << 20) + (k as u64 / 6)
                } else {
                    u32::MAX as u64 - k as u64
                }
            }
        }
    }
}

/// What a single read/write/send/recv call transfers at most (the kernel's
/// MAX_RW_COUNT, `INT_MAX & PAGE_MASK`): results are 32-bit signed.
const MAX_RW_COUNT: usize = 0x7fff_f000;

#[derive(Copy, Clone, Debug, Serialize, Deserialize, PartialEq, Eq)]
pub enum Transfer {
    Zero,
    One,
    All,
    /// Exactly up to the end of the first non-empty buffer of the request.
    FirstBuffer,
    Frac(u16),
    /// The kernel fails the request with an errno (index into `FAIL_ERRNOS`):
    /// the composite must fail with exactly that error and submit nothing
    /// more.
    Fail(u8),
    /// The kernel interrupts the request (-EINTR, or -ECANCELED if true): a10
    /// re-issues it unchanged and the caller notices nothing.
    Interrupt(bool),
}

/// Errors the kernel reports for a request of a composite (none of them is
/// an interruption that a10 restarts).
const FAIL_ERRNOS: [i32; 10] = [libc::EIO, libc::ENOSPC, libc::EPIPE, libc::ECONNRESET, libc::EAGAIN, libc::EBADF, libc::ENOMEM, libc::EFBIG, libc::ENOTCONN, libc::EDQUOT];

const SEND_FLAGS: [u32; 6] = [libc::MSG_CONFIRM as u32, libc::MSG_DONTROUTE as u32, libc::MSG_EOR as u32, libc::MSG_MORE as u32, libc::MSG_OOB as u32, libc::MSG_FASTOPEN as u32];
const RECV_FLAGS: [u32; 5] = [libc::MSG_CMSG_CLOEXEC as u32, libc::MSG_ERRQUEUE as u32, libc::MSG_OOB as u32, libc::MSG_PEEK as u32, libc::MSG_WAITALL as u32];

fn send_flags(bits: u8) -> (SendFlag, u32) {
    let all = [SendFlag::CONFIRM, SendFlag::DONT_ROUTE, SendFlag::EOR, SendFlag::MORE, SendFlag::OOB, SendFlag::FAST_OPEN];
    let mut f: Option<SendFlag> = None;
    let mut raw = 0;
    for (i, flag) in all.iter().enumerate() {
        if bits & (1 << i) != 0 {
            f = Some(match f {
                Some(x) => x | *flag,
                None => *flag,
            });
            raw |= SEND_FLAGS[i];
        }
    }
    (f.unwrap_or(SendFlag::MORE), if raw == 0 { libc::MSG_MORE as u32 } else { raw })
}

fn recv_flags(bits: u8) -> (RecvFlag, u32) {
    let all = [RecvFlag::CMSG_CLOEXEC, RecvFlag::ERR_QUEUE, RecvFlag::OOB, RecvFlag::PEEK, RecvFlag::WAIT_ALL];
    let mut f: Option<RecvFlag> = None;
    let mut raw = 0;
    for (i, flag) in all.iter().enumerate() {
        if bits & (1 << i) != 0 {
            f = Some(match f {
                Some(x) => x | *flag,
                None => *flag,
            });
            raw |= RECV_FLAGS[i];
        }
    }
    (f.unwrap_or(RecvFlag::WAIT_ALL), if raw == 0 { libc::MSG_WAITALL as u32 } else { raw })
}

/// What the simulated kernel saw and did for one request.
#[derive(Clone, Debug)]
struct Seen {
    sqe: Sqe,
    /// Bytes available to the request (total iovec/buffer length).
    size: usize,
    /// Bytes transferred.
    n: usize,
}

struct Driver {
    is_write: bool,
    transfers: Vec<Transfer>,
    next: usize,
    /// Bytes the kernel accepted (writes), in order.
    stream: Vec<u8>,
    /// Bytes the kernel delivered (reads), in order.
    delivered: usize,
    seen: Vec<Seen>,
    errors: Vec<(String, String)>,
    zc_ops: bool,
    /// Phantom mode: no byte is read or written, the accepted/delivered
    /// memory is recorded as (address, length) spans in order.
    phantom: bool,
    spans: Vec<(usize, usize)>,
    /// Buffers the kernel selected from a provided-buffer ring: (address,
    /// size, bytes delivered into it by that request).
    selected: Vec<(usize, usize, usize)>,
    /// Non-select requests: (address, size) of the destination.
    direct: Vec<(usize, usize)>,
    abandon_after: Option<u8>,
    /// The errno with which a request was failed (`Transfer::Fail`) and the
    /// number of requests answered normally before it.
    failed: Option<(i32, usize)>,
    /// The request that was interrupted last and not yet seen again.
    interrupted: Option<Sqe>,
    interrupts: usize,
}

fn push_span(spans: &mut Vec<(usize, usize)>, addr: usize, len: usize) {
    if len == 0 {
        return;
    }
    if let Some(last) = spans.last_mut() {
        if last.0 + last.1 == addr {
            last.1 += len;
            return;
        }
    }
    spans.push((addr, len));
}

fn source_byte(j: usize) -> u8 {
    (j.wrapping_mul(37).wrapping_add(11)) as u8
}

impl Driver {
    /// Handle one consumed request inline (inside io_uring_enter).
    fn handle(&mut self, ring: &mut SimRing, serial: u64) {
        let Some(req) = ring.req(serial).cloned() else { return };
        if req.sqe.user_data < 4 || req.done {
            return;
        }
        let sqe = req.sqe;
        if let Some((errno, _)) = self.failed {
            self.errors.push(("request-after-error".into(), format!("the kernel failed a request with errno {errno}, yet another request ({}) was submitted", abi::opcode_name(sqe.opcode))));
            ring.complete(serial, -libc::EINVAL, 0, false);
            return;
        }
        if let Some(prev) = self.interrupted.take() {
            if prev != sqe {
                self.errors.push(("restart-differs".into(), format!("the request re-issued after an interruption differs from the interrupted one: {prev:?} vs {sqe:?}")));
            }
        }
        match self.transfers.get(self.next).copied() {
            Some(Transfer::Fail(k)) => {
                self.next += 1;
                let errno = FAIL_ERRNOS[k as usize % FAIL_ERRNOS.len()];
                self.failed = Some((errno, self.seen.len()));
                let zc = matches!(sqe.opcode, abi::OP_SEND_ZC | abi::OP_SENDMSG_ZC);
                if zc && k as usize / FAIL_ERRNOS.len() % 2 == 0 {
                    // A failed zero-copy send may still post its notification.
                    self.zc_ops = true;
                    ring.complete(serial, -errno, 0, true);
                    if let Some(r) = ring.req_mut(serial) {
                        r.zc_notif_pending = true;
                    }
                    ring.complete(serial, 0, abi::CQE_F_NOTIF, false);
                } else {
                    ring.complete(serial, -errno, 0, false);
                }
                return;
            }
            Some(Transfer::Interrupt(cancelled)) if self.interrupts < 6 => {
                self.next += 1;
                self.interrupts += 1;
                self.interrupted = Some(sqe);
                ring.complete(serial, if cancelled { -libc::ECANCELED } else { -libc::EINTR }, 0, false);
                return;
            }
            Some(Transfer::Interrupt(_)) => {
                self.next += 1;
            }
            _ => {}
        }
        if !self.is_write && sqe.flags & abi::IOSQE_BUFFER_SELECT != 0 && matches!(sqe.opcode, abi::OP_READ | abi::OP_RECV) {
            // The kernel picks the buffer (K8).
            let Some(entry) = ring.select_buffer(sqe.buf_group) else {
                self.seen.push(Seen { sqe, size: 0, n: 0 });
                ring.complete(serial, -libc::ENOBUFS, 0, false);
                return;
            };
            let size = entry.len as usize;
            let t = self.transfers.get(self.next).copied().unwrap_or(Transfer::All);
            self.next += 1;
            let n = match t {
                Transfer::Zero => 0,
                Transfer::One => size.min(1),
                Transfer::All | Transfer::FirstBuffer | Transfer::Fail(_) | Transfer::Interrupt(_) => size,
                Transfer::Frac(f) => ((f as usize) * (size + 1)) >> 16,
            };
            if track::residence(entry.addr as usize, size) == track::Residence::Unknown {
                self.errors.push(("region".into(), "provided buffer is not in live memory".into()));
            } else {
                let data: Vec<u8> = (0..n).map(|j| source_byte(self.delivered + j)).collect();
                unsafe { std::ptr::copy_nonoverlapping(data.as_ptr(), entry.addr as *mut u8, n) };
            }
            self.delivered += n;
            self.selected.push((entry.addr as usize, size, n));
            self.seen.push(Seen { sqe, size, n });
            ring.complete(serial, n as i32, abi::CQE_F_BUFFER | ((entry.bid as u32) << abi::CQE_BUFFER_SHIFT), false);
            return;
        }
        if !self.is_write && matches!(sqe.opcode, abi::OP_READ | abi::OP_RECV) {
            self.direct.push((sqe.addr as usize, sqe.len as usize));
        }
        // Gather the data regions in order.
        let data_regions: Vec<&regions::Region> = match sqe.opcode {
            abi::OP_WRITE | abi::OP_READ | abi::OP_SEND | abi::OP_SEND_ZC | abi::OP_RECV => req.regions.iter().filter(|r| r.what == "buffer").collect(),
            abi::OP_WRITEV | abi::OP_READV | abi::OP_SENDMSG | abi::OP_SENDMSG_ZC | abi::OP_RECVMSG => req.regions.iter().filter(|r| r.what == "iovec-target").collect(),
            other => {
                self.errors.push(("unexpected-opcode".into(), format!("composite operation submitted opcode {}", abi::opcode_name(other))));
                ring.complete(serial, -libc::EINVAL, 0, false);
                return;
            }
        };
        let size: usize = data_regions.iter().map(|r| r.len).sum();
        let t = self.transfers.get(self.next).copied().unwrap_or(Transfer::All);
        self.next += 1;
        let first = data_regions.first().map_or(0, |r| r.len);
        let n = match t {
            Transfer::Zero => 0,
            Transfer::One => size.min(1),
            Transfer::All | Transfer::Fail(_) | Transfer::Interrupt(_) => size,
            Transfer::FirstBuffer => first.min(size),
            Transfer::Frac(f) => ((f as usize) * (size + 1)) >> 16,
        };
        let n = if self.phantom { n.min(MAX_RW_COUNT) } else { n };
        let mut left = n;
        for r in &data_regions {
            if left == 0 {
                break;
            }
            let take = left.min(r.len);
            if self.phantom {
                push_span(&mut self.spans, r.addr, take);
                if !self.is_write {
                    self.delivered += take;
                }
            } else if self.is_write {
                match regions::read_region(r, 0, take) {
                    Some(bytes) => self.stream.extend_from_slice(&bytes),
                    None => self.errors.push(("region".into(), "source region no longer valid".into())),
                }
            } else {
                let data: Vec<u8> = (0..take).map(|j| source_byte(self.delivered + j)).collect();
                if !regions::write_region(r, 0, &data) {
                    self.errors.push(("region".into(), "destination region no longer valid".into()));
                }
                self.delivered += take;
            }
            left -= take;
        }
        self.seen.push(Seen { sqe, size, n });
        let zc = matches!(sqe.opcode, abi::OP_SEND_ZC | abi::OP_SENDMSG_ZC);
        if zc {
            self.zc_ops = true;
            ring.complete(serial, n as i32, 0, true);
            if let Some(r) = ring.req_mut(serial) {
                r.zc_notif_pending = true;
            }
            ring.complete(serial, 0, abi::CQE_F_NOTIF, false);
        } else {
            ring.complete(serial, n as i32, 0, false);
        }
    }
}

const FAULT_JUDGED: &str = "fault-judged";

/// When the script failed a request with an errno the composite must fail
/// with exactly that error (and must not have submitted anything after it,
/// which the driver reports itself); the ordinary oracle, which describes a
/// kernel that reports no error, is skipped for the result in that case.
fn fault_filter<T>(driver: &Driver, result: Result<io::Result<T>, String>) -> (Result<io::Result<T>, String>, Vec<(&'static str, String)>) {
    let Some((errno, after)) = driver.failed else { return (result, Vec::new()) };
    let mut reports = Vec::new();
    match &result {
        // Stuck, panicked or abandoned: judged by the ordinary arm.
        Err(_) => return (result, reports),
        Ok(Ok(_)) => reports.push(("ok-after-error", format!("returned Ok although the kernel failed request {after} with errno {errno}"))),
        Ok(Err(e)) if e.raw_os_error() == Some(errno) => {}
        Ok(Err(e)) => reports.push(("wrong-error", format!("failed with {e:?} although the kernel failed request {after} with errno {errno}"))),
    }
    (Err(FAULT_JUDGED.to_string()), reports)
}

struct DriverPtr(*mut Driver);
unsafe impl Send for DriverPtr {}

enum Final<T> {
    Ok(T),
    Err(io::Error),
    Stuck(String),
}

/// Drive `fut` to completion against the scripted kernel.
fn drive<F: Future>(world: &mut World, driver: &mut Driver, fut: F) -> Result<F::Output, String> {
    let mut fut = Box::pin(fut);
    let waker = WakerHandle::new();
    let ptr = DriverPtr(driver as *mut Driver);
    let hook: sim::EnterHook = Box::new(move |ring: &mut SimRing, info: &EnterInfo| {
        let ptr = &ptr;
        // SAFETY: the driver outlives the loop below; single threaded.
        let driver = unsafe { &mut *ptr.0 };
        for serial in &info.consumed {
            driver.handle(ring, *serial);
        }
    });
    sim::sim().enter_hook = Some(hook);
    let mut result = Err("operation did not finish within 4000 requests".to_string());
    for _ in 0..4000 {
        let mut cx = Context::from_waker(&waker.waker);
        let polled = {
            let _s = track::scope(track::TAG_A10);
            catch(|| fut.as_mut().poll(&mut cx))
        };
        match polled {
            Err((msg, loc)) => {
                std::mem::forget(fut);
                sim::sim().enter_hook = None;
                return Err(format!("panic:composite future panicked at {loc}: {msg}"));
            }
            Ok(Poll::Ready(out)) => {
                result = Ok(out);
                break;
            }
            Ok(Poll::Pending) => {
                if driver.abandon_after.is_some_and(|k| driver.seen.len() >= k as usize) {
                    result = Err("abandoned:the future was dropped with its next step queued".to_string());
                    break;
                }
                // Ring::poll only enters when the completion queue is empty.
                for _ in 0..3 {
                    if let Err(e) = world.poll_ring(Some(Duration::ZERO)) {
                        sim::sim().enter_hook = None;
                        return Err(format!("ring-poll:Ring::poll failed: {e}"));
                    }
                }
            }
        }
    }
    {
        let _s = track::scope(track::TAG_A10);
        drop(fut);
    }
    if driver.abandon_after.is_some() && result.is_err() {
        // What the dropped future left in the queue (its step, the
        // cancellation) is consumed and answered; the state must be reclaimed
        // by these polls (or, at the latest, by the Ring's drop).
        for _ in 0..3 {
            let _ = world.poll_ring(Some(Duration::ZERO));
        }
    }
    sim::sim().enter_hook = None;
    result
}

fn build_any(spec: &BufSpec, salt: usize, force_nonempty: bool) -> (AnyBuf, Vec<u8>, usize) {
    let mut spec = spec.clone();
    if force_nonempty {
        spec.len = spec.len.max(1);
        spec.limit = None;
    }
    super::c14::build_for_c10(&spec, salt)
}

pub struct C10;

fn transfer() -> impl Strategy<Value = Transfer> {
    prop_oneof![
        1 => Just(Transfer::Zero),
        2 => Just(Transfer::One),
        3 => Just(Transfer::All),
        3 => Just(Transfer::FirstBuffer),
        6 => any::<u16>().prop_map(Transfer::Frac),
        1 => any::<u8>().prop_map(Transfer::Fail),
        1 => any::<bool>().prop_map(Transfer::Interrupt),
    ]
}

fn buf_spec_small() -> impl Strategy<Value = BufSpec> {
    let kinds = [Kind::Vec, Kind::BoxSlice, Kind::String, Kind::BoxStr, Kind::StaticSlice, Kind::StaticStr, Kind::CowBorrowedBytes, Kind::CowOwnedBytes, Kind::CowBorrowedStr, Kind::CowOwnedStr, Kind::ArcSlice, Kind::ArcStr, Kind::StaticBuf];
    (0usize..kinds.len(), prop_oneof![3 => Just(0u16), 3 => 1u16..8, 6 => 0u16..600, 1 => 3000u16..4000], proptest::option::weighted(0.15, prop_oneof![(-2i8..=2).prop_map(super::c14::Limit::Near), (0u64..700).prop_map(super::c14::Limit::Abs)]))
        .prop_map(move |(k, len, limit)| BufSpec { kind: kinds[k], len, limit })
}

fn mut_spec_small() -> impl Strategy<Value = MutSpec> {
    (prop_oneof![2 => Just(0u16), 8 => 1u16..600, 1 => 3000u16..4000], any::<u16>(), proptest::option::weighted(0.15, prop_oneof![(-2i8..=2).prop_map(super::c14::Limit::Near), (0u64..700).prop_map(super::c14::Limit::Abs)]))
        .prop_map(|(cap, l, limit)| MutSpec { cap, len: ((l as u32 * (cap as u32 + 1)) >> 17) as u16, limit, huge: false })
}

impl Property for C10 {
    const ID: &'static str = "C10";
    type Case = Case;

    fn strategy(_tier: Tier) -> BoxedStrategy<Case> {
        let ops = [Op::WriteAll, Op::WriteAllVectored, Op::SendAll, Op::SendAllVectored, Op::ReadN, Op::ReadNVectored, Op::RecvN, Op::RecvNVectored];
        (
            0usize..ops.len(),
            proptest::collection::vec(buf_spec_small(), 1..=8),
            proptest::collection::vec(mut_spec_small(), 1..=8),
            any::<bool>(),
            any::<u16>(),
            prop_oneof![4 => Just(Offset::Current), 3 => (0u64..1 << 40).prop_map(Offset::At), 1 => any::<u16>().prop_map(Offset::NearMax)],
            prop_oneof![3 => Just(0u8), 5 => any::<u8>()],
            any::<bool>(),
            any::<bool>(),
            proptest::collection::vec(transfer(), 0..12),
            proptest::option::weighted(0.12, proptest::collection::vec(phantom_spec(), 1..=8)),
            proptest::option::weighted(0.3, (0u8..=2, prop_oneof![1 => 1u16..8, 4 => 1u16..=600], proptest::option::of((any::<u16>(), any::<u16>()))).prop_map(|(pool_log2, buf_size, prefill)| PoolSpec { pool_log2, buf_size, prefill })),
        )
            .prop_map(move |(op, bufs, mbufs, array, n, offset, flags, zc, extract, transfers, phantom, pool)| Case { op: ops[op], bufs, mbufs, array, n, offset, flags, zc, extract, transfers, phantom, pool, abandon_after: None })
            .boxed()
    }

    fn cases(tier: Tier) -> u32 {
        tier.pick(24_000, 3_000_000)
    }

    fn run(case: &Case, ctx: &mut Ctx) {
        run_case(case, ctx);
    }

    fn rule() -> &'static str {
        "proptest cases: operation (write_all, write_all_vectored, send_all, send_all_vectored, read_n, read_n_vectored, recv_n, recv_n_vectored), 1..8 buffers of every provided carrier type (arrays and mixed tuples, LimitedBuf) with lengths 0..4000 and empties in any position (total >= 1), target n >= 1 with capacity >= n, offset (current position, generated, near u64::MAX), every send/recv flag subset, zero-copy on/off, extract variants, and a generated sequence of transfer sizes per request (0, 1, exactly one buffer, all, fraction). The simulated kernel appends the bytes it accepts to an oracle stream / delivers generated bytes. Oracle: Ok <=> stream == concatenation of the inputs; each request's offset = start + bytes so far (or -1 throughout), caller's flags and opcode (normal vs zero copy) on every continuation; 0 bytes accepted => WriteZero; read side returns Ok only with >= n bytes appended in arrival order, UnexpectedEof <=> 0 returned before n; extract returns the original buffers (same heap pointers and contents). Non-trivial = >= 2 continuations, or an empty buffer adjacent to a split, or a split exactly on a buffer boundary. Distinct = (op, shape, classes, 16-bit case hash)."
    }

    fn assumptions() -> Vec<&'static str> {
        vec!["simulated kernel obeys DESIGN.md section 3; buffer lengths up to 4000 bytes per buffer (the u32-range 'phantom buffer' class is not implemented: lengths near 2^32 are not reached)"]
    }
}

/// Outcome of a composite future in normalised form.
enum Done {
    Unit,
    /// Buffers handed back: (heap address, contents) each.
    Bufs(Vec<(usize, Vec<u8>)>),
}

/// The case under C06's audit: whatever the composite future did, after it
/// resolved and everything was dropped nothing allocated during the case may
/// still be live, and nothing may have been freed twice. (Failures of C10's
/// own oracle are not C06's business and are ignored here.)
pub fn run_audited(case: &Case, ctx: &mut Ctx) {
    let known = Vec::new();
    let mut inner = Ctx::new("C10", &known, Tier::Quick);
    run_case(case, &mut inner);
    let mark = crate::interp::world::last_mark();
    let events = track::take_events();
    let leaks = track::live_since(mark);
    if let Some(i) = inner.infra.take() {
        ctx.infra(i);
        track::forget_since(mark);
        return;
    }
    for e in events {
        if let track::Event::ForeignFree { addr, size } = e {
            ctx.violation("C06:composite:double-free", format!("{:?}: free of {addr:#x} (size {size}) which is not a live block", case.op));
        }
    }
    if !leaks.is_empty() {
        let desc: Vec<String> = leaks.iter().take(4).map(|b| format!("{:#x}+{} tag {}", b.addr, b.size, b.tag)).collect();
        ctx.violation("C06:composite:state-leaked", format!("{:?} in {} steps: {} blocks allocated during the operation are still live after the future resolved and everything was dropped: {}", case.op, inner.classes.len(), leaks.len(), desc.join(", ")));
        track::forget_since(mark);
    }
    ctx.class("composite");
    ctx.class(&format!("{:?}", case.op));
    ctx.nontrivial = inner.nontrivial;
    ctx.fingerprint = format!("composite|{}", inner.fingerprint);
}

fn run_case(case: &Case, ctx: &mut Ctx) {
    let mut world = match World::new(&RingCfg::simple(3)) {
        Ok(w) => w,
        Err(e) => {
            ctx.infra(e);
            return;
        }
    };
    let fd = world.new_fd();
    let afd = world.fd(fd);
    let mut classes: Vec<&'static str> = Vec::new();
    let mut driver = Driver { is_write: case.op.is_write(), transfers: case.transfers.clone(), next: 0, stream: Vec::new(), delivered: 0, seen: Vec::new(), errors: Vec::new(), zc_ops: false, phantom: case.phantom.is_some(), spans: Vec::new(), selected: Vec::new(), direct: Vec::new(), abandon_after: case.abandon_after, failed: None, interrupted: None, interrupts: 0 };
    let zc = case.zc && matches!(case.op, Op::SendAll | Op::SendAllVectored);

    let report = |ctx: &mut Ctx, kind: &str, msg: String| {
        ctx.violation(&format!("C10:{kind}:{:?}", case.op), msg);
    };

    if let Some(specs) = &case.phantom {
        run_phantom(case, specs, &mut world, afd, &mut driver, ctx);
        drop(world);
        return;
    }
    if let (Some(spec), Op::ReadN | Op::RecvN) = (&case.pool, case.op) {
        run_pool(case, spec, &mut world, afd, &mut driver, ctx);
        drop(world);
        return;
    }

    if case.op.is_write() {
        let count = if case.op.vectored() { case.bufs.len() } else { 1 };
        let mut inputs = Vec::new();
        let mut expected: Vec<u8> = Vec::new();
        let mut originals = Vec::new();
        let mut visible_lens: Vec<usize> = Vec::new();
        let total_pre: usize = case.bufs[..count].iter().map(|b| b.limit.map_or(b.len as usize, |l| l.value(b.len as usize).min(b.len as usize))).sum();
        for (k, spec) in case.bufs[..count].iter().enumerate() {
            let (buf, bytes, addr) = build_any(spec, k + 1, k == 0 && total_pre == 0);
            // Visible bytes (after a LimitedBuf limit).
            let visible = a10::io::Buf::len(&buf).min(bytes.len());
            visible_lens.push(visible);
            expected.extend_from_slice(&bytes[..visible]);
            originals.push((addr, bytes));
            inputs.push(buf);
        }
        let total = expected.len();
        if total == 0 {
            // A limit of zero on the only buffer: outside the property's
            // domain (total length >= 1).
            ctx.skipped_steps += 1;
            ctx.fingerprint = "skipped-empty".into();
            return;
        }
        let start = match case.offset {
            Offset::Current => u64::MAX,
            Offset::At(o) => o,
            Offset::NearMax(d) => u64::MAX - total as u64 - 1 - d as u64,
        };
        let positional = !case.op.net() && start != u64::MAX;
        let (sflags, raw_flags) = send_flags(case.flags);
        let use_flags = case.op.net() && case.flags != 0;

        // Build and drive the future; normalise the result.
        let result: Result<io::Result<Done>, String> = match case.op {
            Op::WriteAll => {
                let buf = inputs.pop().unwrap();
                let mut f = { let _s = track::scope(track::TAG_A10); afd.write_all(buf) };
                if positional {
                    f = f.at(start);
                }
                if case.extract {
                    drive(&mut world, &mut driver, f.extract()).map(|r| r.map(|b| Done::Bufs(vec![owned_identity(b)])))
                } else {
                    drive(&mut world, &mut driver, f).map(|r| r.map(|()| Done::Unit))
                }
            }
            Op::SendAll => {
                let buf = inputs.pop().unwrap();
                let mut f = { let _s = track::scope(track::TAG_A10); afd.send_all(buf) };
                if use_flags {
                    f = f.flags(sflags);
                }
                if zc {
                    f = f.zc();
                }
                if case.extract {
                    drive(&mut world, &mut driver, f.extract()).map(|r| r.map(|b| Done::Bufs(vec![owned_identity(b)])))
                } else {
                    drive(&mut world, &mut driver, f).map(|r| r.map(|()| Done::Unit))
                }
            }
            Op::WriteAllVectored | Op::SendAllVectored => {
                macro_rules! go {
                    ($t:ident) => {{
                        if case.op == Op::WriteAllVectored {
                            let mut f = { let _s = track::scope(track::TAG_A10); afd.write_all_vectored($t) };
                            if positional {
                                f = f.at(start);
                            }
                            if case.extract {
                                drive(&mut world, &mut driver, f.extract()).map(|r| r.map(|b| Done::Bufs(b.into_any().into_iter().map(owned_identity).collect())))
                            } else {
                                drive(&mut world, &mut driver, f).map(|r| r.map(|()| Done::Unit))
                            }
                        } else {
                            let mut f = { let _s = track::scope(track::TAG_A10); afd.send_all_vectored($t) };
                            if use_flags {
                                f = f.flags(sflags);
                            }
                            if zc {
                                f = f.zc();
                            }
                            if case.extract {
                                drive(&mut world, &mut driver, f.extract()).map(|r| r.map(|b| Done::Bufs(b.into_any().into_iter().map(owned_identity).collect())))
                            } else {
                                drive(&mut world, &mut driver, f).map(|r| r.map(|()| Done::Unit))
                            }
                        }
                    }};
                }
                if case.array || count == 1 {
                    with_array!(inputs, count, |t| go!(t))
                } else {
                    with_tuple!(inputs, count, |t| go!(t))
                }
            }
            _ => unreachable!(),
        };

        // Judge.
        for (k, m) in driver.errors.drain(..) {
            report(ctx, &k, m);
        }
        let zero_at = driver.seen.iter().position(|s| s.n == 0);
        let (result, fault_reports) = fault_filter(&driver, result);
        for (k, m) in fault_reports {
            report(ctx, k, m);
        }
        if driver.failed.is_some() {
            classes.push("kernel-error");
        }
        if driver.interrupts > 0 {
            classes.push("interrupted");
        }
        match result {
            Err(e) if e == FAULT_JUDGED => {}
            Err(e) => {
                let (k, m) = e.split_once(':').unwrap_or(("stuck", &e));
                report(ctx, k, m.to_string());
            }
            Ok(Ok(done)) => {
                if driver.stream != expected {
                    let common = driver.stream.iter().zip(&expected).take_while(|(a, b)| a == b).count();
                    let kind = if driver.stream.len() < expected.len() && driver.stream[..] == expected[..driver.stream.len()] { "ok-before-all-written" } else { "stream-mismatch" };
                    report(ctx, kind, format!("returned Ok after the kernel accepted {} bytes in {} requests, the inputs total {} bytes (first difference at byte {common}; request sizes/transfers: {:?})", driver.stream.len(), driver.seen.len(), expected.len(), driver.seen.iter().map(|s| (s.size, s.n)).collect::<Vec<_>>()));
                }
                if zero_at.is_some() {
                    report(ctx, "ok-after-zero", "returned Ok although the kernel accepted 0 bytes for a request".into());
                }
                if let Done::Bufs(bufs) = done {
                    let got: Vec<(usize, Vec<u8>)> = bufs;
                    if got != originals {
                        report(ctx, "extract-not-original", format!("extract returned buffers that are not the caller's originals (addresses {:?} vs {:?})", got.iter().map(|g| g.0).collect::<Vec<_>>(), originals.iter().map(|g| g.0).collect::<Vec<_>>()));
                    }
                }
            }
            Ok(Err(e)) => {
                if e.kind() == io::ErrorKind::WriteZero {
                    if zero_at.is_none() {
                        report(ctx, "spurious-write-zero", "failed with WriteZero although the kernel never accepted 0 bytes".into());
                    }
                    classes.push("write-zero");
                } else {
                    report(ctx, "unexpected-error", format!("failed with {e} although the kernel reported no error"));
                }
            }
        }
        // Per-request checks: offsets, flags, opcode.
        let mut so_far = 0u64;
        for (k, s) in driver.seen.iter().enumerate() {
            let want_op = match (case.op, zc) {
                (Op::WriteAll, _) => abi::OP_WRITE,
                (Op::WriteAllVectored, _) => abi::OP_WRITEV,
                (Op::SendAll, false) => abi::OP_SEND,
                (Op::SendAll, true) => abi::OP_SEND_ZC,
                (Op::SendAllVectored, false) => abi::OP_SENDMSG,
                (Op::SendAllVectored, true) => abi::OP_SENDMSG_ZC,
                _ => unreachable!(),
            };
            if s.sqe.opcode != want_op {
                report(ctx, "continuation-opcode", format!("request {k} uses opcode {} instead of {}", abi::opcode_name(s.sqe.opcode), abi::opcode_name(want_op)));
            }
            if !case.op.net() {
                let want_off = if positional { start + so_far } else { u64::MAX };
                if s.sqe.off != want_off {
                    report(ctx, "continuation-offset", format!("request {k} has offset {:#x}, expected {want_off:#x} (start {start:#x} + {so_far} bytes written so far)", s.sqe.off));
                }
            } else {
                let want_flags = if use_flags { raw_flags } else { 0 };
                if s.sqe.op_flags != want_flags {
                    report(ctx, "continuation-flags", format!("request {k} carries msg_flags {:#x}, the caller chose {want_flags:#x}", s.sqe.op_flags));
                }
            }
            so_far += s.n as u64;
        }
        if driver.seen.len() >= 3 {
            classes.push(">=2-continuations");
        }
        // Split exactly at a buffer boundary / next to an empty buffer.
        let mut bounds = Vec::new();
        let mut acc = 0usize;
        let lens: Vec<usize> = visible_lens.clone();
        for l in &lens {
            acc += l;
            bounds.push(acc);
        }
        let mut pos = 0usize;
        for s in &driver.seen {
            pos += s.n;
            if pos < total && bounds.contains(&pos) {
                classes.push("split-on-boundary");
                break;
            }
        }
        if lens.len() >= 2 && lens.iter().any(|l| *l == 0) && driver.seen.len() >= 2 {
            classes.push("empty-buffer-with-split");
        }
        if positional {
            classes.push("positional");
        }
        if zc {
            classes.push("zero-copy");
        }
    } else {
        // Read side.
        let count = if case.op.vectored() { case.mbufs.len() } else { 1 };
        let mut bufs = Vec::new();
        let mut before: Vec<Vec<u8>> = Vec::new();
        let mut capacity = 0usize;
        let mut addrs = Vec::new();
        for (k, spec) in case.mbufs[..count].iter().enumerate() {
            let mut spec = spec.clone();
            if k == 0 && case.mbufs[..count].iter().all(|m| m.cap == m.len) {
                spec.cap = spec.cap.max(spec.len + 1).max(1);
            }
            let (b, truth) = super::c14::build_mut_for_c10(&spec, k + 1);
            capacity += truth.2;
            before.push(truth.0.clone());
            addrs.push(truth.1);
            bufs.push(b);
        }
        if capacity == 0 {
            ctx.skipped_steps += 1;
            ctx.fingerprint = "skipped-no-capacity".into();
            return;
        }
        // Target 1..=capacity (precondition: capacity >= n).
        let n = 1 + (((case.n as usize) * capacity) >> 16).min(capacity - 1);
        let start = match case.offset {
            Offset::Current => u64::MAX,
            Offset::At(o) => o,
            Offset::NearMax(d) => u64::MAX - capacity as u64 - 1 - d as u64,
        };
        let positional = !case.op.net() && start != u64::MAX;
        let (rflags, raw_flags) = recv_flags(case.flags);
        let use_flags = case.op.net() && case.flags != 0;

        let result: Result<io::Result<Vec<Vec<u8>>>, String> = match case.op {
            Op::ReadN => {
                let buf = bufs.pop().unwrap();
                let mut f = { let _s = track::scope(track::TAG_A10); afd.read_n(buf, n) };
                if positional {
                    f = f.from(start);
                }
                drive(&mut world, &mut driver, f).map(|r| r.map(|b| vec![b.into_vec()]))
            }
            Op::RecvN => {
                let buf = bufs.pop().unwrap();
                let mut f = { let _s = track::scope(track::TAG_A10); afd.recv_n(buf, n) };
                if use_flags {
                    f = f.flags(rflags);
                }
                drive(&mut world, &mut driver, f).map(|r| r.map(|b| vec![b.into_vec()]))
            }
            Op::ReadNVectored | Op::RecvNVectored => {
                macro_rules! go {
                    ($t:ident) => {{
                        if case.op == Op::ReadNVectored {
                            let mut f = { let _s = track::scope(track::TAG_A10); afd.read_n_vectored($t, n) };
                            if positional {
                                f = f.from(start);
                            }
                            drive(&mut world, &mut driver, f).map(|r| r.map(IntoVecs::into_vecs))
                        } else {
                            let mut f = { let _s = track::scope(track::TAG_A10); afd.recv_n_vectored($t, n) };
                            if use_flags {
                                f = f.flags(rflags);
                            }
                            drive(&mut world, &mut driver, f).map(|r| r.map(IntoVecs::into_vecs))
                        }
                    }};
                }
                if case.array || count == 1 {
                    with_array!(bufs, count, |t| go!(t))
                } else {
                    with_tuple!(bufs, count, |t| go!(t))
                }
            }
            _ => unreachable!(),
        };
        for (k, m) in driver.errors.drain(..) {
            report(ctx, &k, m);
        }
        // When did the stream end (a 0-byte result) relative to reaching n?
        let mut got = 0usize;
        let mut eof_before_n = false;
        for s in &driver.seen {
            if s.n == 0 && got < n {
                eof_before_n = true;
                break;
            }
            got += s.n;
            if got >= n {
                break;
            }
        }
        let (result, fault_reports) = fault_filter(&driver, result);
        for (k, m) in fault_reports {
            report(ctx, k, m);
        }
        if driver.failed.is_some() {
            classes.push("kernel-error");
        }
        if driver.interrupts > 0 {
            classes.push("interrupted");
        }
        match result {
            Err(e) if e == FAULT_JUDGED => {}
            Err(e) => {
                let (k, m) = e.split_once(':').unwrap_or(("stuck", &e));
                report(ctx, k, m.to_string());
            }
            Ok(Ok(vecs)) => {
                let appended: usize = vecs.iter().zip(&before).map(|(v, b)| v.len().saturating_sub(b.len())).sum();
                if appended < n {
                    report(ctx, "ok-before-n", format!("returned Ok with {appended} bytes appended, {n} were requested (requests: {:?})", driver.seen.iter().map(|s| (s.size, s.n)).collect::<Vec<_>>()));
                }
                if eof_before_n {
                    report(ctx, "ok-after-eof", format!("returned Ok although the stream ended (0 bytes) before {n} bytes were read"));
                }
                // Contents: original prefix + delivered bytes in arrival order.
                // Each request fills the buffers in order from their current
                // fill level, so the concatenation of the appended parts is
                // not the arrival order across requests; check per request by
                // replaying the fill.
                let mut model: Vec<Vec<u8>> = before.clone();
                let caps: Vec<usize> = vecs.iter().map(Vec::capacity).collect();
                let limits: Vec<Option<usize>> = case.mbufs[..count].iter().zip(&before).zip(&caps).map(|((m, b), c)| m.limit.map(|l| l.value(c - b.len()))).collect();
                let mut limits = limits;
                let mut stream_pos = 0usize;
                for s in &driver.seen {
                    let mut left = s.n;
                    for k in 0..model.len() {
                        if left == 0 {
                            break;
                        }
                        let spare = caps[k] - model[k].len();
                        let room = limits[k].map_or(spare, |l| l.min(spare));
                        let take = left.min(room);
                        for j in 0..take {
                            model[k].push(source_byte(stream_pos + j));
                        }
                        if let Some(l) = &mut limits[k] {
                            *l -= take;
                        }
                        stream_pos += take;
                        left -= take;
                    }
                }
                if vecs != model {
                    report(ctx, "content", "the returned buffers do not hold their original contents followed by the bytes the kernel delivered, in arrival order".to_string());
                }
                let got_addrs: Vec<usize> = vecs.iter().map(|v| v.as_ptr().addr()).collect();
                if got_addrs != addrs {
                    report(ctx, "not-original-buffers", "the returned buffers are not the caller's buffers".into());
                }
            }
            Ok(Err(e)) => {
                if e.kind() == io::ErrorKind::UnexpectedEof {
                    if !eof_before_n {
                        report(ctx, "spurious-eof", format!("failed with UnexpectedEof although the stream did not end before {n} bytes (requests: {:?})", driver.seen.iter().map(|s| (s.size, s.n)).collect::<Vec<_>>()));
                    }
                    classes.push("eof");
                } else {
                    report(ctx, "unexpected-error", format!("failed with {e} although the kernel reported no error"));
                }
            }
        }
        let mut so_far = 0u64;
        for (k, s) in driver.seen.iter().enumerate() {
            let want_op = match case.op {
                Op::ReadN => abi::OP_READ,
                Op::ReadNVectored => abi::OP_READV,
                Op::RecvN => abi::OP_RECV,
                Op::RecvNVectored => abi::OP_RECVMSG,
                _ => unreachable!(),
            };
            if s.sqe.opcode != want_op {
                report(ctx, "continuation-opcode", format!("request {k} uses opcode {} instead of {}", abi::opcode_name(s.sqe.opcode), abi::opcode_name(want_op)));
            }
            if !case.op.net() {
                let want_off = if positional { start + so_far } else { u64::MAX };
                if s.sqe.off != want_off {
                    report(ctx, "continuation-offset", format!("request {k} has offset {:#x}, expected {want_off:#x}", s.sqe.off));
                }
            } else {
                let want_flags = if use_flags { raw_flags } else { 0 };
                if s.sqe.op_flags != want_flags {
                    report(ctx, "continuation-flags", format!("request {k} carries msg_flags {:#x}, the caller chose {want_flags:#x}", s.sqe.op_flags));
                }
            }
            so_far += s.n as u64;
        }
        if driver.seen.len() >= 3 {
            classes.push(">=2-continuations");
        }
        if positional {
            classes.push("positional");
        }
    }
    drop(world);
    classes.sort();
    classes.dedup();
    for c in &classes {
        ctx.class(c);
    }
    ctx.class(&format!("{:?}", case.op));
    ctx.nontrivial = classes.iter().any(|c| matches!(*c, ">=2-continuations" | "split-on-boundary" | "empty-buffer-with-split"));
    ctx.fingerprint = format!("{:?}|{}|{}|{:x}", case.op, if case.array { "array" } else { "tuple" }, classes.join("|"), crate::common::fnv(&format!("{case:?}")) & 0xffff);
}


// ---------------------------------------------------------------------------
// Phantom buffers: lengths in the 32-bit range (and totals beyond it).
//
// The buffers designate reserved address space (PROT_NONE, never touched by
// anyone: a10 only passes pointers and lengths on, the simulated kernel only
// does address arithmetic). The oracle is the same stream oracle as above with
// bytes replaced by (address, length) spans.

/// One slot of address space per buffer; slots are not adjacent to each other
/// (a guard gap in between), so spans of different buffers never merge.
const PH_SLOT: usize = 9 << 30;

fn phantom_base() -> usize {
    static BASE: std::sync::OnceLock<usize> = std::sync::OnceLock::new();
    *BASE.get_or_init(|| {
        let _s = track::scope(track::TAG_HARNESS);
        let size = PH_SLOT * 8;
        let p = unsafe { libc::mmap(std::ptr::null_mut(), size, libc::PROT_NONE, libc::MAP_PRIVATE | libc::MAP_ANONYMOUS | libc::MAP_NORESERVE, -1, 0) };
        assert!(p != libc::MAP_FAILED, "reserving address space for phantom buffers failed");
        track::add_immortal(p.addr(), p.addr() + size);
        p.addr()
    })
}

fn phantom_slot(k: usize) -> usize {
    phantom_base() + k * PH_SLOT + 4096
}

/// Source buffer over untouched address space.
pub struct Phantom {
    addr: usize,
    len: u32,
}

unsafe impl a10::io::Buf for Phantom {
    unsafe fn parts(&self) -> (*const u8, u32) {
        (self.addr as *const u8, self.len)
    }
}

/// Destination buffer over untouched address space; capacity may exceed 32
/// bits (like a `Vec<u8>` with that much spare capacity).
pub struct PhantomMut {
    base: usize,
    cap: u64,
    len: u64,
}

unsafe impl a10::io::BufMut for PhantomMut {
    unsafe fn parts_mut(&mut self) -> (*mut u8, u32) {
        ((self.base + self.len as usize) as *mut u8, (self.cap - self.len).min(u32::MAX as u64) as u32)
    }
    unsafe fn set_init(&mut self, n: usize) {
        self.len += n as u64;
    }
    fn spare_capacity(&self) -> u32 {
        (self.cap - self.len).min(u32::MAX as u64) as u32
    }
    fn has_spare_capacity(&self) -> bool {
        self.cap > self.len
    }
}

fn phantom_spec() -> impl Strategy<Value = PhantomSpec> {
    (
        prop_oneof![
            2 => Just(PhSize::Zero),
            3 => any::<u16>().prop_map(PhSize::Small),
            3 => (-3i16..=3).prop_map(PhSize::NearRwMax),
            2 => (-3i16..=3).prop_map(PhSize::Near2G),
            4 => (0u16..4).prop_map(PhSize::Near4G),
            4 => any::<u32>().prop_map(PhSize::Any),
            2 => any::<u8>().prop_map(PhSize::Beyond4G),
        ],
        prop_oneof![3 => Just(0u16), 1 => Just(u16::MAX), 3 => any::<u16>()],
    )
        .prop_map(|(size, fill)| PhantomSpec { size, fill })
}

fn run_phantom(case: &Case, specs: &[PhantomSpec], world: &mut World, afd: &'static a10::AsyncFd, driver: &mut Driver, ctx: &mut Ctx) {
    let report = |ctx: &mut Ctx, kind: &str, msg: String| {
        ctx.violation(&format!("C10:{kind}:{:?}", case.op), msg);
    };
    let mut classes: Vec<&'static str> = vec!["phantom"];
    let count = if case.op.vectored() { specs.len().clamp(1, 8) } else { 1 };
    let zc = case.zc && matches!(case.op, Op::SendAll | Op::SendAllVectored);
    let fmt_reqs = |seen: &[Seen]| format!("{:?}", seen.iter().map(|s| (s.size, s.n)).collect::<Vec<_>>());
    // Positional start: far enough below u64::MAX for the total.
    let start_for = |total: u64| match case.offset {
        Offset::Current => u64::MAX,
        Offset::At(o) => o,
        Offset::NearMax(d) => u64::MAX - total - 1 - d as u64,
    };

    if case.op.is_write() {
        let mut bufs: Vec<Phantom> = Vec::new();
        let mut expected: Vec<(usize, usize)> = Vec::new();
        let mut originals: Vec<(usize, u32)> = Vec::new();
        for (k, spec) in specs[..count].iter().enumerate() {
            let len = spec.size.bytes(false).min(u32::MAX as u64) as u32;
            let addr = phantom_slot(k);
            bufs.push(Phantom { addr, len });
            push_span(&mut expected, addr, len as usize);
            originals.push((addr, len));
        }
        let total: u64 = originals.iter().map(|o| o.1 as u64).sum();
        if total == 0 {
            ctx.skipped_steps += 1;
            ctx.fingerprint = "skipped-empty".into();
            return;
        }
        if total > u32::MAX as u64 {
            classes.push("total>4GiB");
        }
        let start = start_for(total);
        let positional = !case.op.net() && start != u64::MAX;
        let (sflags, raw_flags) = send_flags(case.flags);
        let use_flags = case.op.net() && case.flags != 0;
        let ident = |p: Phantom| (p.addr, p.len);
        // Done: Some(buffers) for extract, None otherwise.
        let result: Result<io::Result<Option<Vec<(usize, u32)>>>, String> = match case.op {
            Op::WriteAll => {
                let buf = bufs.pop().unwrap();
                let mut f = { let _s = track::scope(track::TAG_A10); afd.write_all(buf) };
                if positional {
                    f = f.at(start);
                }
                if case.extract { drive(world, driver, f.extract()).map(|r| r.map(|b| Some(vec![ident(b)]))) } else { drive(world, driver, f).map(|r| r.map(|()| None)) }
            }
            Op::SendAll => {
                let buf = bufs.pop().unwrap();
                let mut f = { let _s = track::scope(track::TAG_A10); afd.send_all(buf) };
                if use_flags {
                    f = f.flags(sflags);
                }
                if zc {
                    f = f.zc();
                }
                if case.extract { drive(world, driver, f.extract()).map(|r| r.map(|b| Some(vec![ident(b)]))) } else { drive(world, driver, f).map(|r| r.map(|()| None)) }
            }
            Op::WriteAllVectored | Op::SendAllVectored => {
                macro_rules! go {
                    ($t:ident) => {{
                        if case.op == Op::WriteAllVectored {
                            let mut f = { let _s = track::scope(track::TAG_A10); afd.write_all_vectored($t) };
                            if positional {
                                f = f.at(start);
                            }
                            if case.extract { drive(world, driver, f.extract()).map(|r| r.map(|b| Some(b.into_iter().map(ident).collect()))) } else { drive(world, driver, f).map(|r| r.map(|()| None)) }
                        } else {
                            let mut f = { let _s = track::scope(track::TAG_A10); afd.send_all_vectored($t) };
                            if use_flags {
                                f = f.flags(sflags);
                            }
                            if zc {
                                f = f.zc();
                            }
                            if case.extract { drive(world, driver, f.extract()).map(|r| r.map(|b| Some(b.into_iter().map(ident).collect()))) } else { drive(world, driver, f).map(|r| r.map(|()| None)) }
                        }
                    }};
                }
                with_array!(bufs, count, |t| go!(t))
            }
            _ => unreachable!(),
        };
        for (k, m) in driver.errors.drain(..) {
            report(ctx, &k, m);
        }
        let zero_at = driver.seen.iter().position(|s| s.n == 0);
        let accepted: u64 = driver.spans.iter().map(|s| s.1 as u64).sum();
        let (result, fault_reports) = fault_filter(&driver, result);
        for (k, m) in fault_reports {
            report(ctx, k, m);
        }
        if driver.failed.is_some() {
            classes.push("kernel-error");
        }
        if driver.interrupts > 0 {
            classes.push("interrupted");
        }
        match result {
            Err(e) if e == FAULT_JUDGED => {}
            Err(e) => {
                let (k, m) = e.split_once(':').unwrap_or(("stuck", &e));
                report(ctx, k, format!("{m} (buffers {originals:?}, requests {})", fmt_reqs(&driver.seen)));
            }
            Ok(Ok(done)) => {
                if driver.spans != expected {
                    let kind = if accepted < total { "ok-before-all-written" } else { "stream-mismatch" };
                    report(ctx, kind, format!("returned Ok after the kernel accepted {accepted} bytes in {} requests, the inputs total {total} bytes; memory accepted {:x?}, inputs {:x?}; requests (size, transferred): {}", driver.seen.len(), driver.spans, expected, fmt_reqs(&driver.seen)));
                }
                if zero_at.is_some() {
                    report(ctx, "ok-after-zero", "returned Ok although the kernel accepted 0 bytes for a request".into());
                }
                if let Some(got) = done {
                    if got != originals {
                        report(ctx, "extract-not-original", format!("extract returned {got:x?}, the caller's buffers are {originals:x?}"));
                    }
                }
            }
            Ok(Err(e)) => {
                if e.kind() == io::ErrorKind::WriteZero {
                    if zero_at.is_none() {
                        report(ctx, "spurious-write-zero", "failed with WriteZero although the kernel never accepted 0 bytes".into());
                    }
                    classes.push("write-zero");
                } else {
                    report(ctx, "unexpected-error", format!("failed with {e} although the kernel reported no error"));
                }
            }
        }
        let mut so_far = 0u64;
        for (k, s) in driver.seen.iter().enumerate() {
            let want_op = match (case.op, zc) {
                (Op::WriteAll, _) => abi::OP_WRITE,
                (Op::WriteAllVectored, _) => abi::OP_WRITEV,
                (Op::SendAll, false) => abi::OP_SEND,
                (Op::SendAll, true) => abi::OP_SEND_ZC,
                (Op::SendAllVectored, false) => abi::OP_SENDMSG,
                (Op::SendAllVectored, true) => abi::OP_SENDMSG_ZC,
                _ => unreachable!(),
            };
            if s.sqe.opcode != want_op {
                report(ctx, "continuation-opcode", format!("request {k} uses opcode {} instead of {}", abi::opcode_name(s.sqe.opcode), abi::opcode_name(want_op)));
            }
            if !case.op.net() {
                let want_off = if positional { start + so_far } else { u64::MAX };
                if s.sqe.off != want_off {
                    report(ctx, "continuation-offset", format!("request {k} has offset {:#x}, expected {want_off:#x} (start {start:#x} + {so_far} bytes written so far)", s.sqe.off));
                }
            } else {
                let want_flags = if use_flags { raw_flags } else { 0 };
                if s.sqe.op_flags != want_flags {
                    report(ctx, "continuation-flags", format!("request {k} carries msg_flags {:#x}, the caller chose {want_flags:#x}", s.sqe.op_flags));
                }
            }
            so_far += s.n as u64;
        }
        if so_far > u32::MAX as u64 {
            classes.push("crossed-4GiB");
        }
    } else {
        let mut bufs: Vec<PhantomMut> = Vec::new();
        // (base, cap, initial len)
        let mut model: Vec<(usize, u64, u64)> = Vec::new();
        for (k, spec) in specs[..count].iter().enumerate() {
            let cap = spec.size.bytes(true);
            let len = ((spec.fill as u64) * (cap + 1)) >> 16;
            let base = phantom_slot(k);
            bufs.push(PhantomMut { base, cap, len });
            model.push((base, cap, len));
        }
        let capacity: u64 = model.iter().map(|m| m.1 - m.2).sum();
        if capacity == 0 {
            ctx.skipped_steps += 1;
            ctx.fingerprint = "skipped-no-capacity".into();
            return;
        }
        // Target 1..=capacity.
        let n = (1 + (((case.n as u128) * (capacity as u128)) >> 16).min(capacity as u128 - 1)) as u64;
        if n > u32::MAX as u64 {
            classes.push("n>4GiB");
        }
        let start = start_for(capacity);
        let positional = !case.op.net() && start != u64::MAX;
        let (rflags, raw_flags) = recv_flags(case.flags);
        let use_flags = case.op.net() && case.flags != 0;
        let ident = |p: PhantomMut| (p.base, p.cap, p.len);
        let result: Result<io::Result<Vec<(usize, u64, u64)>>, String> = match case.op {
            Op::ReadN => {
                let buf = bufs.pop().unwrap();
                let mut f = { let _s = track::scope(track::TAG_A10); afd.read_n(buf, n as usize) };
                if positional {
                    f = f.from(start);
                }
                drive(world, driver, f).map(|r| r.map(|b| vec![ident(b)]))
            }
            Op::RecvN => {
                let buf = bufs.pop().unwrap();
                let mut f = { let _s = track::scope(track::TAG_A10); afd.recv_n(buf, n as usize) };
                if use_flags {
                    f = f.flags(rflags);
                }
                drive(world, driver, f).map(|r| r.map(|b| vec![ident(b)]))
            }
            Op::ReadNVectored | Op::RecvNVectored => {
                macro_rules! go {
                    ($t:ident) => {{
                        if case.op == Op::ReadNVectored {
                            let mut f = { let _s = track::scope(track::TAG_A10); afd.read_n_vectored($t, n as usize) };
                            if positional {
                                f = f.from(start);
                            }
                            drive(world, driver, f).map(|r| r.map(|b| b.into_iter().map(ident).collect()))
                        } else {
                            let mut f = { let _s = track::scope(track::TAG_A10); afd.recv_n_vectored($t, n as usize) };
                            if use_flags {
                                f = f.flags(rflags);
                            }
                            drive(world, driver, f).map(|r| r.map(|b| b.into_iter().map(ident).collect()))
                        }
                    }};
                }
                with_array!(bufs, count, |t| go!(t))
            }
            _ => unreachable!(),
        };
        for (k, m) in driver.errors.drain(..) {
            report(ctx, &k, m);
        }
        let mut got = 0u64;
        let mut eof_before_n = false;
        for s in &driver.seen {
            if s.n == 0 && got < n {
                eof_before_n = true;
                break;
            }
            got += s.n as u64;
            if got >= n {
                break;
            }
        }
        let delivered: u64 = driver.spans.iter().map(|s| s.1 as u64).sum();
        // Sequential fill of the buffers with everything that was delivered.
        let mut want_spans: Vec<(usize, usize)> = Vec::new();
        let mut want_model = model.clone();
        let mut left = delivered;
        for m in want_model.iter_mut() {
            let take = left.min(m.1 - m.2);
            push_span(&mut want_spans, m.0 + m.2 as usize, take as usize);
            m.2 += take;
            left -= take;
        }
        let (result, fault_reports) = fault_filter(&driver, result);
        for (k, m) in fault_reports {
            report(ctx, k, m);
        }
        if driver.failed.is_some() {
            classes.push("kernel-error");
        }
        if driver.interrupts > 0 {
            classes.push("interrupted");
        }
        match result {
            Err(e) if e == FAULT_JUDGED => {}
            Err(e) => {
                let (k, m) = e.split_once(':').unwrap_or(("stuck", &e));
                report(ctx, k, format!("{m} (buffers (base, capacity, filled) {model:x?}, n {n}, requests {})", fmt_reqs(&driver.seen)));
            }
            Ok(Ok(bufs)) => {
                if delivered < n {
                    report(ctx, "ok-before-n", format!("returned Ok with {delivered} bytes read, {n} were requested (requests: {})", fmt_reqs(&driver.seen)));
                }
                if eof_before_n {
                    report(ctx, "ok-after-eof", format!("returned Ok although the stream ended (0 bytes) before {n} bytes were read"));
                }
                if left > 0 || driver.spans != want_spans {
                    report(ctx, "content", format!("the kernel was told to put the {delivered} bytes it delivered at {:x?}; filling the caller's buffers (base, capacity, filled) {model:x?} in order means {want_spans:x?}; requests (size, transferred): {}", driver.spans, fmt_reqs(&driver.seen)));
                } else if bufs != want_model {
                    report(ctx, "content", format!("the returned buffers (base, capacity, filled) are {bufs:x?}, expected {want_model:x?}"));
                }
            }
            Ok(Err(e)) => {
                if e.kind() == io::ErrorKind::UnexpectedEof {
                    if !eof_before_n {
                        report(ctx, "spurious-eof", format!("failed with UnexpectedEof although the stream did not end before {n} bytes (requests: {})", fmt_reqs(&driver.seen)));
                    }
                    classes.push("eof");
                } else {
                    report(ctx, "unexpected-error", format!("failed with {e} although the kernel reported no error"));
                }
            }
        }
        let mut so_far = 0u64;
        for (k, s) in driver.seen.iter().enumerate() {
            let want_op = match case.op {
                Op::ReadN => abi::OP_READ,
                Op::ReadNVectored => abi::OP_READV,
                Op::RecvN => abi::OP_RECV,
                Op::RecvNVectored => abi::OP_RECVMSG,
                _ => unreachable!(),
            };
            if s.sqe.opcode != want_op {
                report(ctx, "continuation-opcode", format!("request {k} uses opcode {} instead of {}", abi::opcode_name(s.sqe.opcode), abi::opcode_name(want_op)));
            }
            if !case.op.net() {
                let want_off = if positional { start + so_far } else { u64::MAX };
                if s.sqe.off != want_off {
                    report(ctx, "continuation-offset", format!("request {k} has offset {:#x}, expected {want_off:#x}", s.sqe.off));
                }
            } else {
                let want_flags = if use_flags { raw_flags } else { 0 };
                if s.sqe.op_flags != want_flags {
                    report(ctx, "continuation-flags", format!("request {k} carries msg_flags {:#x}, the caller chose {want_flags:#x}", s.sqe.op_flags));
                }
            }
            so_far += s.n as u64;
        }
        if so_far > u32::MAX as u64 {
            classes.push("crossed-4GiB");
        }
    }
    if driver.seen.len() >= 3 {
        classes.push(">=2-continuations");
    }
    classes.sort();
    classes.dedup();
    for c in &classes {
        ctx.class(c);
    }
    ctx.class(&format!("{:?}", case.op));
    ctx.nontrivial = classes.iter().any(|c| matches!(*c, ">=2-continuations" | "crossed-4GiB"));
    ctx.fingerprint = format!("{:?}|phantom|{}|{:x}", case.op, classes.join("|"), crate::common::fnv(&format!("{case:?}")) & 0xffff);
}

// ---------------------------------------------------------------------------
// read_n / recv_n into a pool's ReadBuf.

fn run_pool(case: &Case, spec: &PoolSpec, world: &mut World, afd: &'static a10::AsyncFd, driver: &mut Driver, ctx: &mut Ctx) {
    use a10::io::{ReadBuf, ReadBufPool};
    let report = |ctx: &mut Ctx, kind: &str, msg: String| {
        ctx.violation(&format!("C10:{kind}:{:?}", case.op), msg);
    };
    let mut classes: Vec<&'static str> = vec!["pool-buffer"];
    let pool_size: u16 = 1 << spec.pool_log2.min(3);
    let cap = spec.buf_size.max(1) as usize;
    let pool = {
        let _s = track::scope(track::TAG_A10);
        ReadBufPool::new(world.sq(), pool_size, cap as u32)
    };
    let pool = match pool {
        Ok(p) => p,
        Err(e) => {
            ctx.infra(format!("ReadBufPool::new failed: {e}"));
            return;
        }
    };
    let fmt_reqs = |seen: &[Seen]| format!("{:?}", seen.iter().map(|s| (s.size, s.n)).collect::<Vec<_>>());
    // The buffer: fresh, or holding data from an earlier read.
    let mut shadow: Vec<u8> = Vec::new();
    let mut slot: Option<usize> = None;
    let mut buf: ReadBuf = pool.get();
    if let Some((fill, keep)) = spec.prefill {
        driver.transfers = vec![Transfer::Frac(fill)];
        let r = drive(world, driver, { let _s = track::scope(track::TAG_A10); afd.read(buf) });
        match r {
            Ok(Ok(b)) => buf = b,
            Ok(Err(e)) => {
                ctx.infra(format!("pool read for the pre-fill failed: {e}"));
                return;
            }
            Err(e) => {
                report(ctx, "panic", e);
                return;
            }
        }
        let Some(&(addr, _, n)) = driver.selected.first() else {
            ctx.infra("pre-fill read did not select a buffer");
            return;
        };
        let keep_n = ((keep as usize) * (n + 1)) >> 16;
        buf.truncate(keep_n);
        shadow = (0..keep_n).map(source_byte).collect();
        slot = Some(addr);
        classes.push("partly-filled");
        driver.transfers = case.transfers.clone();
        driver.next = 0;
        driver.seen.clear();
        driver.selected.clear();
        driver.direct.clear();
    }
    let delivered_before = driver.delivered;
    let capacity = cap - shadow.len();
    if capacity == 0 {
        ctx.skipped_steps += 1;
        ctx.fingerprint = "skipped-no-capacity".into();
        drop_pool(buf, pool);
        return;
    }
    let n = 1 + (((case.n as usize) * capacity) >> 16).min(capacity - 1);
    let start = match case.offset {
        Offset::Current => u64::MAX,
        Offset::At(o) => o,
        Offset::NearMax(d) => u64::MAX - capacity as u64 - 1 - d as u64,
    };
    let positional = !case.op.net() && start != u64::MAX;
    let (rflags, raw_flags) = recv_flags(case.flags);
    let use_flags = case.op.net() && case.flags != 0;
    let result: Result<io::Result<ReadBuf>, String> = if case.op == Op::ReadN {
        let mut f = { let _s = track::scope(track::TAG_A10); afd.read_n(buf, n) };
        if positional {
            f = f.from(start);
        }
        drive(world, driver, f)
    } else {
        let mut f = { let _s = track::scope(track::TAG_A10); afd.recv_n(buf, n) };
        if use_flags {
            f = f.flags(rflags);
        }
        drive(world, driver, f)
    };
    for (k, m) in driver.errors.drain(..) {
        report(ctx, &k, m);
    }
    // Where every request put its bytes.
    let mut model_len = shadow.len();
    let mut sel = driver.selected.iter();
    let mut dir = driver.direct.iter();
    for (k, s) in driver.seen.iter().enumerate() {
        if s.sqe.flags & abi::IOSQE_BUFFER_SELECT != 0 {
            let Some(&(addr, size, got)) = sel.next() else { continue };
            if slot.is_some() {
                report(ctx, "pool-second-buffer", format!("request {k} asks the kernel to select a buffer although the ReadBuf already owns one (holding {model_len} bytes)"));
                break;
            }
            if size != cap {
                report(ctx, "pool-entry", format!("request {k}: the selected ring entry has length {size}, the pool's buffers are {cap} bytes"));
            }
            slot = Some(addr);
            model_len += got;
        } else {
            let Some(&(addr, size)) = dir.next() else { continue };
            match slot {
                None => {
                    report(ctx, "pool-no-select", format!("request {k} reads into {addr:#x}+{size} although the ReadBuf owns no buffer yet"));
                    break;
                }
                Some(sl) => {
                    if addr != sl + model_len || size != cap - model_len {
                        report(ctx, "pool-continuation", format!("request {k} reads into {addr:#x}+{size}; the ReadBuf's slot is {sl:#x}+{cap} and holds {model_len} bytes, so the spare part is {:#x}+{}", sl + model_len, cap - model_len));
                        break;
                    }
                }
            }
            model_len += s.n;
        }
    }
    let delivered = driver.delivered - delivered_before;
    let mut got = 0usize;
    let mut eof_before_n = false;
    for s in &driver.seen {
        if s.n == 0 && got < n {
            eof_before_n = true;
            break;
        }
        got += s.n;
        if got >= n {
            break;
        }
    }
    let mut returned: Option<ReadBuf> = None;
    let (result, fault_reports) = fault_filter(&driver, result);
    for (k, m) in fault_reports {
        report(ctx, k, m);
    }
    if driver.failed.is_some() {
        classes.push("kernel-error");
    }
    if driver.interrupts > 0 {
        classes.push("interrupted");
    }
    match result {
        Err(e) if e == FAULT_JUDGED => {}
        Err(e) => {
            let (k, m) = e.split_once(':').unwrap_or(("stuck", &e));
            report(ctx, k, m.to_string());
        }
        Ok(Ok(b)) => {
            if delivered < n {
                report(ctx, "ok-before-n", format!("returned Ok with {delivered} bytes read, {n} were requested (requests: {})", fmt_reqs(&driver.seen)));
            }
            if eof_before_n {
                report(ctx, "ok-after-eof", format!("returned Ok although the stream ended (0 bytes) before {n} bytes were read"));
            }
            let mut want = shadow.clone();
            want.extend((0..delivered).map(|j| source_byte(delivered_before + j)));
            if b.as_slice() != &want[..] {
                report(ctx, "content", format!("the returned ReadBuf holds {} bytes that are not its earlier contents ({} bytes) followed by the {delivered} bytes the kernel delivered, in arrival order (requests: {})", b.len(), shadow.len(), fmt_reqs(&driver.seen)));
            }
            if let Some(sl) = slot {
                if !b.is_empty() && b.as_slice().as_ptr().addr() != sl {
                    report(ctx, "not-original-buffers", "the returned ReadBuf is not the pool buffer the kernel filled".into());
                }
            }
            returned = Some(b);
        }
        Ok(Err(e)) => {
            if e.kind() == io::ErrorKind::UnexpectedEof {
                if !eof_before_n {
                    report(ctx, "spurious-eof", format!("failed with UnexpectedEof although the stream did not end before {n} bytes (requests: {})", fmt_reqs(&driver.seen)));
                }
                classes.push("eof");
            } else {
                report(ctx, "unexpected-error", format!("failed with {e} although the kernel reported no error"));
            }
        }
    }
    let mut so_far = 0u64;
    for (k, s) in driver.seen.iter().enumerate() {
        let want_op = if case.op == Op::ReadN { abi::OP_READ } else { abi::OP_RECV };
        if s.sqe.opcode != want_op {
            report(ctx, "continuation-opcode", format!("request {k} uses opcode {} instead of {}", abi::opcode_name(s.sqe.opcode), abi::opcode_name(want_op)));
        }
        if !case.op.net() {
            let want_off = if positional { start + so_far } else { u64::MAX };
            if s.sqe.off != want_off {
                report(ctx, "continuation-offset", format!("request {k} has offset {:#x}, expected {want_off:#x}", s.sqe.off));
            }
        } else {
            let want_flags = if use_flags { raw_flags } else { 0 };
            if s.sqe.op_flags != want_flags {
                report(ctx, "continuation-flags", format!("request {k} carries msg_flags {:#x}, the caller chose {want_flags:#x}", s.sqe.op_flags));
            }
        }
        so_far += s.n as u64;
    }
    if driver.seen.len() >= 3 {
        classes.push(">=2-continuations");
    }
    {
        let _s = track::scope(track::TAG_A10);
        drop(returned);
        drop(pool);
    }
    classes.sort();
    classes.dedup();
    for c in &classes {
        ctx.class(c);
    }
    ctx.class(&format!("{:?}", case.op));
    ctx.nontrivial = classes.iter().any(|c| matches!(*c, ">=2-continuations" | "partly-filled"));
    ctx.fingerprint = format!("{:?}|pool|{}|{:x}", case.op, classes.join("|"), crate::common::fnv(&format!("{case:?}")) & 0xffff);
}

fn drop_pool(buf: a10::io::ReadBuf, pool: a10::io::ReadBufPool) {
    let _s = track::scope(track::TAG_A10);
    drop(buf);
    drop(pool);
}
