//! C14 — buffer trait implementations obey the pointer/length/initialisation
//! laws. Pure property-based test (no ring).

use std::borrow::Cow;
use std::sync::Arc;

use a10::io::{Buf, BufMut, BufMutSlice, BufSlice, LimitedBuf, StaticBuf};
use proptest::prelude::*;
use serde::{Deserialize, Serialize};

use crate::common::{Ctx, Tier};
use crate::runner::Property;

static ASCII: [u8; 8192] = {
    let mut p = [0u8; 8192];
    let mut i = 0;
    while i < 8192 {
        p[i] = b' ' + ((i * 7 + 3) % 90) as u8;
        i += 1;
    }
    p
};

#[derive(Copy, Clone, Debug, Serialize, Deserialize, PartialEq, Eq)]
pub enum Kind {
    Vec,
    BoxSlice,
    String,
    BoxStr,
    StaticSlice,
    StaticStr,
    CowBorrowedBytes,
    CowOwnedBytes,
    CowBorrowedStr,
    CowOwnedStr,
    ArcSlice,
    ArcStr,
    StaticBuf,
}

const KINDS: [Kind; 13] = [
    Kind::Vec,
    Kind::BoxSlice,
    Kind::String,
    Kind::BoxStr,
    Kind::StaticSlice,
    Kind::StaticStr,
    Kind::CowBorrowedBytes,
    Kind::CowOwnedBytes,
    Kind::CowBorrowedStr,
    Kind::CowOwnedStr,
    Kind::ArcSlice,
    Kind::ArcStr,
    Kind::StaticBuf,
];

/// A limit drawn from a boundary-heavy distribution over the whole usize range.
#[derive(Copy, Clone, Debug, Serialize, Deserialize, PartialEq, Eq)]
pub enum Limit {
    /// Relative to the (total) length: len + delta.
    Near(i8),
    /// 2^32 + delta.
    Near4G(i16),
    Max,
    Abs(u64),
}

impl Limit {
    pub fn value(self, len: usize) -> usize {
        match self {
            Limit::Near(d) => (len as i64 + d as i64).max(0) as usize,
            Limit::Near4G(d) => ((1i64 << 32) + d as i64) as usize,
            Limit::Max => usize::MAX,
            Limit::Abs(v) => v as usize,
        }
    }
    fn huge(self) -> bool {
        matches!(self, Limit::Near4G(_) | Limit::Max) || matches!(self, Limit::Abs(v) if v >= 1 << 32)
    }
}

#[derive(Clone, Debug, Serialize, Deserialize)]
pub struct BufSpec {
    pub kind: Kind,
    pub len: u16,
    pub limit: Option<Limit>,
}

#[derive(Clone, Debug, Serialize, Deserialize)]
pub struct MutSpec {
    pub cap: u16,
    pub len: u16,
    pub limit: Option<Limit>,
    /// Capacity 2^32 + cap (address space only): lengths beyond what the
    /// 32-bit length fields can say.
    #[serde(default)]
    pub huge: bool,
}

#[derive(Clone, Debug, Serialize, Deserialize)]
pub enum Case {
    /// One `Buf`.
    Single(BufSpec),
    /// One `BufMut`: mark `n` (scaled into the exposed spare) bytes initialised, then
    /// extend by `extend` bytes.
    SingleMut { spec: MutSpec, n: u16, extend: u16 },
    /// Vectored `BufSlice` (array when `array`, else tuple), optional outer limit.
    Slice { array: bool, bufs: Vec<BufSpec>, limit: Option<Limit> },
    /// Vectored `BufMutSlice`.
    MutSlice { array: bool, bufs: Vec<MutSpec>, limit: Option<Limit>, n: u16, extend: u16 },
    /// `ReadBuf` (a pool buffer the simulated kernel filled) as `Buf` and
    /// `BufMut`, bare and under a limit, at generated fill levels.
    ReadBuf(super::c14_readbuf::RbCase),
}

/// Wrapper delegating to a10's implementation for each provided buffer type,
/// so tuples of mixed element types can be built from generated specs.
pub enum AnyBuf {
    Vec(Vec<u8>),
    BoxSlice(Box<[u8]>),
    String(String),
    BoxStr(Box<str>),
    StaticSlice(&'static [u8]),
    StaticStr(&'static str),
    CowBytes(Cow<'static, [u8]>),
    CowStr(Cow<'static, str>),
    ArcSlice(Arc<[u8]>),
    ArcStr(Arc<str>),
    StaticBuf(StaticBuf),
    Limited(LimitedBuf<Box<AnyBuf>>),
}

macro_rules! delegate {
    ($self:expr, $b:ident => $e:expr) => {
        match $self {
            AnyBuf::Vec($b) => $e,
            AnyBuf::BoxSlice($b) => $e,
            AnyBuf::String($b) => $e,
            AnyBuf::BoxStr($b) => $e,
            AnyBuf::StaticSlice($b) => $e,
            AnyBuf::StaticStr($b) => $e,
            AnyBuf::CowBytes($b) => $e,
            AnyBuf::CowStr($b) => $e,
            AnyBuf::ArcSlice($b) => $e,
            AnyBuf::ArcStr($b) => $e,
            AnyBuf::StaticBuf($b) => $e,
            AnyBuf::Limited($b) => $e,
        }
    };
}

unsafe impl Buf for Box<AnyBuf> {
    unsafe fn parts(&self) -> (*const u8, u32) {
        unsafe { (**self).parts() }
    }
    fn len(&self) -> usize {
        (**self).len()
    }
    fn is_empty(&self) -> bool {
        (**self).is_empty()
    }
    fn as_slice(&self) -> &[u8] {
        (**self).as_slice()
    }
}

unsafe impl Buf for AnyBuf {
    unsafe fn parts(&self) -> (*const u8, u32) {
        delegate!(self, b => unsafe { b.parts() })
    }
    fn len(&self) -> usize {
        delegate!(self, b => Buf::len(b))
    }
    fn is_empty(&self) -> bool {
        delegate!(self, b => Buf::is_empty(b))
    }
    fn as_slice(&self) -> &[u8] {
        delegate!(self, b => Buf::as_slice(b))
    }
}

/// What the harness knows about a buffer it built.
struct Truth {
    /// Bytes the buffer holds (before any limit).
    bytes: Vec<u8>,
    /// Allocation the bytes live in: [base, base + size).
    base: usize,
    size: usize,
    /// Effective limit (None = unlimited).
    limit: Option<usize>,
}

fn build(spec: &BufSpec, salt: usize) -> (AnyBuf, Truth) {
    let len = (spec.len as usize).min(4000);
    let off = (salt * 97) % 4000;
    let src: &'static [u8] = &ASCII[off..off + len];
    let s: &'static str = std::str::from_utf8(src).unwrap();
    let inner = match spec.kind {
        Kind::Vec => AnyBuf::Vec(src.to_vec()),
        Kind::BoxSlice => AnyBuf::BoxSlice(src.to_vec().into_boxed_slice()),
        Kind::String => AnyBuf::String(s.to_string()),
        Kind::BoxStr => AnyBuf::BoxStr(s.to_string().into_boxed_str()),
        Kind::StaticSlice => AnyBuf::StaticSlice(src),
        Kind::StaticStr => AnyBuf::StaticStr(s),
        Kind::CowBorrowedBytes => AnyBuf::CowBytes(Cow::Borrowed(src)),
        Kind::CowOwnedBytes => AnyBuf::CowBytes(Cow::Owned(src.to_vec())),
        Kind::CowBorrowedStr => AnyBuf::CowStr(Cow::Borrowed(s)),
        Kind::CowOwnedStr => AnyBuf::CowStr(Cow::Owned(s.to_string())),
        Kind::ArcSlice => AnyBuf::ArcSlice(Arc::from(src)),
        Kind::ArcStr => AnyBuf::ArcStr(Arc::from(s)),
        Kind::StaticBuf => AnyBuf::StaticBuf(StaticBuf::from(src)),
    };
    let base = Buf::as_slice(&inner).as_ptr().addr();
    let mut truth = Truth { bytes: src.to_vec(), base, size: len, limit: None };
    match spec.limit {
        None => (inner, truth),
        Some(l) => {
            let limit = l.value(len);
            truth.limit = Some(limit);
            (AnyBuf::Limited(Buf::limit(Box::new(inner), limit)), truth)
        }
    }
}

fn check_buf<B: Buf>(buf: &B, truth: &Truth, what: &str) -> Result<(), String> {
    let visible = truth.limit.map_or(truth.bytes.len(), |l| l.min(truth.bytes.len()));
    let (ptr, len) = unsafe { buf.parts() };
    let len = len as usize;
    if len != visible {
        return Err(format!("limit:{what}: parts() exposes {len} bytes, expected {visible} (buffer holds {}, limit {:?})", truth.bytes.len(), truth.limit));
    }
    if len > 0 && (ptr.addr() < truth.base || ptr.addr() + len > truth.base + truth.size) {
        return Err(format!("bounds:{what}: parts() = ({:#x}, {len}) lies outside the buffer's memory [{:#x}, {:#x})", ptr.addr(), truth.base, truth.base + truth.size));
    }
    if buf.len() != len {
        return Err(format!("len-agree:{what}: len() = {} but parts() exposes {len} bytes (limit {:?})", buf.len(), truth.limit));
    }
    if buf.is_empty() != (len == 0) {
        return Err(format!("len-agree:{what}: is_empty() = {} but parts() exposes {len} bytes", buf.is_empty()));
    }
    let slice = buf.as_slice();
    if slice != &truth.bytes[..visible] {
        return Err(format!("content:{what}: as_slice() differs from the first {visible} bytes the buffer holds"));
    }
    if len > 0 {
        let seen = unsafe { std::slice::from_raw_parts(ptr, len) };
        if seen != &truth.bytes[..visible] {
            return Err(format!("content:{what}: bytes at parts() differ from the buffer's contents"));
        }
    }
    Ok(())
}

pub enum AnyMut {
    Vec(Vec<u8>),
    Limited(LimitedBuf<Vec<u8>>),
}

unsafe impl BufMut for AnyMut {
    unsafe fn parts_mut(&mut self) -> (*mut u8, u32) {
        match self {
            AnyMut::Vec(b) => unsafe { b.parts_mut() },
            AnyMut::Limited(b) => unsafe { b.parts_mut() },
        }
    }
    unsafe fn set_init(&mut self, n: usize) {
        match self {
            AnyMut::Vec(b) => unsafe { b.set_init(n) },
            AnyMut::Limited(b) => unsafe { b.set_init(n) },
        }
    }
    fn spare_capacity(&self) -> u32 {
        match self {
            AnyMut::Vec(b) => b.spare_capacity(),
            AnyMut::Limited(b) => b.spare_capacity(),
        }
    }
    fn has_spare_capacity(&self) -> bool {
        match self {
            AnyMut::Vec(b) => b.has_spare_capacity(),
            AnyMut::Limited(b) => b.has_spare_capacity(),
        }
    }
}

impl AnyMut {
    pub fn into_vec(self) -> Vec<u8> {
        match self {
            AnyMut::Vec(v) => v,
            AnyMut::Limited(l) => l.into_inner(),
        }
    }
}

pub trait IntoVecs {
    fn into_vecs(self) -> Vec<Vec<u8>>;
}

impl<const N: usize> IntoVecs for [AnyMut; N] {
    fn into_vecs(self) -> Vec<Vec<u8>> {
        self.into_iter().map(AnyMut::into_vec).collect()
    }
}

macro_rules! into_vecs_tuple {
    ($($t:ident . $i:tt),+) => {
        impl IntoVecs for ($($t),+) {
            fn into_vecs(self) -> Vec<Vec<u8>> {
                vec![$(self.$i.into_vec()),+]
            }
        }
    };
}
/// Turn an array/tuple of `AnyBuf` back into a vector of them.
pub trait IntoAnyBufs {
    fn into_any(self) -> Vec<AnyBuf>;
}

impl<const N: usize> IntoAnyBufs for [AnyBuf; N] {
    fn into_any(self) -> Vec<AnyBuf> {
        self.into_iter().collect()
    }
}

macro_rules! into_any_tuple {
    ($($t:ident . $i:tt),+) => {
        impl IntoAnyBufs for ($($t),+) {
            fn into_any(self) -> Vec<AnyBuf> {
                vec![$(self.$i),+]
            }
        }
    };
}
type A = AnyBuf;
into_any_tuple!(A.0, A.1);
into_any_tuple!(A.0, A.1, A.2);
into_any_tuple!(A.0, A.1, A.2, A.3);
into_any_tuple!(A.0, A.1, A.2, A.3, A.4);
into_any_tuple!(A.0, A.1, A.2, A.3, A.4, A.5);
into_any_tuple!(A.0, A.1, A.2, A.3, A.4, A.5, A.6);
into_any_tuple!(A.0, A.1, A.2, A.3, A.4, A.5, A.6, A.7);

/// (heap address, full contents) of a buffer, looking through LimitedBuf.
pub fn owned_identity(b: AnyBuf) -> (usize, Vec<u8>) {
    match b {
        AnyBuf::Limited(l) => owned_identity(*l.into_inner()),
        other => {
            let s = Buf::as_slice(&other);
            (s.as_ptr().addr(), s.to_vec())
        }
    }
}

/// For C10: build a source buffer, returns it with its full (unlimited) contents and address.
pub fn build_for_c10(spec: &BufSpec, salt: usize) -> (AnyBuf, Vec<u8>, usize) {
    let (buf, truth) = build(spec, salt);
    (buf, truth.bytes, truth.base)
}

/// For C10: build a destination buffer: (buffer, contents, base address, exposed spare capacity).
pub fn build_mut_for_c10(spec: &MutSpec, salt: usize) -> (AnyMut, (Vec<u8>, usize, usize)) {
    let (buf, truth) = build_mut(spec, salt);
    let exposed = truth.exposed();
    (buf, (truth.content, truth.base, exposed))
}

type M = AnyMut;
into_vecs_tuple!(M.0, M.1);
into_vecs_tuple!(M.0, M.1, M.2);
into_vecs_tuple!(M.0, M.1, M.2, M.3);
into_vecs_tuple!(M.0, M.1, M.2, M.3, M.4);
into_vecs_tuple!(M.0, M.1, M.2, M.3, M.4, M.5);
into_vecs_tuple!(M.0, M.1, M.2, M.3, M.4, M.5, M.6);
into_vecs_tuple!(M.0, M.1, M.2, M.3, M.4, M.5, M.6, M.7);

struct MutTruth {
    content: Vec<u8>,
    base: usize,
    cap: usize,
    limit: Option<usize>,
    /// More spare capacity than a u32 can hold: how much of it a view exposes
    /// is the implementation's choice (<= the truth), but every view and every
    /// reported number must agree on it.
    huge: bool,
}

impl MutTruth {
    fn spare(&self) -> usize {
        self.cap - self.content.len()
    }
    fn exposed(&self) -> usize {
        self.limit.map_or(self.spare(), |l| l.min(self.spare()))
    }
}

fn build_mut(spec: &MutSpec, salt: usize) -> (AnyMut, MutTruth) {
    let cap = (spec.cap as usize).min(4000);
    let len = (spec.len as usize).min(cap);
    let mut v = Vec::with_capacity(if spec.huge { (1usize << 32) + cap } else { cap });
    v.extend((0..len).map(|j| (j * 13 + salt) as u8));
    let truth_cap = v.capacity();
    let base = v.as_ptr().addr();
    let content = v.clone();
    match spec.limit {
        None => (AnyMut::Vec(v), MutTruth { content, base, cap: truth_cap, limit: None, huge: spec.huge }),
        Some(l) => {
            let limit = l.value(truth_cap - len);
            (AnyMut::Limited(BufMut::limit(v, limit)), MutTruth { content, base, cap: truth_cap, limit: Some(limit), huge: spec.huge })
        }
    }
}

fn check_mut_view<B: BufMut>(buf: &mut B, truth: &MutTruth, what: &str) -> Result<(*mut u8, usize), String> {
    let exposed = truth.exposed();
    let (ptr, len) = unsafe { buf.parts_mut() };
    let len = len as usize;
    let acceptable = if truth.huge && exposed > u32::MAX as usize { len <= exposed } else { len == exposed };
    if !acceptable {
        return Err(format!("limit:{what}: parts_mut() exposes {len} bytes, expected {exposed} (spare {}, limit {:?})", truth.spare(), truth.limit));
    }
    if len > 0 {
        let start = truth.base + truth.content.len();
        if ptr.addr() != start {
            return Err(format!("bounds:{what}: parts_mut() pointer {:#x} is not the start of the spare capacity {start:#x}", ptr.addr()));
        }
        if ptr.addr() + len > truth.base + truth.cap {
            return Err(format!("bounds:{what}: parts_mut() = ({:#x}, {len}) runs past the allocation end {:#x}", ptr.addr(), truth.base + truth.cap));
        }
    }
    if buf.spare_capacity() as usize != len {
        return Err(format!("len-agree:{what}: spare_capacity() = {} but parts_mut() exposes {len} (limit {:?})", buf.spare_capacity(), truth.limit));
    }
    if buf.has_spare_capacity() != (len > 0) {
        return Err(format!("len-agree:{what}: has_spare_capacity() = {} but parts_mut() exposes {len} (limit {:?})", buf.has_spare_capacity(), truth.limit));
    }
    Ok((ptr, len))
}

fn scale(frac: u16, max: usize) -> usize {
    ((frac as usize) * (max + 1)) >> 16
}

fn run_single_mut(spec: &MutSpec, n: u16, extend: u16) -> Result<Vec<&'static str>, String> {
    let (mut buf, mut truth) = build_mut(spec, 5);
    let mut classes = vec![];
    let (ptr, len) = check_mut_view(&mut buf, &truth, "bufmut")?;
    // Mark n bytes initialised (written through the exposed pointer first).
    let n = scale(n, len.min(9000));
    for j in 0..n {
        unsafe { ptr.add(j).write(0xA0 ^ j as u8) };
    }
    unsafe { buf.set_init(n) };
    truth.content.extend((0..n).map(|j| 0xA0 ^ j as u8));
    if let Some(l) = &mut truth.limit {
        *l = l.saturating_sub(n);
    }
    if n == len && len > 0 {
        classes.push("filled-exactly");
    }
    check_mut_view(&mut buf, &truth, "bufmut-after-set-init")?;
    // extend_from_slice returns min(len, spare).
    let data: Vec<u8> = (0..extend as usize % 600).map(|j| 0x30 + (j % 40) as u8).collect();
    let exposed = truth.exposed();
    let copied = buf.extend_from_slice(&data);
    if copied != data.len().min(exposed) {
        return Err(format!("extend:bufmut: extend_from_slice({}) returned {copied}, expected min(len, spare) = {}", data.len(), data.len().min(exposed)));
    }
    truth.content.extend_from_slice(&data[..copied]);
    if let Some(l) = &mut truth.limit {
        *l = l.saturating_sub(copied);
    }
    check_mut_view(&mut buf, &truth, "bufmut-after-extend")?;
    let v = buf.into_vec();
    if v != truth.content {
        return Err("set-init:bufmut: contents after set_init/extend_from_slice differ from the model (bytes lost, duplicated or earlier bytes touched)".into());
    }
    Ok(classes)
}

// Vectored: arrays and tuples of 1..=8.

macro_rules! with_tuple {
    ($v:expr, $n:expr, |$t:ident| $body:expr) => {{
        let mut it = $v.into_iter();
        macro_rules! nx {
            () => {
                it.next().unwrap()
            };
        }
        match $n {
            2 => {
                let $t = (nx!(), nx!());
                $body
            }
            3 => {
                let $t = (nx!(), nx!(), nx!());
                $body
            }
            4 => {
                let $t = (nx!(), nx!(), nx!(), nx!());
                $body
            }
            5 => {
                let $t = (nx!(), nx!(), nx!(), nx!(), nx!());
                $body
            }
            6 => {
                let $t = (nx!(), nx!(), nx!(), nx!(), nx!(), nx!());
                $body
            }
            7 => {
                let $t = (nx!(), nx!(), nx!(), nx!(), nx!(), nx!(), nx!());
                $body
            }
            8 => {
                let $t = (nx!(), nx!(), nx!(), nx!(), nx!(), nx!(), nx!(), nx!());
                $body
            }
            _ => unreachable!(),
        }
    }};
}

macro_rules! with_array {
    ($v:expr, $n:expr, |$t:ident| $body:expr) => {{
        macro_rules! arr {
            ($k:literal) => {{
                let $t: [_; $k] = match $v.try_into() {
                    Ok(a) => a,
                    Err(_) => unreachable!(),
                };
                $body
            }};
        }
        match $n {
            1 => arr!(1),
            2 => arr!(2),
            3 => arr!(3),
            4 => arr!(4),
            5 => arr!(5),
            6 => arr!(6),
            7 => arr!(7),
            8 => arr!(8),
            _ => unreachable!(),
        }
    }};
}

fn check_slice<B: BufSlice<N>, const N: usize>(bufs: &B, truths: &[Truth], limit: Option<usize>, what: &str) -> Result<(), String> {
    let iovecs = unsafe { bufs.as_iovecs() };
    let raw: &[libc::iovec] = unsafe { std::slice::from_raw_parts(iovecs.as_ptr().cast(), N) };
    let mut left = limit.unwrap_or(usize::MAX);
    let mut total = 0usize;
    for (k, (iov, truth)) in raw.iter().zip(truths).enumerate() {
        let own = truth.limit.map_or(truth.bytes.len(), |l| l.min(truth.bytes.len()));
        let want = own.min(left);
        left -= want;
        if iov.iov_len != want {
            return Err(format!("limit:{what}: iovec {k} has length {}, expected {want} (element exposes {own}, outer limit {limit:?})", iov.iov_len));
        }
        if want > 0 {
            let p = iov.iov_base.addr();
            if p < truth.base || p + want > truth.base + truth.size {
                return Err(format!("bounds:{what}: iovec {k} = ({p:#x}, {want}) lies outside its buffer [{:#x}, {:#x})", truth.base, truth.base + truth.size));
            }
            let seen = unsafe { std::slice::from_raw_parts(p as *const u8, want) };
            if seen != &truth.bytes[..want] {
                return Err(format!("content:{what}: iovec {k} does not point at the buffer's bytes"));
            }
        }
        total += want;
    }
    if bufs.total_len() != total {
        return Err(format!("len-agree:{what}: total_len() = {} but the iovecs total {total} (outer limit {limit:?})", bufs.total_len()));
    }
    if bufs.is_empty() != (total == 0) {
        return Err(format!("len-agree:{what}: is_empty() = {} but the iovecs total {total} (outer limit {limit:?})", bufs.is_empty()));
    }
    Ok(())
}

fn run_slice(array: bool, specs: &[BufSpec], limit: Option<Limit>) -> Result<Vec<&'static str>, String> {
    let n = specs.len();
    let mut bufs = Vec::new();
    let mut truths = Vec::new();
    for (k, s) in specs.iter().enumerate() {
        // Arrays need one element type: use the wrapper (it delegates).
        let (b, t) = build(s, k + 1);
        bufs.push(b);
        truths.push(t);
    }
    let total: usize = truths.iter().map(|t| t.limit.map_or(t.bytes.len(), |l| l.min(t.bytes.len()))).sum();
    let lim = limit.map(|l| l.value(total));
    let mut classes = vec![];
    if n >= 2 && truths[1..n - 1.min(n)].iter().any(|t| t.bytes.is_empty()) {
        classes.push("empty-in-middle");
    }
    if let Some(l) = lim {
        let mut acc = 0usize;
        for t in &truths {
            acc += t.bytes.len();
            if l.saturating_add(1) >= acc && l <= acc + 1 {
                classes.push("limit-at-boundary");
                break;
            }
        }
    }
    macro_rules! go {
        ($t:ident) => {
            match lim {
                None => check_slice(&$t, &truths, None, if array { "array" } else { "tuple" }),
                Some(l) => check_slice(&BufSlice::limit($t, l), &truths, Some(l), if array { "limited-array" } else { "limited-tuple" }),
            }
        };
    }
    if array || n == 1 {
        with_array!(bufs, n, |t| go!(t))?;
    } else {
        with_tuple!(bufs, n, |t| go!(t))?;
    }
    Ok(classes)
}

fn check_mut_slice<B: BufMutSlice<N>, const N: usize>(bufs: &mut B, truths: &[MutTruth], limit: Option<usize>, what: &str) -> Result<Vec<(usize, usize)>, String> {
    let iovecs = unsafe { bufs.as_iovecs_mut() };
    let raw: &[libc::iovec] = unsafe { std::slice::from_raw_parts(iovecs.as_ptr().cast(), N) };
    let mut left = limit.unwrap_or(usize::MAX);
    let mut total = 0usize;
    let mut out = Vec::new();
    for (k, (iov, truth)) in raw.iter().zip(truths).enumerate() {
        let mut want = truth.exposed().min(left);
        if truth.huge && want > u32::MAX as usize && iov.iov_len <= want {
            want = iov.iov_len;
        }
        left -= want;
        if iov.iov_len != want {
            return Err(format!("limit:{what}: iovec {k} has length {}, expected {want} (element spare {}, outer limit {limit:?})", iov.iov_len, truth.exposed()));
        }
        if want > 0 {
            let p = iov.iov_base.addr();
            let start = truth.base + truth.content.len();
            if p != start || p + want > truth.base + truth.cap {
                return Err(format!("bounds:{what}: iovec {k} = ({p:#x}, {want}) is not inside the spare capacity [{start:#x}, {:#x})", truth.base + truth.cap));
            }
        }
        out.push((iov.iov_base.addr(), want));
        total += want;
    }
    let reported = bufs.total_spare_capacity() as usize;
    // (A u32: the best a total beyond 2^32-1 can do is saturate.)
    if reported != total.min(u32::MAX as usize) {
        return Err(format!("len-agree:{what}: total_spare_capacity() = {reported} but the iovecs total {total} (outer limit {limit:?})"));
    }
    if bufs.has_spare_capacity() != (total > 0) {
        return Err(format!("len-agree:{what}: has_spare_capacity() = {} but the iovecs total {total} (outer limit {limit:?})", bufs.has_spare_capacity()));
    }
    Ok(out)
}

fn run_mut_slice(array: bool, specs: &[MutSpec], limit: Option<Limit>, n: u16, extend: u16) -> Result<Vec<&'static str>, String> {
    let count = specs.len();
    let mut bufs = Vec::new();
    let mut truths = Vec::new();
    for (k, s) in specs.iter().enumerate() {
        let (b, t) = build_mut(s, k + 1);
        bufs.push(b);
        truths.push(t);
    }
    let total: usize = truths.iter().map(MutTruth::exposed).sum();
    let mut lim = limit.map(|l| l.value(total));
    let mut classes = vec![];
    if count >= 3 && truths[1..count - 1].iter().any(|t| t.exposed() == 0) {
        classes.push("zero-spare-in-middle");
    }
    // The whole scenario is generic over the concrete slice type.
    fn scenario<B: BufMutSlice<N>, const N: usize>(bufs: &mut B, truths: &mut [MutTruth], lim: &mut Option<usize>, n: u16, extend: u16, what: &str) -> Result<(), String> {
        let views = check_mut_slice(bufs, truths, *lim, what)?;
        let total: usize = views.iter().map(|v| v.1).sum();
        let n = scale(n, total.min(9000));
        // Write n bytes through the exposed pointers, in order, then set_init(n).
        let mut left = n;
        let mut counter = 0usize;
        for (k, (p, len)) in views.iter().enumerate() {
            let take = left.min(*len);
            for j in 0..take {
                let byte = 0xC0 ^ (counter as u8);
                unsafe { ((*p + j) as *mut u8).write(byte) };
                truths[k].content.push(byte);
                counter += 1;
            }
            if let Some(l) = &mut truths[k].limit {
                *l = l.saturating_sub(take);
            }
            left -= take;
        }
        unsafe { bufs.set_init(n) };
        if let Some(l) = lim {
            *l = l.saturating_sub(n);
        }
        check_mut_slice(bufs, truths, *lim, what)?;
        // extend_from_slice spreads over the buffers in order.
        let data: Vec<u8> = (0..extend as usize % 900).map(|j| 0x41 + (j % 50) as u8).collect();
        let views = check_mut_slice(bufs, truths, *lim, what)?;
        let room: usize = views.iter().map(|v| v.1).sum();
        let copied = bufs.extend_from_slice(&data);
        if copied != data.len().min(room) {
            return Err(format!("extend:{what}: extend_from_slice({}) returned {copied}, expected {}", data.len(), data.len().min(room)));
        }
        let mut off = 0;
        for (k, (_, len)) in views.iter().enumerate() {
            let take = (copied - off).min(*len);
            truths[k].content.extend_from_slice(&data[off..off + take]);
            if let Some(l) = &mut truths[k].limit {
                *l = l.saturating_sub(take);
            }
            off += take;
        }
        if let Some(l) = lim {
            *l = l.saturating_sub(copied);
        }
        check_mut_slice(bufs, truths, *lim, what)?;
        Ok(())
    }
    macro_rules! go {
        ($t:ident, $into:expr) => {{
            let what = if array { "array" } else { "tuple" };
            let vecs: Vec<Vec<u8>> = match lim {
                None => {
                    let mut t = $t;
                    scenario(&mut t, &mut truths, &mut lim, n, extend, what)?;
                    $into(t)
                }
                Some(l) => {
                    let mut t = BufMutSlice::limit($t, l);
                    scenario(&mut t, &mut truths, &mut lim, n, extend, if array { "limited-array" } else { "limited-tuple" })?;
                    $into(t.into_inner())
                }
            };
            for (k, (v, t)) in vecs.iter().zip(&truths).enumerate() {
                if *v != t.content {
                    return Err(format!("set-init:{what}: buffer {k} holds {} bytes that differ from the model's {} bytes after set_init/extend_from_slice (bytes must be appended in order across the buffers)", v.len(), t.content.len()));
                }
            }
            Ok::<(), String>(())
        }};
    }
    if array || count == 1 {
        with_array!(bufs, count, |t| go!(t, IntoVecs::into_vecs))?;
    } else {
        with_tuple!(bufs, count, |t| go!(t, IntoVecs::into_vecs))?;
    }
    Ok(classes)
}

pub struct C14;

fn limit_strategy() -> impl Strategy<Value = Limit> {
    prop_oneof![
        6 => (-3i8..=3).prop_map(Limit::Near),
        3 => (-3i16..=300).prop_map(Limit::Near4G),
        1 => Just(Limit::Max),
        3 => any::<u64>().prop_map(Limit::Abs),
        2 => (0u64..5000).prop_map(Limit::Abs),
    ]
}

fn buf_spec() -> impl Strategy<Value = BufSpec> {
    (0usize..KINDS.len(), prop_oneof![2 => Just(0u16), 8 => 0u16..3000], proptest::option::weighted(0.35, limit_strategy())).prop_map(|(k, len, limit)| BufSpec { kind: KINDS[k], len, limit })
}

fn mut_spec() -> impl Strategy<Value = MutSpec> {
    (0u16..3000, any::<u16>(), proptest::option::weighted(0.35, limit_strategy()), proptest::bool::weighted(0.06)).prop_map(|(cap, l, limit, huge)| MutSpec { cap: if huge { cap % 40 } else { cap }, len: if cap == 0 { 0 } else { ((l as u32 * (cap as u32 + 1)) >> 16) as u16 % if huge { 20 } else { u16::MAX } }, limit, huge })
}

impl Property for C14 {
    const ID: &'static str = "C14";
    type Case = Case;

    fn strategy(_tier: Tier) -> BoxedStrategy<Case> {
        prop_oneof![
            2 => buf_spec().prop_map(Case::Single),
            2 => (mut_spec(), any::<u16>(), any::<u16>()).prop_map(|(spec, n, extend)| Case::SingleMut { spec, n, extend }),
            3 => (any::<bool>(), proptest::collection::vec(buf_spec(), 1..=8), proptest::option::weighted(0.5, limit_strategy())).prop_map(|(array, bufs, limit)| Case::Slice { array, bufs, limit }),
            3 => (any::<bool>(), proptest::collection::vec(mut_spec(), 1..=8), proptest::option::weighted(0.5, limit_strategy()), any::<u16>(), any::<u16>()).prop_map(|(array, bufs, limit, n, extend)| Case::MutSlice { array, bufs, limit, n, extend }),
            1 => super::c14_readbuf::strategy().prop_map(Case::ReadBuf),
        ]
        .boxed()
    }

    fn cases(tier: Tier) -> u32 {
        tier.pick(40_000, 3_000_000)
    }

    fn run(case: &Case, ctx: &mut Ctx) {
        let (res, shape, huge) = match case {
            Case::ReadBuf(rb) => (super::c14_readbuf::run(rb, ctx), "readbuf".to_string(), false),
            Case::Single(spec) => {
                let (buf, truth) = build(spec, 3);
                let what = if spec.limit.is_some() { "limited-buf" } else { "buf" };
                (check_buf(&buf, &truth, what).map(|()| vec![]), format!("single:{:?}", spec.kind), spec.limit.is_some_and(Limit::huge))
            }
            Case::SingleMut { spec, n, extend } => (run_single_mut(spec, *n, *extend), "single-mut".to_string(), spec.limit.is_some_and(Limit::huge)),
            Case::Slice { array, bufs, limit } => (
                run_slice(*array, bufs, *limit),
                format!("{}{}", if *array { "array" } else { "tuple" }, bufs.len()),
                limit.is_some_and(Limit::huge) || bufs.iter().any(|b| b.limit.is_some_and(Limit::huge)),
            ),
            Case::MutSlice { array, bufs, limit, n, extend } => (
                run_mut_slice(*array, bufs, *limit, *n, *extend),
                format!("mut-{}{}", if *array { "array" } else { "tuple" }, bufs.len()),
                limit.is_some_and(Limit::huge) || bufs.iter().any(|b| b.limit.is_some_and(Limit::huge)),
            ),
        };
        let mut classes = Vec::new();
        match res {
            Ok(c) => classes = c,
            Err(e) => {
                let (sig, msg) = e.split_once(": ").unwrap_or((&e, ""));
                ctx.violation(&format!("C14:{sig}"), msg.to_string());
            }
        }
        if huge {
            classes.push("limit>=2^32");
        }
        for c in &classes {
            ctx.class(c);
        }
        ctx.class(&shape);
        ctx.nontrivial = !classes.is_empty();
        ctx.fingerprint = format!("{shape}|{}", classes.join("|"));
        // Distinct cases, not only distinct classes: add the spec hash.
        ctx.fingerprint.push_str(&format!("|{:x}", crate::common::fnv(&format!("{case:?}")) & 0xffff));
    }

    fn rule() -> &'static str {
        "proptest over every provided Buf/BufMut/BufSlice/BufMutSlice implementation and wrapper (Vec, Box<[u8]>, String, Box<str>, &'static [u8]/str, Cow (both variants), Arc<[u8]>/<str>, StaticBuf, ReadBuf (one case in eleven: a pool buffer filled by the simulated kernel, then truncate / set_init through the exposed pointer / the trait's extend_from_slice / a LimitedBuf around it, checked after every step: Buf::parts is the slot start and the length, BufMut::parts_mut is slot start + length with exactly the spare bytes or the limit, spare_capacity/has_spare_capacity agree, appended bytes land in order, neighbouring slots keep their canaries; an unfilled ReadBuf exposes nothing), arrays [B; 1..8], tuples of arity 2..8 with mixed element types, LimitedBuf over all of them incl. nested) with generated contents, capacities, fill levels, n, and limits from a boundary-heavy distribution over the whole usize range (len+-3, 2^32+-k, usize::MAX, arbitrary). Oracle: every exposed (ptr,len) lies inside the owning allocation / spare part, len()/is_empty()/total_len()/spare_capacity()/total_spare_capacity()/has_spare_capacity() agree with the pairs, set_init(n)/extend_from_slice append exactly n bytes in order across buffers, the exposed total never exceeds the limit and set_init lowers the remaining limit by n. Non-trivial = arity>=2 with an empty/zero-spare element in the middle, or a limit within +-1 of a buffer boundary, or a limit >= 2^32, or a buffer filled exactly. Distinct = (shape, classes, 16-bit case hash)."
    }

    fn assumptions() -> Vec<&'static str> {
        vec!["buffers are built by the harness so their allocation bounds are known; SkipBuf/ReadNBuf (crate-private) are exercised through the composite futures in C10; ReadBuf's own editing API in C15"]
    }

    fn shards(tier: Tier) -> u32 {
        tier.pick(8, 16)
    }
}
