//! The history-interpreter based properties C01, C02, C03 (a), C06, C09.

use std::collections::BTreeSet;

use proptest::prelude::*;

use crate::common::{Ctx, Tier};
use crate::interp::{self, History, Oracles};
use crate::runner::Property;
use crate::strat;
use super::c03b::WakeCase;
use super::c10::C10;
use super::multi::{self, MultiCase};
use serde::{Deserialize, Serialize};

/// A sequential history for the interpreter, or a case of the
/// multi-completion driver (multishot accept, zero-copy sends).
#[derive(Clone, Debug, Serialize, Deserialize)]
#[serde(untagged)]
pub enum HCase {
    Seq(History),
    Multi(MultiCase),
    /// C06b scheduled program (C06 only).
    Drop(super::c06b::DropCase),
    /// A composite (multi-step) operation of the C10 driver under C06's leak
    /// and double-free audit: the operation state is reused from step to step.
    Composite(super::c10::Case),
}

pub(super) fn with_multi(seq: BoxedStrategy<History>, weight: u32) -> BoxedStrategy<HCase> {
    prop_oneof![
        4 => seq.prop_map(HCase::Seq),
        weight => multi::strategy().prop_map(HCase::Multi),
    ]
    .boxed()
}

pub(super) fn run_multi(case: &MultiCase, ctx: &mut Ctx, prop: &'static str, nontrivial: &[&str]) {
    let classes = multi::run(case, ctx, prop);
    ctx.class("multi-completion-driver");
    for c in &classes {
        ctx.class(c);
    }
    ctx.nontrivial = classes.iter().any(|c| nontrivial.contains(c));
    ctx.fingerprint = format!("multi|{}|{:x}", classes.join("|"), crate::common::fnv(&format!("{case:?}")) & 0xffff);
}

fn classes(ctx: &mut Ctx, feats: &BTreeSet<String>) {
    for f in feats {
        if true {
            ctx.class(f);
        }
    }
}

const SIM_ASSUMPTION: &str = "simulated kernel obeys DESIGN.md section 3 (K1-K12); tracking allocator and libc interposition are trusted; single-threaded histories (sequential consistency)";

pub struct C01;
impl Property for C01 {
    const ID: &'static str = "C01";
    type Case = HCase;
    fn strategy(_tier: Tier) -> BoxedStrategy<HCase> {
        with_multi((strat::ring_cfg(3), proptest::collection::vec(strat::step(strat::kind_memory().boxed(), 2, 5), 0..60)).prop_map(|(cfg, steps)| History { cfg, steps, teardown: None }).boxed(), 1)
    }
    fn cases(tier: Tier) -> u32 {
        tier.pick(20_000, 2_000_000)
    }
    fn run(case: &HCase, ctx: &mut Ctx) {
        let case = match case {
            HCase::Seq(h) => h,
            HCase::Multi(m) => return run_multi(m, ctx, "C01", &["dropped-between-two-completions", "dropped-after-some-results"]),
            HCase::Drop(_) | HCase::Composite(_) => return,
        };
        let feats = interp::execute(case, Oracles { c01: true, ..Oracles::default() }, ctx);
        ctx.nontrivial = feats.contains("dropped-while-running") && feats.iter().any(|f| f.starts_with("k:") && f != "k:truncate") || feats.contains("restart");
        classes(ctx, &feats);
        ctx.fingerprint = super::fingerprint(case, &feats);
    }
    fn rule() -> &'static str {
        "proptest histories of operations that hand memory to the kernel (all buffer kinds implemented in interp/ops.rs), with drops at every life-cycle point, cancel-race outcomes and EINTR/ECANCELED re-issues. At SQE consumption the simulator decodes every user region the request designates and holds it in the tracking allocator until the final CQE is posted; any dealloc/realloc overlapping a held region, any region not in a live heap block or static memory, any change of the enclosing block, and any change of source bytes is a violation. Non-trivial = an operation with memory was dropped while running, or was re-issued. Distinct = distinct (ring class, feature set) fingerprints. One case in five runs the multi-completion driver instead (props/multi.rs): 1..4 operations among multishot accept, zero-copy send / send_vectored and plain write on a 2..8 entry ring; steps poll an operation (same or new waker), let the kernel post its next completion (multishot: a result with or without IORING_CQE_F_MORE, or a final error; zero-copy: the result with F_MORE, later the notification, or the early-failure form), Ring::poll, drop a future with a scripted cancel outcome, drop the Ring (also with a zero-copy notification outstanding, after which only futures are dropped and the kernel posts what it owes). There the C01 oracle is: every buffer block and the operation-state block stay allocated, at the same address, until the kernel has posted the operation's *last* completion (simulator holds per request + explicit liveness checks after every step); non-trivial (multi) = a future dropped between the two completions of a zero-copy send or after some multishot results."
    }
    fn assumptions() -> Vec<&'static str> {
        vec![SIM_ASSUMPTION, "regions are decoded per opcode from the UAPI (sim/regions.rs); an opcode missing from that table contributes only its operation-state block"]
    }
}

pub struct C02;
impl Property for C02 {
    const ID: &'static str = "C02";
    type Case = HCase;
    fn strategy(_tier: Tier) -> BoxedStrategy<HCase> {
        with_multi((strat::ring_cfg(4), proptest::collection::vec(strat::step(strat::kind_valued().boxed(), 1, 1), 0..70)).prop_map(|(cfg, steps)| History { cfg, steps, teardown: None }).boxed(), 1)
    }
    fn cases(tier: Tier) -> u32 {
        tier.pick(20_000, 2_000_000)
    }
    fn run(case: &HCase, ctx: &mut Ctx) {
        let case = match case {
            HCase::Seq(h) => h,
            HCase::Multi(m) => return run_multi(m, ctx, "C02", &[">=3-results-queued", ">=3-results-in-one-poll", "zc-resolved"]),
            HCase::Drop(_) | HCase::Composite(_) => return,
        };
        let feats = interp::execute(case, Oracles { c02: true, ..Oracles::default() }, ctx);
        ctx.nontrivial = feats.contains("out-of-order") || feats.contains("multishot-split");
        classes(ctx, &feats);
        ctx.fingerprint = super::fingerprint(case, &feats);
    }
    fn rule() -> &'static str {
        "proptest histories with several concurrently in-flight operations whose scripted results are unique per operation (counts, payload patterns, errnos); completions are posted in generated orders and batches with consumer polls in between. Reference model: Ready(v) is legal only after Ring::poll consumed that operation's final CQE and v must equal the independently decoded result; Pending after that is a lost result. Non-trivial = an operation completed while an earlier-submitted one was still in flight (completion order != submission order), or a multishot batch split by polls. Distinct = distinct (ring class, feature set) fingerprints. One case in five runs the multi-completion driver instead (props/multi.rs): 1..4 operations among multishot accept, zero-copy send / send_vectored and plain write on a 2..8 entry ring; steps poll an operation (same or new waker), let the kernel post its next completion (multishot: a result with or without IORING_CQE_F_MORE, or a final error; zero-copy: the result with F_MORE, later the notification, or the early-failure form), Ring::poll, drop a future with a scripted cancel outcome, drop the Ring (also with a zero-copy notification outstanding, after which only futures are dropped and the kernel posts what it owes). There the C02 oracle is a per-operation FIFO of the completions Ring::poll has consumed: a multishot poll must yield exactly the front result (connection number or errno), Pending only when the FIFO is empty, the end exactly once and only after the final completion was consumed and everything was yielded; a zero-copy send resolves only after its notification was consumed, with the value of its first completion; non-trivial (multi) = >= 3 results of one operation queued or consumed in one Ring::poll, or a zero-copy send resolved."
    }
    fn assumptions() -> Vec<&'static str> {
        vec![SIM_ASSUMPTION]
    }
}

/// C03a sequential histories or C03b scheduled programs.
#[derive(Clone, Debug, Serialize, Deserialize)]
#[serde(untagged)]
pub enum C03Case {
    Seq(History),
    Sched(WakeCase),
    /// Multi-completion driver (multishot accept, zero-copy sends).
    Multi(MultiCase),
}

pub struct C03;
impl Property for C03 {
    const ID: &'static str = "C03";
    type Case = C03Case;
    fn strategy(_tier: Tier) -> BoxedStrategy<C03Case> {
        let sched = (0u8..=2, 0u8..=2, proptest::collection::vec((1u8..=2, any::<bool>()), 1..=3), 1u8..=3, proptest::collection::vec(any::<bool>(), 3), any::<bool>(), 0u8..=3, proptest::collection::vec(any::<u16>(), 0..100), strat::maybe_pct(3, 160), proptest::bool::weighted(0.4))
            .prop_map(|(sq_log2, gap, submitters, polls, complete_before_poll, shared_waker, executor_rounds, wake_tape, pct, inline_complete)| C03Case::Sched(WakeCase { sq_log2, gap, submitters, polls, complete_before_poll, shared_waker, executor_rounds, ring_waits: false, wake_tape, pct, inline_complete }));
        // One task with two operations completing in one batch while its
        // executor runs on another thread.
        let batch = (1u8..=2, any::<bool>(), 2u8..=3, proptest::collection::vec(any::<u16>(), 0..120), strat::maybe_pct(3, 200)).prop_map(|(sq_log2, repoll, polls, wake_tape, pct)| {
            C03Case::Sched(WakeCase { sq_log2, gap: 4, submitters: vec![(2, repoll)], polls, complete_before_poll: vec![false, true, true], shared_waker: true, executor_rounds: 6, ring_waits: true, wake_tape, pct, inline_complete: false })
        });
        let seq = (strat::ring_cfg(2), proptest::collection::vec(strat::step(strat::kind_basic().boxed(), 1, 1), 0..70)).prop_map(|(cfg, steps)| C03Case::Seq(History { cfg, steps, teardown: None }));
        let multi = multi::strategy().prop_map(C03Case::Multi);
        prop_oneof![6 => seq, 3 => sched, 1 => batch, 2 => multi].boxed()
    }
    fn cases(tier: Tier) -> u32 {
        tier.pick(20_000, 2_000_000)
    }
    fn run(case: &C03Case, ctx: &mut Ctx) {
        let case = match case {
            C03Case::Seq(h) => h,
            C03Case::Multi(m) => return run_multi(m, ctx, "C03", &["completion-while-pending"]),
            C03Case::Sched(w) => {
                let classes = super::c03b::run(w, ctx);
                ctx.class("scheduled");
                for c in &classes {
                    ctx.class(c);
                }
                ctx.nontrivial = classes.contains(&"switch-inside-a10") && classes.contains(&"over-subscribed");
                ctx.fingerprint = format!("sched|sq{}|gap{}|t{}|{}|{:x}", 1 << w.sq_log2.min(2), w.gap, w.submitters.len(), classes.join("|"), crate::common::fnv(&format!("{w:?}")) & 0xffff);
                return;
            }
        };
        let feats = interp::execute(case, Oracles { c03: true, ..Oracles::default() }, ctx);
        ctx.nontrivial = feats.contains("waker-replaced") && feats.contains("completion-while-pending") || feats.contains("blocked-woken");
        classes(ctx, &feats);
        ctx.fingerprint = super::fingerprint(case, &feats);
    }
    fn rule() -> &'static str {
        "C03a: proptest histories on 1..4-entry rings where every poll gets a counting waker (same or replaced); quiescence check after every Ring::poll: each operation whose final completion this call consumed and whose last poll returned Pending must have had the waker of that poll invoked; operations that returned Pending on a full queue must be woken (at least min(free slots, blocked)) by the Ring::poll after which slots are free. Non-trivial = a waker was replaced before a completion was consumed, or blocked operations were woken for queue space. Distinct = distinct (ring class, feature set) fingerprints. C03b (2 of 5 cases, props/c03b.rs): 1..3 submitter threads poll 1..2 operations each (optionally a second time with a replaced waker) into a 1..4 entry queue primed to 0..2 free slots, while the ring thread runs 1..3 Ring::poll calls (optionally after the kernel completed what it had consumed), all under the baton scheduler following a generated choice tape; afterwards an executor re-polls only operations whose latest waker was invoked, first with the kernel completing nothing (a future waiting for queue space must be woken by Ring::poll alone once there is room), then with the kernel completing everything; a stall with free slots is a lost queue-space wake-up, a stall after every completion was consumed is a lost completion wake-up. Non-trivial (scheduled) = a context switch inside a10 and more operations than slots. One case in six runs the multi-completion driver (multishot accept, zero-copy sends, writes; polls with the same or a replaced waker between completions): whenever Ring::poll consumes the completion that makes an operation ready (multishot: any result; zero-copy: the notification, not the first completion) and its last poll returned Pending, the waker of that poll must have been invoked."
    }
    fn assumptions() -> Vec<&'static str> {
        vec![SIM_ASSUMPTION, "liveness is checked in its safety form (no ready-but-unwoken operation when Ring::poll returns), single thread; cross-thread schedules are the C03b sub-check"]
    }
}

pub struct C06;
impl Property for C06 {
    const ID: &'static str = "C06";
    type Case = HCase;
    fn strategy(_tier: Tier) -> BoxedStrategy<HCase> {
        {
            let base = with_multi((strat::ring_cfg(3), proptest::collection::vec(strat::step(strat::kind_basic().boxed(), 1, 6), 0..70)).prop_map(|(cfg, steps)| History { cfg, steps, teardown: None }).boxed(), 1);
            let sched = (1u8..=3, proptest::collection::vec(1u8..=2, 1..=2), 1u8..=3, proptest::collection::vec(proptest::bool::weighted(0.8), 3), proptest::bool::weighted(0.25), proptest::collection::vec(any::<u16>(), 0..80), strat::maybe_pct(3, 120))
                .prop_map(|(sq_log2, droppers, polls, complete_before_poll, full_queue, drop_tape, pct)| HCase::Drop(super::c06b::DropCase { sq_log2, droppers, polls, complete_before_poll, full_queue, drop_tape, pct }));
            let composite = (C10::strategy(Tier::Quick), proptest::option::weighted(0.4, 0u8..6)).prop_map(|(mut c, abandon)| {
                c.abandon_after = abandon;
                HCase::Composite(c)
            });
            prop_oneof![8 => base, 2 => sched, 1 => composite].boxed()
        }
    }
    fn cases(tier: Tier) -> u32 {
        tier.pick(20_000, 2_000_000)
    }
    fn run(case: &HCase, ctx: &mut Ctx) {
        let case = match case {
            HCase::Seq(h) => h,
            HCase::Multi(m) => return run_multi(m, ctx, "C06", &["dropped-between-two-completions", "dropped-after-some-results", "completed-after-drop"]),
            HCase::Drop(d) => {
                let classes = super::c06b::run(d, ctx);
                ctx.class("scheduled");
                for c in &classes {
                    ctx.class(c);
                }
                ctx.nontrivial = classes.contains(&"switch-inside-a10");
                ctx.fingerprint = format!("sched-drop|{}|{:x}", classes.join("|"), crate::common::fnv(&format!("{d:?}")) & 0xffff);
                return;
            }
            HCase::Composite(c) => {
                super::c10::run_audited(c, ctx);
                return;
            }
        };
        let feats = interp::execute(case, Oracles { c06: true, ..Oracles::default() }, ctx);
        ctx.nontrivial = feats.contains("dropped-while-running") && (feats.contains("completed-after-drop") || feats.contains("drop-with-full-queue") || feats.contains("cancel:Already") || feats.contains("cancel:NotFound"));
        classes(ctx, &feats);
        ctx.fingerprint = super::fingerprint(case, &feats);
    }
    fn rule() -> &'static str {
        "proptest histories with drops at every life-cycle point (unpolled, blocked on a full queue, queued, in flight, final posted, final consumed) crossed with scripted cancel-race outcomes (cancel wins / EALREADY / ENOENT) and full vs non-full queues. Oracle: the SQEs published by a drop are diffed against the model (exactly one ASYNC_CANCEL with addr = that operation's user_data, user_data 2, CQE_SKIP_SUCCESS, iff running and room; else none); the operation-state block and resources must be live until, and dead after, the Ring::poll that consumes the final completion (tracking allocator), never freed twice, nothing live at the end. Non-trivial = dropped while running and (cancel lost, or refused for lack of room, or completed after the drop). Distinct = distinct (ring class, feature set) fingerprints. One case in five runs the multi-completion driver instead (props/multi.rs): 1..4 operations among multishot accept, zero-copy send / send_vectored and plain write on a 2..8 entry ring; steps poll an operation (same or new waker), let the kernel post its next completion (multishot: a result with or without IORING_CQE_F_MORE, or a final error; zero-copy: the result with F_MORE, later the notification, or the early-failure form), Ring::poll, drop a future with a scripted cancel outcome, drop the Ring (also with a zero-copy notification outstanding, after which only futures are dropped and the kernel posts what it owes). There the C06 oracle is the same SQE diff on drop (exactly one ASYNC_CANCEL for a running operation when there is room, none otherwise, none after the Ring is gone) and: state and resources of a dropped operation are live until, and dead after, the Ring::poll that consumes its final completion (not the first of two), never freed twice; non-trivial (multi) = dropped between two completions / after some results / completed after the drop. One case in eleven is a composite operation of the C10 driver (write_all / send_all / read_n / recv_n and their vectored forms under generated short transfers, whose operation state is reset and reused from step to step): after the future resolved and everything was dropped, no block allocated during the case may be live and nothing may have been freed twice."
    }
    fn assumptions() -> Vec<&'static str> {
        vec![SIM_ASSUMPTION]
    }
}

pub struct C09;
impl Property for C09 {
    const ID: &'static str = "C09";
    type Case = HCase;
    fn strategy(_tier: Tier) -> BoxedStrategy<HCase> {
        with_multi((strat::ring_cfg(3), proptest::collection::vec(strat::step(strat::kind_basic().boxed(), 3, 1), 0..70)).prop_map(|(cfg, steps)| History { cfg, steps, teardown: None }).boxed(), 1)
    }
    fn cases(tier: Tier) -> u32 {
        tier.pick(20_000, 2_000_000)
    }
    fn level() -> &'static str {
        "fault_enumeration"
    }
    fn run(case: &HCase, ctx: &mut Ctx) {
        let case = match case {
            HCase::Seq(h) => h,
            HCase::Multi(m) => return run_multi(m, ctx, "C09", &["restart"]),
            HCase::Drop(_) | HCase::Composite(_) => return,
        };
        let feats = interp::execute(case, Oracles { c09: true, ..Oracles::default() }, ctx);
        ctx.nontrivial = feats.contains("restart");
        classes(ctx, &feats);
        ctx.fingerprint = super::fingerprint(case, &feats);
    }
    fn rule() -> &'static str {
        "per operation the script holds a fault sequence {EINTR,ECANCELED}^k, k<=3, followed by a final outcome (success with generated magnitude, or an errno); interrupted attempts scribble the destination buffer. Oracle: k+1 consumed SQEs per future, byte-identical (all 64 bytes), the future never yields EINTR/ECANCELED, the final value is the last attempt's and contains no scribbled bytes. Non-trivial = at least one re-issue happened. Distinct = distinct (ring class, feature set) fingerprints. One case in five runs the multi-completion driver (multishot accept, zero-copy sends, writes) where the kernel ends a live operation with -EINTR / -ECANCELED as its final completion: every result posted before must still be yielded in order, then the next poll must re-issue the operation with a byte-identical submission (or wait for queue space), never hand the error or an end-of-stream to the caller; non-trivial (multi) = such a re-issue happened."
    }
    fn assumptions() -> Vec<&'static str> {
        vec![SIM_ASSUMPTION]
    }
}

const C12_RULE: &str = "proptest histories (operations in every state: unpolled, blocked on a full queue, queued, running, abandoned, finished; optionally a ReadBufPool with live ReadBufs and extra SubmissionQueue clones) that end in Teardown(pi): a generated permutation of dropping {Ring, each queue handle, the AsyncFd, each future, the pool, each ReadBuf}, some drops on a helper thread, then wake() on a surviving handle. Oracle: no panic; each region mapped on the ring descriptor is unmapped exactly once with the same (addr,len) and nothing else; the ring descriptor is closed exactly once, after the last unmap; the Ring's drop submits what is queued, issues SYNC_CANCEL, leaves nothing in flight and reclaims every abandoned operation's state; a buffer ring is never freed while registered; after all handles are gone no simulator-issued descriptor is open, nothing is registered, no heap block or waker clone is left. Non-trivial = the Ring was not the last object dropped and something was queued or in flight. Distinct = distinct (ring class, feature set) fingerprints. One case in eight runs the multi-completion driver (props/multi.rs: multishot accept, Ring::pollable, the signal iterator, zero-copy sends, writes) with the Ring dropped somewhere in the history, also between the two completions of a zero-copy send; afterwards futures are polled and dropped and the kernel posts what it still owes. There the oracle is C06's (state and resources of an abandoned operation live until, and dead after, the consumption of its final completion, never freed twice, nothing published after the Ring's drop) and C01's (nothing the kernel still holds is freed or moved).";

pub struct C12;
impl Property for C12 {
    const ID: &'static str = "C12";
    type Case = HCase;
    fn strategy(_tier: Tier) -> BoxedStrategy<HCase> {
        // One case in eight: the multi-completion driver with the Ring
        // dropped somewhere in the history (multishot and zero-copy
        // operations abandoned or in flight at that moment).
        let multi = multi::strategy().prop_map(|mut c| {
            if !c.multi_steps.iter().any(|s| matches!(s, multi::MStep::DropRing)) {
                let at = c.multi_steps.len() - c.multi_steps.len() / 4;
                c.multi_steps.insert(at, multi::MStep::DropRing);
            }
            HCase::Multi(c)
        });
        prop_oneof![7 => Self::histories().prop_map(HCase::Seq), 1 => multi].boxed()
    }
    fn cases(tier: Tier) -> u32 {
        tier.pick(20_000, 2_000_000)
    }
    fn run(case: &HCase, ctx: &mut Ctx) {
        let case = match case {
            HCase::Seq(h) => h,
            HCase::Multi(m) => return run_multi(m, ctx, "C12", &["running-after-ring-drop", "dropped-after-ring-while-kernel-holds", "polled-after-ring-drop-while-kernel-holds"]),
            HCase::Drop(_) | HCase::Composite(_) => return,
        };
        let feats = interp::execute(case, Oracles { c12: true, ..Oracles::default() }, ctx);
        ctx.nontrivial = feats.contains("ring-not-last") && feats.contains("ring-dropped-with-work");
        classes(ctx, &feats);
        ctx.fingerprint = super::fingerprint(case, &feats);
    }
    fn rule() -> &'static str {
        C12_RULE
    }
    fn assumptions() -> Vec<&'static str> {
        vec![SIM_ASSUMPTION, "six cases in seven: at most ~48 operations in flight when the Ring is dropped, with a completion queue of >= 16 entries; one in seven: 3..14 running operations and a completion queue of 1..4 entries (overflow at Ring drop, also by more than the queue size)"]
    }
}

impl C12 {
    fn histories() -> BoxedStrategy<History> {
        let general = (strat::ring_cfg_wide(), proptest::collection::vec(strat::step(strat::kind_basic().boxed(), 1, 3), 0..40), strat::teardown()).prop_map(|(mut cfg, steps, teardown)| {
            // In-flight operations at Ring drop fit the completion queue in
            // this class: at least 16 CQ entries.
            if cfg.cq_entries() < 16 {
                cfg.cq_log2 = Some(4);
            }
            History { cfg, steps, teardown: Some(teardown) }
        });
        // Overflow class: a completion queue of 1..4 entries and 3..14
        // operations running when the teardown starts, so that the
        // cancellations of the Ring's drop overflow the queue, by more than
        // its size in many cases (several flushes needed).
        let overflow = (0u8..=1, 0u8..=2, proptest::collection::vec((strat::kind_basic(), strat::outcome()), 3..=14), proptest::collection::vec(strat::step(strat::kind_basic().boxed(), 1, 3), 0..6), strat::teardown()).prop_map(|(sq_log2, cq_log2, ops, tail, teardown)| {
            let mut cfg = crate::interp::world::RingCfg::simple(sq_log2);
            cfg.cq_log2 = Some(cq_log2.max(sq_log2));
            let mut steps = Vec::new();
            for (kind, outcome) in ops {
                steps.push(interp::Step::Start { kind, faults: Vec::new(), outcome });
                // The newest operation is the last live one.
                steps.push(interp::Step::Poll { op: u16::MAX, fresh_waker: false });
                steps.push(interp::Step::RingPoll { inline: Vec::new(), block: false });
            }
            steps.extend(tail);
            History { cfg, steps, teardown: Some(teardown) }
        });
        prop_oneof![6 => general, 1 => overflow].boxed()
    }
}
