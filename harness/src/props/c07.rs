//! C07 — each descriptor owned by an AsyncFd is closed exactly once, the
//! right way; every descriptor the kernel returns ends up owned by exactly one
//! AsyncFd of the requested kind (or is closed if the operation was abandoned).

use std::collections::BTreeMap;
use std::future::Future;
use std::os::fd::{FromRawFd, OwnedFd};
use std::path::PathBuf;
use std::pin::Pin;
use std::task::{Context, Poll};
use std::time::Duration;

use a10::AsyncFd;
use a10::fd::Kind;
use a10::net::{Domain, NoAddress, Type};
use proptest::prelude::*;
use serde::{Deserialize, Serialize};

use crate::abi;
use crate::common::{Ctx, Tier, pick_index};
use crate::interp::waker::WakerHandle;
use crate::interp::world::{RingCfg, World};
use crate::runner::{Property, catch};
use crate::shims::{self, ShimEvent};
use crate::sim::{self, CloseVia, SimEvent};
use crate::track;

#[derive(Copy, Clone, Debug, Serialize, Deserialize, PartialEq, Eq)]
pub enum Create {
    Open,
    /// `OpenOptions::open_temp_file` (O_TMPFILE), kind set before the other
    /// builder calls.
    OpenTemp,
    /// `open_file` (regular descriptors only) / `OpenOptions` with the kind
    /// set first and other settings after it.
    OpenKindFirst,
    Socket,
    Pipe,
    /// Needs a regular listener descriptor.
    Accept,
    MultishotAccept,
    ToDirect,
    ToFile,
    /// `AsyncFd::new` over a fresh descriptor.
    New,
    TryClone,
    Stdio,
    /// `Signals::to_direct_descriptor`: a signalfd (a real one) whose regular
    /// descriptor is replaced by a direct one inside the `Signals` handle.
    SignalsToDirect,
}

#[derive(Clone, Debug, Serialize, Deserialize)]
pub enum FStep {
    Start { what: Create, direct: bool, on: u16 },
    Poll { op: u16 },
    DropOp { op: u16 },
    Complete {
        op: u16,
        more: bool,
        fail: bool,
        /// The kernel does not know the opcode (-EINVAL, as an older kernel
        /// answers IORING_OP_PIPE): a10 falls back to the system call.
        #[serde(default)]
        unsupported: bool,
    },
    RingPoll,
    DropFd {
        fd: u16,
        /// A synchronous close(2) made by this drop reports EINTR.
        #[serde(default)]
        eintr: bool,
    },
    /// `AsyncFd::close()`: the returned future is driven like any operation.
    CloseFd { fd: u16 },
}

#[derive(Clone, Debug, Serialize, Deserialize)]
pub struct Case {
    pub sq_log2: u8,
    pub direct_slots: u8,
    pub steps: Vec<FStep>,
}

#[derive(Copy, Clone, Debug, PartialEq, Eq, PartialOrd, Ord)]
enum Desc {
    Regular(i32),
    /// Direct descriptor: (slot, generation).
    Direct(u32, u32),
}

#[derive(Copy, Clone, Debug, PartialEq, Eq)]
enum ClosePath {
    /// IORING_OP_CLOSE with sqe.fd.
    SqeFd,
    /// IORING_OP_CLOSE with file_index.
    SqeIndex,
    /// io_uring_register(FILES_UPDATE, -1).
    FilesUpdate,
    /// close(2).
    Syscall,
}

#[derive(Debug)]
struct Entry {
    closes: Vec<ClosePath>,
    /// Index of the AsyncFd wrapping it, once delivered.
    wrapped: Option<usize>,
    /// The operation that produced it was dropped before delivery.
    abandoned: bool,
    /// The owning AsyncFd is gone (dropped or closed).
    released: bool,
}

type FdFut = Pin<Box<dyn Future<Output = std::io::Result<Vec<AsyncFd>>>>>;

enum Fut {
    Fds(FdFut),
    Multi(Pin<Box<a10::net::MultishotAccept<'static>>>),
    Close(Pin<Box<a10::io::Close>>, Desc),
}

struct FOp {
    what: Create,
    fut: Option<Fut>,
    user_data: u64,
    serial: Option<u64>,
    /// Descriptors the kernel returned, not yet delivered.
    posted: Vec<Result<Vec<Desc>, i32>>,
    finished_posting: bool,
    done: bool,
    want_direct: bool,
    /// AsyncFd it borrows.
    borrows: Option<usize>,
    /// The kernel refused the opcode; the result comes from the system call.
    fallback: bool,
    /// Where a `Signals` conversion leaves its result.
    sig_cell: Option<std::rc::Rc<std::cell::RefCell<Option<a10::process::Signals>>>>,
}

struct Slot {
    fd: Option<*mut AsyncFd>,
    desc: Desc,
    borrowed: u32,
    stdio: Option<Stdio>,
}

enum Stdio {
    /// Not a standard stream: a `Signals` handle owning a direct descriptor.
    Sig(a10::process::Signals),
    In(a10::io::Stdin),
    Out(a10::io::Stdout),
    Err(a10::io::Stderr),
}

struct Exec<'c> {
    world: World,
    ops: Vec<FOp>,
    fds: Vec<Slot>,
    ledger: BTreeMap<Desc, Entry>,
    gens: BTreeMap<u32, u32>,
    ctx: &'c mut Ctx,
    events_seen: usize,
    classes: Vec<&'static str>,
    stop: bool,
    shim_seen: usize,
    /// One Signals handle per history (its signalfd gets the lowest free
    /// descriptor number, which a second one would reuse).
    signals_made: bool,
}

fn describe(fd: &AsyncFd) -> (i64, bool) {
    // "AsyncFd { fd: 5, kind: Direct }"
    let s = format!("{fd:?}");
    let num = s.split("fd: ").nth(1).and_then(|r| r.split(',').next()).and_then(|n| n.trim().parse::<i64>().ok()).unwrap_or(-1);
    (num, matches!(fd.kind(), Kind::Direct))
}

impl<'c> Exec<'c> {
    fn fail(&mut self, kind: &str, msg: String) {
        if self.ctx.violation(&format!("C07:{kind}"), msg) {
            self.stop = true;
        }
    }

    fn current_direct(&self, slot: u32) -> Desc {
        Desc::Direct(slot, *self.gens.get(&slot).unwrap_or(&0))
    }

    fn note_close(&mut self, desc: Desc, path: ClosePath, what: &str) {
        match self.ledger.get_mut(&desc) {
            Some(e) => {
                e.closes.push(path);
                if e.closes.len() > 1 {
                    let c = e.closes.clone();
                    self.fail("closed-twice", format!("{what}: descriptor {desc:?} closed more than once: {c:?}"));
                }
            }
            None => {
                self.fail("foreign-close", format!("{what}: close of {desc:?} via {path:?}, a descriptor no AsyncFd of this history owns"));
            }
        }
        if let Desc::Direct(slot, g) = desc {
            // The slot can be handed out again.
            self.gens.insert(slot, g + 1);
        }
    }

    /// Process simulator and shim events: consumed SQEs, closes.
    fn sync(&mut self, what: &str) {
        let events = sim::events_since(self.events_seen);
        self.events_seen += events.len();
        for e in events {
            match e {
                SimEvent::Consumed { serial, sqe, .. } => {
                    if sqe.user_data >= 4 {
                        if let Some(op) = self.ops.iter_mut().find(|o| o.user_data == sqe.user_data && o.serial.is_none() && !o.finished_posting) {
                            op.serial = Some(serial);
                        }
                    }
                }
                SimEvent::Close { via, fd, direct } => {
                    if direct {
                        let desc = self.current_direct(fd as u32);
                        let path = if via == CloseVia::Sqe { ClosePath::SqeIndex } else { ClosePath::FilesUpdate };
                        self.note_close(desc, path, what);
                    } else {
                        // (Number 0 can be a descriptor the kernel handed out
                        // in this case: then it is an ordinary owned one.)
                        if (0..=2).contains(&fd) && !self.ledger.contains_key(&Desc::Regular(fd)) {
                            self.fail("stdio-closed", format!("{what}: IORING_OP_CLOSE submitted for standard stream descriptor {fd}"));
                            continue;
                        }
                        self.note_close(Desc::Regular(fd), ClosePath::SqeFd, what);
                    }
                }
                _ => {}
            }
        }
        let log = shims::log_snapshot();
        for e in &log[self.shim_seen.min(log.len())..] {
            if let ShimEvent::Close { fd, ret } = e {
                if (0..=2).contains(fd) && !self.ledger.contains_key(&Desc::Regular(*fd)) {
                    self.fail("stdio-closed", format!("{what}: close(2) called on standard stream descriptor {fd}"));
                    continue;
                }
                if *ret == 0 && self.ledger.contains_key(&Desc::Regular(*fd)) {
                    self.note_close(Desc::Regular(*fd), ClosePath::Syscall, what);
                } else if *ret != 0 && self.ledger.contains_key(&Desc::Regular(*fd)) {
                    self.fail("close-of-closed", format!("{what}: close(2) on descriptor {fd} failed: it was closed already (a second close hits whatever reused the number)"));
                }
            }
        }
        self.shim_seen = log.len();
        if let Some(u) = sim::take_unsupported() {
            self.ctx.infra(format!("unsupported simulator request: {u}"));
            self.stop = true;
        }
        sim::take_violations();
    }

    fn new_slot(&mut self, fd: AsyncFd, desc: Desc) -> usize {
        let ptr = Box::into_raw(Box::new(fd));
        self.fds.push(Slot { fd: Some(ptr), desc, borrowed: 0, stdio: None });
        self.fds.len() - 1
    }

    fn fd_ref(&self, i: usize) -> &'static AsyncFd {
        unsafe { &*self.fds[i].fd.unwrap() }
    }

    /// An AsyncFd was delivered by an operation: it must wrap a descriptor the
    /// kernel returned for that operation, with the requested kind.
    fn adopt(&mut self, fd: AsyncFd, expect: Desc, what: &str) {
        let (num, direct) = describe(&fd);
        let ok = match expect {
            Desc::Regular(n) => !direct && num == n as i64,
            Desc::Direct(slot, _) => direct && num == slot as i64,
        };
        if !ok {
            self.fail("wrong-wrap", format!("{what}: the kernel returned {expect:?} but the AsyncFd handed out is {fd:?}"));
        }
        let idx = self.new_slot(fd, expect);
        let twice = self.ledger.get(&expect).is_some_and(|e| e.wrapped.is_some());
        if twice {
            self.fail("wrapped-twice", format!("{what}: descriptor {expect:?} is owned by two AsyncFds"));
        }
        if let Some(e) = self.ledger.get_mut(&expect) {
            e.wrapped = Some(idx);
        }
    }

    fn live_fds(&self, pred: impl Fn(&Slot) -> bool) -> Vec<usize> {
        self.fds.iter().enumerate().filter(|(_, s)| s.fd.is_some() && pred(s)).map(|(i, _)| i).collect()
    }

    fn start(&mut self, what: Create, direct: bool, on: u16) {
        if self.ops.iter().filter(|o| !o.done).count() >= 10 || self.fds.len() >= 40 {
            self.ctx.skipped_steps += 1;
            return;
        }
        let sq = self.world.sq();
        let kind = if direct { Kind::Direct } else { Kind::File };
        let mut borrows = None;
        let mut want_direct = direct;
        let mut sig_cell = None;
        let fut: Fut = {
            let _s = track::scope(track::TAG_A10);
            match what {
                Create::Open => {
                    let f = a10::fs::OpenOptions::new().read().kind(kind).open(sq, PathBuf::from("/verif/sim/file"));
                    Fut::Fds(Box::pin(async move { f.await.map(|fd| vec![fd]) }))
                }
                Create::OpenTemp => {
                    let f = a10::fs::OpenOptions::new().kind(kind).write().open_temp_file(sq, PathBuf::from("/verif/sim"));
                    Fut::Fds(Box::pin(async move { f.await.map(|fd| vec![fd]) }))
                }
                Create::OpenKindFirst => {
                    let f = a10::fs::OpenOptions::new().kind(kind).read().write().append().create().open(sq, PathBuf::from("/verif/sim/file2"));
                    Fut::Fds(Box::pin(async move { f.await.map(|fd| vec![fd]) }))
                }
                Create::Socket => {
                    let f = a10::net::socket(sq, Domain::IPV4, Type::STREAM, None).kind(kind);
                    Fut::Fds(Box::pin(async move { f.await.map(|fd| vec![fd]) }))
                }
                Create::Pipe => {
                    let f = a10::pipe::pipe(sq).kind(kind);
                    Fut::Fds(Box::pin(async move { f.await.map(|fds| fds.into_iter().collect()) }))
                }
                Create::Accept | Create::MultishotAccept | Create::ToDirect | Create::ToFile | Create::TryClone => {
                    let need_direct = what == Create::ToFile;
                    let c = self.live_fds(|s| matches!(s.desc, Desc::Direct(..)) == need_direct && s.stdio.is_none());
                    let c: Vec<usize> = if what == Create::TryClone || what == Create::ToDirect { self.live_fds(|s| matches!(s.desc, Desc::Regular(_)) && s.stdio.is_none()) } else if what == Create::ToFile { c } else { self.live_fds(|s| s.stdio.is_none()) };
                    if c.is_empty() {
                        self.ctx.skipped_steps += 1;
                        return;
                    }
                    let i = c[pick_index(on, c.len())];
                    let afd = self.fd_ref(i);
                    match what {
                        Create::TryClone => {
                            // Synchronous: a real dup of the (real) simulator descriptor.
                            match afd.try_clone() {
                                Ok(fd) => {
                                    let (num, _) = describe(&fd);
                                    let desc = Desc::Regular(num as i32);
                                    self.ledger.insert(desc, Entry { closes: vec![], wrapped: None, abandoned: false, released: false });
                                    self.adopt(fd, desc, "try_clone");
                                    self.classes.push("try-clone");
                                }
                                Err(e) => self.ctx.infra(format!("try_clone failed: {e}")),
                            }
                            return;
                        }
                        Create::Accept => {
                            want_direct = matches!(self.fds[i].desc, Desc::Direct(..));
                            borrows = Some(i);
                            let f = afd.accept::<NoAddress>();
                            Fut::Fds(Box::pin(async move { f.await.map(|(fd, _)| vec![fd]) }))
                        }
                        Create::MultishotAccept => {
                            want_direct = matches!(self.fds[i].desc, Desc::Direct(..));
                            borrows = Some(i);
                            Fut::Multi(Box::pin(afd.multishot_accept()))
                        }
                        Create::ToDirect => {
                            want_direct = true;
                            borrows = Some(i);
                            let f = afd.to_direct_descriptor();
                            Fut::Fds(Box::pin(async move { f.await.map(|fd| vec![fd]) }))
                        }
                        Create::ToFile => {
                            want_direct = false;
                            borrows = Some(i);
                            let f = afd.to_file_descriptor();
                            Fut::Fds(Box::pin(async move { f.await.map(|fd| vec![fd]) }))
                        }
                        _ => unreachable!(),
                    }
                }
                Create::SignalsToDirect => {
                    if self.signals_made {
                        self.ctx.skipped_steps += 1;
                        return;
                    }
                    let signals = match a10::process::Signals::from_signals(sq, [a10::process::Signal::USER2]) {
                        Ok(s) => s,
                        Err(e) => {
                            self.ctx.infra(format!("Signals::from_signals failed: {e}"));
                            return;
                        }
                    };
                    self.signals_made = true;
                    // "Signals { fd: AsyncFd { fd: 7, kind: File }, .."
                    let text = format!("{signals:?}");
                    let raw = text.split("fd: AsyncFd { fd: ").nth(1).and_then(|r| r.split(',').next()).and_then(|n| n.trim().parse::<i32>().ok()).unwrap_or(-1);
                    // Owned by the conversion from now on: whatever happens to
                    // it, this descriptor has to be closed exactly once.
                    self.ledger.insert(Desc::Regular(raw), Entry { closes: vec![], wrapped: Some(usize::MAX), abandoned: false, released: true });
                    want_direct = true;
                    let cell: std::rc::Rc<std::cell::RefCell<Option<a10::process::Signals>>> = Default::default();
                    let cell2 = cell.clone();
                    sig_cell = Some(cell);
                    self.classes.push("signals-to-direct");
                    let f = signals.to_direct_descriptor();
                    Fut::Fds(Box::pin(async move {
                        let s = f.await?;
                        *cell2.borrow_mut() = Some(s);
                        Ok(Vec::new())
                    }))
                }
                Create::New => {
                    // One in four gets the lowest number there is (a process
                    // without standard input), if this case has no handle for
                    // that stream.
                    let low = on % 4 == 0 && !self.fds.iter().any(|f| f.stdio.is_some() && f.desc == Desc::Regular(0)) && !self.ledger.contains_key(&Desc::Regular(0));
                    let raw = {
                        let mut s = sim::sim();
                        match if low { s.issue_fd_low() } else { None } {
                            Some(n) => {
                                self.classes.push("descriptor-number-0");
                                n
                            }
                            None => s.issue_fd(),
                        }
                    };
                    let fd = AsyncFd::new(unsafe { OwnedFd::from_raw_fd(raw) }, sq);
                    let desc = Desc::Regular(raw);
                    self.ledger.insert(desc, Entry { closes: vec![], wrapped: None, abandoned: false, released: false });
                    drop(_s);
                    self.adopt(fd, desc, "AsyncFd::new");
                    return;
                }
                Create::Stdio => {
                    let on = if on % 3 == 0 && self.ledger.contains_key(&Desc::Regular(0)) { on + 1 } else { on };
                    let stdio = match on % 3 {
                        0 => Stdio::In(a10::io::stdin(sq)),
                        1 => Stdio::Out(a10::io::stdout(sq)),
                        _ => Stdio::Err(a10::io::stderr(sq)),
                    };
                    self.fds.push(Slot { fd: None, desc: Desc::Regular((on % 3) as i32), borrowed: 0, stdio: Some(stdio) });
                    self.classes.push("stdio");
                    return;
                }
            }
        };
        if let Some(i) = borrows {
            self.fds[i].borrowed += 1;
        }
        self.ops.push(FOp { what, fut: Some(fut), user_data: 0, serial: None, posted: Vec::new(), finished_posting: false, done: false, want_direct, borrows, fallback: false, sig_cell });
    }

    fn poll_op(&mut self, i: usize) {
        let waker = WakerHandle::new();
        let mut cx = Context::from_waker(&waker.waker);
        let tail = self.world.sq_tail();
        let Some(fut) = self.ops[i].fut.as_mut() else { return };
        enum R {
            Fds(std::io::Result<Vec<AsyncFd>>),
            Next(Option<std::io::Result<AsyncFd>>),
            Closed(std::io::Result<()>),
        }
        let r = {
            let _s = track::scope(track::TAG_A10);
            catch(|| match fut {
                Fut::Fds(f) => f.as_mut().poll(&mut cx).map(R::Fds),
                Fut::Multi(f) => f.as_mut().poll_next(&mut cx).map(R::Next),
                Fut::Close(f, _) => f.as_mut().poll(&mut cx).map(R::Closed),
            })
        };
        let tail_after = self.world.sq_tail();
        if tail_after != tail && self.ops[i].user_data == 0 {
            let sqe = sim::sim().the_ring().read_sqe_slot(tail);
            self.ops[i].user_data = sqe.user_data;
        }
        let what = format!("poll of {:?} #{i}", self.ops[i].what);
        match r {
            Err((msg, loc)) => {
                std::mem::forget(self.ops[i].fut.take());
                self.ops[i].done = true;
                self.fail("panic", format!("{what} panicked at {loc}: {msg}"));
            }
            Ok(Poll::Pending) => {}
            Ok(Poll::Ready(R::Closed(res))) => {
                // Explicit close: the result is the kernel's.
                let want = if self.ops[i].posted.is_empty() { None } else { Some(self.ops[i].posted.remove(0)) };
                match (res, want) {
                    (Ok(()), Some(Ok(_))) => {}
                    (Err(e), Some(Err(errno))) if e.raw_os_error() == Some(errno) => {}
                    (got, want) => self.fail("close-result", format!("{what}: close() returned {got:?}, the kernel posted {want:?}")),
                }
                self.finish(i);
            }
            Ok(Poll::Ready(R::Fds(res))) => {
                if self.ops[i].posted.is_empty() {
                    self.fail("made-up-result", format!("{what} resolved although the kernel never completed it"));
                    self.finish(i);
                    return;
                }
                let want = self.ops[i].posted.remove(0);
                match (res, want) {
                    (Ok(fds), Err(errno)) if errno == libc::EINVAL && self.ops[i].fallback => {
                        // The system call fall-back: exactly the pair pipe2(2)
                        // returned, as regular descriptors whatever kind was asked for.
                        let pairs = crate::shims::take_pipe2();
                        self.classes.push("pipe2-fallback");
                        if pairs.len() != 1 || fds.len() != 2 {
                            self.fail("fallback-count", format!("{what}: fall-back made {} pipe2(2) calls and returned {} AsyncFds", pairs.len(), fds.len()));
                        }
                        let pair = pairs.first().copied().unwrap_or([-1, -1]);
                        for (k, fd) in fds.into_iter().enumerate() {
                            let d = Desc::Regular(pair[k.min(1)]);
                            self.ledger.insert(d, Entry { closes: vec![], wrapped: None, abandoned: false, released: false });
                            self.adopt(fd, d, &format!("{what} (pipe2 fall-back)"));
                        }
                    }
                    (Ok(_), Ok(descs)) if self.ops[i].what == Create::SignalsToDirect => {
                        let got = self.ops[i].sig_cell.as_ref().and_then(|c| c.borrow_mut().take());
                        match (got, descs.first().copied()) {
                            (Some(sig), Some(d @ Desc::Direct(slot, _))) => {
                                let text = format!("{sig:?}");
                                if !text.contains(&format!("fd: AsyncFd {{ fd: {slot}, kind: Direct }}")) {
                                    self.fail("wrong-wrap", format!("{what}: the kernel returned {d:?} but the Signals handed out is {text}"));
                                }
                                self.fds.push(Slot { fd: None, desc: d, borrowed: 0, stdio: Some(Stdio::Sig(sig)) });
                                let idx = self.fds.len() - 1;
                                if let Some(e) = self.ledger.get_mut(&d) {
                                    e.wrapped = Some(idx);
                                }
                            }
                            (got, d) => self.fail("result-mismatch", format!("{what}: returned {:?}, the kernel posted {d:?}", got.is_some())),
                        }
                    }
                    (Ok(fds), Ok(descs)) => {
                        if fds.len() != descs.len() {
                            self.fail("wrong-count", format!("{what}: {} AsyncFds for {} descriptors", fds.len(), descs.len()));
                        }
                        for (fd, d) in fds.into_iter().zip(descs) {
                            self.adopt(fd, d, &what);
                        }
                    }
                    (Err(e), Err(errno)) => {
                        if e.raw_os_error() != Some(errno) && errno != libc::EINVAL {
                            self.fail("wrong-error", format!("{what}: failed with {e}, the kernel posted errno {errno}"));
                        }
                    }
                    (got, want) => self.fail("result-mismatch", format!("{what}: returned {:?}, the kernel posted {want:?}", got.map(|f| f.len()))),
                }
                self.finish(i);
            }
            Ok(Poll::Ready(R::Next(None))) => {
                if !self.ops[i].posted.is_empty() {
                    let n = self.ops[i].posted.len();
                    self.fail("results-dropped", format!("{what}: stream ended with {n} accepted descriptors undelivered"));
                }
                self.finish(i);
            }
            Ok(Poll::Ready(R::Next(Some(res)))) => {
                if self.ops[i].posted.is_empty() {
                    self.fail("made-up-result", format!("{what} yielded a connection the kernel never accepted"));
                    return;
                }
                let want = self.ops[i].posted.remove(0);
                match (res, want) {
                    (Ok(fd), Ok(descs)) => self.adopt(fd, descs[0], &what),
                    (Err(e), Err(errno)) => {
                        if e.raw_os_error() != Some(errno) {
                            self.fail("wrong-error", format!("{what}: failed with {e}, the kernel posted errno {errno}"));
                        }
                    }
                    (got, want) => self.fail("result-mismatch", format!("{what}: returned {:?}, the kernel posted {want:?}", got.is_ok())),
                }
            }
        }
    }

    fn finish(&mut self, i: usize) {
        self.ops[i].done = true;
        self.drop_fut(i);
    }

    fn drop_fut(&mut self, i: usize) {
        let fut = self.ops[i].fut.take();
        if fut.is_none() {
            return;
        }
        let r = {
            let _s = track::scope(track::TAG_A10);
            catch(|| drop(fut))
        };
        if let Err((msg, loc)) = r {
            self.fail("panic", format!("dropping {:?} #{i} panicked at {loc}: {msg}", self.ops[i].what));
        }
        if let Some(b) = self.ops[i].borrows.take() {
            self.fds[b].borrowed -= 1;
        }
        // Descriptors posted but never delivered belong to an abandoned operation.
        let posted = std::mem::take(&mut self.ops[i].posted);
        for p in posted.into_iter().flatten() {
            for d in p {
                if let Some(e) = self.ledger.get_mut(&d) {
                    e.abandoned = true;
                }
            }
        }
    }

    fn kernel_complete(&mut self, i: usize, more: bool, fail: bool, unsupported: bool) {
        let Some(serial) = self.ops[i].serial else { return };
        let mut s = sim::sim();
        let Some(req) = s.the_ring().req(serial).cloned() else { return };
        if req.done {
            return;
        }
        let sqe = req.sqe;
        let multishot = self.ops[i].what == Create::MultishotAccept;
        let more = more && multishot;
        let abandoned = self.ops[i].fut.is_none();
        let mut new_entry = |ledger: &mut BTreeMap<Desc, Entry>, d: Desc| {
            ledger.insert(d, Entry { closes: vec![], wrapped: None, abandoned, released: false });
        };
        if unsupported && sqe.opcode == abi::OP_PIPE {
            // An older kernel: unknown opcode. a10's fall-back is pipe2(2),
            // which can only create regular descriptors.
            crate::shims::take_pipe2();
            s.the_ring().complete(serial, -libc::EINVAL, 0, false);
            self.ops[i].posted.push(Err(libc::EINVAL));
            self.ops[i].finished_posting = true;
            self.ops[i].fallback = true;
            return;
        }
        if fail {
            let e = if sqe.opcode == abi::OP_CLOSE { libc::EBADF } else { libc::EMFILE };
            s.the_ring().complete(serial, -e, 0, false);
            self.ops[i].posted.push(Err(e));
            self.ops[i].finished_posting = true;
            return;
        }
        let direct_req = sqe.file_index == abi::FILE_INDEX_ALLOC;
        match sqe.opcode {
            abi::OP_OPENAT | abi::OP_SOCKET | abi::OP_ACCEPT => {
                if direct_req != self.ops[i].want_direct {
                    let w = self.ops[i].want_direct;
                    drop(s);
                    self.fail("wrong-kind-requested", format!("{:?}: a {} descriptor was requested from the kernel, the caller asked for {}", self.ops[i].what, if direct_req { "direct" } else { "regular" }, if w { "direct" } else { "regular" }));
                    return;
                }
                let desc = if direct_req {
                    match s.the_ring().alloc_direct() {
                        Some(slot) => Desc::Direct(slot, *self.gens.get(&slot).unwrap_or(&0)),
                        None => {
                            let e = if s.the_ring().files_registered { libc::ENFILE } else { libc::ENXIO };
                            s.the_ring().complete(serial, -e, 0, false);
                            self.ops[i].posted.push(Err(e));
                            self.ops[i].finished_posting = true;
                            return;
                        }
                    }
                } else {
                    // (`more` on a single-shot operation: the kernel hands out
                    // number 0, if the case does not use it yet.)
                    let low = more && self.ops[i].what != Create::MultishotAccept && !self.fds.iter().any(|f| f.stdio.is_some() && f.desc == Desc::Regular(0)) && !self.ledger.contains_key(&Desc::Regular(0));
                    match if low { s.issue_fd_low() } else { None } {
                        Some(n) => {
                            self.classes.push("descriptor-number-0");
                            Desc::Regular(n)
                        }
                        None => Desc::Regular(s.issue_fd()),
                    }
                };
                new_entry(&mut self.ledger, desc);
                let res = match desc {
                    Desc::Regular(n) => n,
                    Desc::Direct(slot, _) => slot as i32,
                };
                s.the_ring().complete(serial, res, 0, more);
                self.ops[i].posted.push(Ok(vec![desc]));
                if !more {
                    self.ops[i].finished_posting = true;
                }
                if abandoned {
                    self.classes.push("delivered-to-abandoned");
                }
            }
            abi::OP_PIPE => {
                let mut descs = Vec::new();
                let mut nums = [0i32; 2];
                for k in 0..2 {
                    let d = if direct_req {
                        match s.the_ring().alloc_direct() {
                            Some(slot) => Desc::Direct(slot, *self.gens.get(&slot).unwrap_or(&0)),
                            None => {
                                // Roll back.
                                for d in &descs {
                                    if let Desc::Direct(slot, _) = d {
                                        s.the_ring().files[*slot as usize] = None;
                                    }
                                }
                                let e = if s.the_ring().files_registered { libc::ENFILE } else { libc::ENXIO };
                                s.the_ring().complete(serial, -e, 0, false);
                                self.ops[i].posted.push(Err(e));
                                self.ops[i].finished_posting = true;
                                return;
                            }
                        }
                    } else {
                        Desc::Regular(s.issue_fd())
                    };
                    nums[k] = match d {
                        Desc::Regular(n) => n,
                        Desc::Direct(slot, _) => slot as i32,
                    };
                    descs.push(d);
                }
                if let Some(r) = req.regions.iter().find(|r| r.what == "fds") {
                    let bytes: Vec<u8> = nums.iter().flat_map(|n| n.to_ne_bytes()).collect();
                    sim::regions::write_region(r, 0, &bytes);
                }
                for d in &descs {
                    new_entry(&mut self.ledger, *d);
                }
                s.the_ring().complete(serial, 0, 0, false);
                self.ops[i].posted.push(Ok(descs));
                self.ops[i].finished_posting = true;
                if abandoned {
                    self.classes.push("delivered-to-abandoned");
                }
            }
            abi::OP_FILES_UPDATE => {
                // to_direct_descriptor: fds[0] holds the regular fd, gets the slot.
                let Some(slot) = s.the_ring().alloc_direct() else {
                    let e = if s.the_ring().files_registered { libc::ENFILE } else { libc::ENXIO };
                    s.the_ring().complete(serial, -e, 0, false);
                    self.ops[i].posted.push(Err(e));
                    self.ops[i].finished_posting = true;
                    return;
                };
                let desc = Desc::Direct(slot, *self.gens.get(&slot).unwrap_or(&0));
                if let Some(r) = req.regions.iter().find(|r| r.what == "fds") {
                    sim::regions::write_region(r, 0, &(slot as i32).to_ne_bytes());
                }
                new_entry(&mut self.ledger, desc);
                s.the_ring().complete(serial, 1, 0, false);
                self.ops[i].posted.push(Ok(vec![desc]));
                self.ops[i].finished_posting = true;
                if abandoned {
                    self.classes.push("delivered-to-abandoned");
                }
            }
            abi::OP_FIXED_FD_INSTALL => {
                let desc = Desc::Regular(s.issue_fd());
                new_entry(&mut self.ledger, desc);
                let Desc::Regular(n) = desc else { unreachable!() };
                s.the_ring().complete(serial, n, 0, false);
                self.ops[i].posted.push(Ok(vec![desc]));
                self.ops[i].finished_posting = true;
                if abandoned {
                    self.classes.push("delivered-to-abandoned");
                }
            }
            _ => {}
        }
    }

    fn drop_fd(&mut self, i: usize) {
        let full = {
            let mut s = sim::sim();
            let r = s.the_ring();
            r.sq_tail().wrapping_sub(r.sq_head_shared()) >= r.sq_entries
        };
        let desc = self.fds[i].desc;
        let r = if let Some(stdio) = self.fds[i].stdio.take() {
            if !matches!(stdio, Stdio::Sig(_)) {
                let _s = track::scope(track::TAG_A10);
                drop(stdio);
                self.sync("dropping a standard stream handle");
                return;
            }
            // A Signals handle owns its (direct) descriptor like an AsyncFd.
            let _s = track::scope(track::TAG_A10);
            catch(|| drop(stdio))
        } else {
            let Some(ptr) = self.fds[i].fd.take() else { return };
            let _s = track::scope(track::TAG_A10);
            catch(|| drop(unsafe { Box::from_raw(ptr) }))
        };
        if let Err((msg, loc)) = r {
            self.fail("panic", format!("dropping the AsyncFd of {desc:?} panicked at {loc}: {msg}"));
            return;
        }
        if let Some(e) = self.ledger.get_mut(&desc) {
            e.released = true;
        }
        if full {
            self.classes.push("closed-with-full-queue");
        }
        if matches!(desc, Desc::Direct(..)) {
            self.classes.push("direct-closed");
        }
        self.sync(&format!("dropping the AsyncFd of {desc:?}"));
        if full {
            // The synchronous fall-back must have happened right away.
            let closes = self.ledger.get(&desc).map(|e| e.closes.clone()).unwrap_or_default();
            let want = if matches!(desc, Desc::Direct(..)) { ClosePath::FilesUpdate } else { ClosePath::Syscall };
            if closes != [want] && !self.stop {
                self.fail("fallback-close", format!("AsyncFd of {desc:?} dropped with a full submission queue: closes so far {closes:?}, expected the synchronous {want:?}"));
            }
        }
    }
}

pub struct C07;

fn fstep() -> impl Strategy<Value = FStep> {
    let what = prop_oneof![
        3 => Just(Create::Open),
        2 => Just(Create::OpenTemp),
        1 => Just(Create::OpenKindFirst),
        3 => Just(Create::Socket),
        2 => Just(Create::Pipe),
        3 => Just(Create::Accept),
        2 => Just(Create::MultishotAccept),
        2 => Just(Create::ToDirect),
        2 => Just(Create::ToFile),
        3 => Just(Create::New),
        1 => Just(Create::TryClone),
        1 => Just(Create::Stdio),
        1 => Just(Create::SignalsToDirect),
    ];
    prop_oneof![
        6 => (what, any::<bool>(), any::<u16>()).prop_map(|(what, direct, on)| FStep::Start { what, direct, on }),
        8 => any::<u16>().prop_map(|op| FStep::Poll { op }),
        2 => any::<u16>().prop_map(|op| FStep::DropOp { op }),
        7 => (any::<u16>(), any::<bool>(), proptest::bool::weighted(0.1), proptest::bool::weighted(0.15)).prop_map(|(op, more, fail, unsupported)| FStep::Complete { op, more, fail, unsupported }),
        6 => Just(FStep::RingPoll),
        5 => (any::<u16>(), proptest::bool::weighted(0.3)).prop_map(|(fd, eintr)| FStep::DropFd { fd, eintr }),
        3 => any::<u16>().prop_map(|fd| FStep::CloseFd { fd }),
    ]
}

impl Property for C07 {
    const ID: &'static str = "C07";
    type Case = Case;

    fn strategy(_tier: Tier) -> BoxedStrategy<Case> {
        (0u8..=3, prop_oneof![1 => Just(0u8), 4 => 1u8..16], proptest::collection::vec(fstep(), 0..70)).prop_map(|(sq_log2, direct_slots, steps)| Case { sq_log2, direct_slots, steps }).boxed()
    }

    fn cases(tier: Tier) -> u32 {
        tier.pick(20_000, 2_000_000)
    }

    fn run(case: &Case, ctx: &mut Ctx) {
        run_case(case, ctx);
    }

    fn rule() -> &'static str {
        "proptest histories of descriptor-creating operations (open, socket, pipe, accept, multishot accept, to_direct_descriptor, to_file_descriptor, Signals::to_direct_descriptor over a real signalfd, AsyncFd::new, try_clone, stdin/stdout/stderr handles) with regular and direct kinds, completed/failed by the simulated kernel (which issues real, never reused descriptor numbers and direct slots), operations dropped before delivery, AsyncFds dropped or closed explicitly, on rings of 1..8 submission entries so that drops hit a full queue; a synchronous close(2) may report EINTR (the descriptor is released all the same and must not be closed again). Close ledger fed by IORING_OP_CLOSE SQEs (fd or file_index-1), REGISTER_FILES_UPDATE(-1) and the interposed close(2): once the owner is gone and the queue flushed each descriptor has exactly one close through a path matching its kind, nothing foreign is closed, 0-2 never; every descriptor the kernel returned is wrapped by exactly one AsyncFd with matching kind/number, or closed by the end if its operation was abandoned. Non-trivial = closed through the full-queue fall-back, or a direct descriptor, or a descriptor delivered to an abandoned operation. Distinct = (classes, 16-bit case hash)."
    }

    fn assumptions() -> Vec<&'static str> {
        vec!["simulated kernel's descriptor handling follows K10; descriptor identity of direct descriptors is read from AsyncFd's Debug output (no public accessor)"]
    }
}

fn run_case(case: &Case, ctx: &mut Ctx) {
    let mut cfg = RingCfg::simple(case.sq_log2.min(3));
    cfg.direct_slots = case.direct_slots as u16;
    let world = match World::new(&cfg) {
        Ok(w) => w,
        Err(e) => {
            ctx.infra(e);
            return;
        }
    };
    let mut exec = Exec { world, ops: Vec::new(), fds: Vec::new(), ledger: BTreeMap::new(), gens: BTreeMap::new(), ctx, events_seen: sim::events_len(), classes: Vec::new(), stop: false, shim_seen: shims::log_snapshot().len(), signals_made: false };

    for s in &case.steps {
        if exec.stop {
            break;
        }
        let what = format!("{s:?}");
        exec.sync(&what);
        match s {
            FStep::Start { what, direct, on } => exec.start(*what, *direct, *on),
            FStep::Poll { op } => {
                let c: Vec<usize> = exec.ops.iter().enumerate().filter(|(_, o)| o.fut.is_some() && !o.done).map(|(i, _)| i).collect();
                if c.is_empty() {
                    exec.ctx.skipped_steps += 1;
                } else {
                    exec.poll_op(c[pick_index(*op, c.len())]);
                }
            }
            FStep::DropOp { op } => {
                let c: Vec<usize> = exec.ops.iter().enumerate().filter(|(_, o)| o.fut.is_some()).map(|(i, _)| i).collect();
                if c.is_empty() {
                    exec.ctx.skipped_steps += 1;
                } else {
                    let i = c[pick_index(*op, c.len())];
                    if let Some(Fut::Close(_, d)) = &exec.ops[i].fut {
                        // Dropping a close() future: the descriptor is closed by
                        // the queued request, or never (not an AsyncFd any more).
                        let d = *d;
                        if exec.ops[i].serial.is_none() && exec.ops[i].user_data == 0 {
                            // Never submitted: the descriptor leaks by design of
                            // the API (close(self) consumed the AsyncFd); not
                            // part of the property's promise.
                            exec.ledger.remove(&d);
                        }
                    }
                    exec.drop_fut(i);
                }
            }
            FStep::Complete { op, more, fail, unsupported } => {
                let c: Vec<usize> = exec.ops.iter().enumerate().filter(|(_, o)| o.serial.is_some() && !o.finished_posting).map(|(i, _)| i).collect();
                if c.is_empty() {
                    exec.ctx.skipped_steps += 1;
                } else {
                    exec.kernel_complete(c[pick_index(*op, c.len())], *more, *fail, *unsupported);
                }
            }
            FStep::RingPoll => {
                let r = catch(|| exec.world.poll_ring(Some(Duration::ZERO)));
                match r {
                    Err((msg, loc)) => exec.fail("panic", format!("Ring::poll panicked at {loc}: {msg}")),
                    Ok(Err(e)) => exec.fail("ring-poll-error", format!("Ring::poll failed: {e}")),
                    Ok(Ok(())) => {}
                }
            }
            FStep::DropFd { fd, eintr } => {
                let c: Vec<usize> = exec.fds.iter().enumerate().filter(|(_, s)| (s.fd.is_some() || s.stdio.is_some()) && s.borrowed == 0).map(|(i, _)| i).collect();
                if c.is_empty() {
                    exec.ctx.skipped_steps += 1;
                } else {
                    if *eintr {
                        shims::close_reports_eintr(1);
                    }
                    exec.drop_fd(c[pick_index(*fd, c.len())]);
                    shims::close_reports_eintr(0);
                }
            }
            FStep::CloseFd { fd } => {
                let c: Vec<usize> = exec.fds.iter().enumerate().filter(|(_, s)| s.fd.is_some() && s.borrowed == 0).map(|(i, _)| i).collect();
                if c.is_empty() || exec.ops.iter().filter(|o| !o.done).count() >= 10 {
                    exec.ctx.skipped_steps += 1;
                } else {
                    let i = c[pick_index(*fd, c.len())];
                    let ptr = exec.fds[i].fd.take().unwrap();
                    let desc = exec.fds[i].desc;
                    let afd = *unsafe { Box::from_raw(ptr) };
                    let fut = {
                        let _s = track::scope(track::TAG_A10);
                        afd.close()
                    };
                    if let Some(e) = exec.ledger.get_mut(&desc) {
                        e.released = true;
                    }
                    exec.classes.push("explicit-close");
                    exec.ops.push(FOp { what: Create::New, fut: Some(Fut::Close(Box::pin(fut), desc)), user_data: 0, serial: None, posted: Vec::new(), finished_posting: false, done: false, want_direct: false, borrows: None, fallback: false, sig_cell: None });
                }
            }
        }
        exec.sync(&what);
        // Explicit close requests are executed by the simulator at
        // consumption; hand their result to the model.
        for op in exec.ops.iter_mut() {
            if let (Some(Fut::Close(..)), Some(serial), false) = (&op.fut, op.serial, op.finished_posting) {
                let res = sim::sim().the_ring().posted.iter().find(|p| p.req == serial).map(|p| p.cqe.res);
                if let Some(res) = res {
                    op.posted.push(if res < 0 { Err(-res) } else { Ok(vec![]) });
                    op.finished_posting = true;
                }
            }
        }
    }

    // End of history: drop operations, descriptors, flush, then audit.
    if !exec.stop {
        for i in 0..exec.ops.len() {
            if let Some(Fut::Close(_, d)) = &exec.ops[i].fut {
                if exec.ops[i].user_data == 0 {
                    let d = *d;
                    exec.ledger.remove(&d);
                }
            }
            exec.drop_fut(i);
        }
        for i in 0..exec.fds.len() {
            if exec.fds[i].fd.is_some() || exec.fds[i].stdio.is_some() {
                exec.drop_fd(i);
            }
        }
        for _ in 0..6 {
            let _ = catch(|| exec.world.poll_ring(Some(Duration::ZERO)));
            exec.sync("final flush");
        }
        // What is still in flight gets cancelled (no descriptor produced).
        {
            let mut s = sim::sim();
            let ring = s.the_ring();
            let inflight: Vec<u64> = ring.inflight.iter().filter(|r| !r.done && r.sqe.user_data >= 4).map(|r| r.serial).collect();
            for serial in inflight {
                ring.complete(serial, -libc::ECANCELED, 0, false);
            }
        }
        for _ in 0..3 {
            let _ = catch(|| exec.world.poll_ring(Some(Duration::ZERO)));
            exec.sync("final flush");
        }
    }
    if !exec.stop {
        let mut leaks = Vec::new();
        let mut abandoned_leaks = Vec::new();
        let mut wrong_path = Vec::new();
        for (d, e) in &exec.ledger {
            let want: &[ClosePath] = match d {
                Desc::Regular(_) => &[ClosePath::SqeFd, ClosePath::Syscall],
                Desc::Direct(..) => &[ClosePath::SqeIndex, ClosePath::FilesUpdate],
            };
            match e.closes.as_slice() {
                [] => {
                    if e.abandoned || e.wrapped.is_none() {
                        abandoned_leaks.push(*d);
                    } else {
                        leaks.push(*d);
                    }
                }
                [p] => {
                    if !want.contains(p) {
                        wrong_path.push((*d, *p));
                    }
                }
                _ => {}
            }
        }
        if !wrong_path.is_empty() {
            exec.fail("wrong-close-path", format!("descriptors closed through a path that does not match their kind: {wrong_path:?}"));
        }
        if !leaks.is_empty() {
            exec.fail("not-closed", format!("descriptors {leaks:?} were owned by an AsyncFd that is gone, the queue is flushed, but they were never closed"));
        }
        if !abandoned_leaks.is_empty() {
            exec.fail("abandoned-completion-fd-leak", format!("descriptors {abandoned_leaks:?} were returned by the kernel for operations whose future had been dropped; they were neither wrapped by an AsyncFd nor closed"));
        }
        // Cross-check with the process descriptor table.
        for (d, e) in &exec.ledger {
            if let Desc::Regular(n) = d {
                // (Number 0 is taken by the worker's own descriptor again as
                // soon as the issued one is closed: ask the simulator.)
                let open = if *n == 0 { sim::sim().issued_fds.get(&0).copied().unwrap_or(false) } else { (unsafe { libc::fcntl(*n, libc::F_GETFD) }) != -1 };
                if open != e.closes.is_empty() && !exec.stop {
                    let msg = format!("descriptor {n}: ledger says {} closes but fcntl(F_GETFD) says {}", e.closes.len(), if open { "open" } else { "closed" });
                    exec.ctx.infra(msg);
                }
            }
        }
    }
    let mut classes = std::mem::take(&mut exec.classes);
    let Exec { world, ops, fds, ctx, .. } = exec;
    {
        let _s = track::scope(track::TAG_A10);
        drop(ops);
        for s in fds {
            if let Some(ptr) = s.fd {
                drop(unsafe { Box::from_raw(ptr) });
            }
        }
        drop(world);
    }
    classes.sort();
    classes.dedup();
    for c in &classes {
        ctx.class(c);
    }
    ctx.nontrivial = classes.iter().any(|c| matches!(*c, "closed-with-full-queue" | "direct-closed" | "delivered-to-abandoned"));
    ctx.fingerprint = format!("sq{}|{}|{:x}", 1 << case.sq_log2.min(3), classes.join("|"), crate::common::fnv(&format!("{case:?}")) & 0xffff);
}
