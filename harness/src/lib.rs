//! a10verif: property-based verification harness for a10 (see /verif/DESIGN.md).

#![allow(dead_code, unused_imports)]

pub mod abi;
pub mod common;
pub mod strat;
pub mod interp;
pub mod props;
pub mod runner;
pub mod sched;
pub mod shims;
pub mod sim;
pub mod track;

use std::path::Path;

use common::Tier;
use runner::Property;

#[global_allocator]
static ALLOC: track::Tracking = track::Tracking;

/// One-time process set-up for workers and replays.
pub fn init_process(with_sim: bool) {
    runner::install_panic_hook();
    track::register_static_image();
    if with_sim {
        // Experimental, off by default (DESIGN.md 11.1, "delayed frees").
        if std::env::var_os("A10VERIF_DELAYED_FREES").is_some() {
            track::enable_delayed_frees();
        }
        sim::install();
        interp::warmup();
    }
}

macro_rules! dispatch {
    ($id:expr, $f:ident $(, $arg:expr)*) => {
        match $id {
            "C01" => $f::<props::hist::C01>($($arg),*),
            "C02" => $f::<props::hist::C02>($($arg),*),
            "C03" => $f::<props::hist::C03>($($arg),*),
            "C04" => $f::<props::c04::C04>($($arg),*),
            "C17" => $f::<props::c17::C17>($($arg),*),
            "C18" => $f::<props::c18::C18>($($arg),*),
            "C16" => $f::<props::c16::C16>($($arg),*),
            "C10" => $f::<props::c10::C10>($($arg),*),
            "C15" => $f::<props::c15::C15>($($arg),*),
            "C07" => $f::<props::c07::C07>($($arg),*),
            "C08" => $f::<props::c08::C08>($($arg),*),
            "C11" => $f::<props::c11::C11>($($arg),*),
            "C12" => $f::<props::hist::C12>($($arg),*),
            "C14" => $f::<props::c14::C14>($($arg),*),
            "C06" => $f::<props::hist::C06>($($arg),*),
            "C09" => $f::<props::hist::C09>($($arg),*),
            "C05" => $f::<props::c05::C05>($($arg),*),
            "C13" => $f::<props::c13::C13>($($arg),*),
            other => {
                eprintln!("unknown property {other}");
                2
            }
        }
    };
}

fn parent<P: Property>(tier: Tier) -> i32 {
    runner::parent::<P>(tier)
}
fn worker<P: Property>(tier: Tier, seed: u64, shard: u32, of: u32, out: &Path) -> i32 {
    runner::worker::<P>(tier, seed, shard, of, out)
}
fn replay<P: Property>(path: &Path) -> i32 {
    runner::replay::<P>(path)
}

/// The command line of the `a10verif` binary.
pub fn cli_main() {
    let args: Vec<String> = std::env::args().collect();
    let code = match args.get(1).map(String::as_str) {
        Some("run") if args.len() >= 4 => {
            let Some(tier) = Tier::parse(&args[3]) else {
                eprintln!("bad tier");
                std::process::exit(2)
            };
            dispatch!(args[2].as_str(), parent, tier)
        }
        Some("worker") if args.len() >= 8 => {
            let tier = Tier::parse(&args[3]).unwrap();
            let shard: u32 = args[4].parse().unwrap();
            let of: u32 = args[5].parse().unwrap();
            let seed: u64 = args[6].parse().unwrap();
            dispatch!(args[2].as_str(), worker, tier, seed, shard, of, Path::new(&args[7]))
        }
        Some("replay") if args.len() >= 4 => dispatch!(args[2].as_str(), replay, Path::new(&args[3])),
        _ => {
            eprintln!("usage: a10verif run <Cxx> <quick|thorough> | replay <Cxx> <file>");
            2
        }
    };
    std::process::exit(code);
}

/// One libFuzzer iteration: the bytes drive the property's proptest strategy
/// through proptest's pass-through generator (the byte string *is* the random
/// stream, so coverage-guided mutation of the bytes mutates the structured
/// case), the case runs against the real code under the same oracles as the
/// registered checks. A violation that is not a known finding writes a replay
/// file and panics (libFuzzer records the input as a crash).
pub fn fuzz_one(property: &str, data: &[u8]) {
    fn go<P: Property>(data: &[u8]) -> i32 {
        use proptest::strategy::{Strategy, ValueTree};
        use proptest::test_runner::{Config, RngAlgorithm, TestRng, TestRunner};
        static INIT: std::sync::Once = std::sync::Once::new();
        INIT.call_once(|| {
            init_process(P::uses_sim());
        });
        // The pass-through generator wants a non-empty seed.
        if data.is_empty() {
            return 0;
        }
        // NOTE: this relies on the vendored proptest (vendor/proptest, one
        // local change): upstream's pass-through generator returns zeros once
        // the bytes are used up (and every fork halves what is left), on which
        // rand's rejection sampling of a non-power-of-two range never
        // terminates.
        let rng = TestRng::from_seed(RngAlgorithm::PassThrough, data);
        let mut runner = TestRunner::new_with_rng(Config { failure_persistence: None, ..Config::default() }, rng);
        let Ok(tree) = P::strategy(Tier::Quick).new_tree(&mut runner) else { return 0 };
        let case = tree.current();
        let known = common::load_known(P::ID);
        let mut ctx = common::Ctx::new(P::ID, &known, Tier::Quick);
        runner::run_case::<P>(&case, &mut ctx);
        if ctx.infra.is_some() {
            return 0;
        }
        if let Some(f) = ctx.failure {
            let dir = common::verif_root().join("replays").join("found");
            let _ = std::fs::create_dir_all(&dir);
            let text = serde_json::to_string_pretty(&serde_json::json!({"property": P::ID, "sig": f.sig, "msg": f.msg, "case": case})).unwrap_or_default();
            let path = dir.join(format!("{}-fuzz-{:016x}.json", P::ID, common::fnv(&text)));
            let _ = std::fs::write(&path, text);
            eprintln!("violation: sig={} {}", f.sig, f.msg);
            eprintln!("VIOLATION property={} replay={}", P::ID, path.display());
            panic!("VIOLATION property={} replay={}", P::ID, path.display());
        }
        0
    }
    let _ = dispatch!(property, go, data);
}
