//! io_uring user-space ABI, written down from the kernel UAPI header
//! (include/uapi/linux/io_uring.h, the values are stable ABI). This is
//! deliberately *not* imported from a10's own bindgen copy so that the
//! simulated kernel is an independent reading of the ABI.

#![allow(dead_code)]

/// `struct io_uring_sqe`, 64 bytes, viewed as its raw fields.
#[repr(C)]
#[derive(Copy, Clone, Debug, PartialEq, Eq)]
pub struct Sqe {
    pub opcode: u8,
    pub flags: u8,
    pub ioprio: u16,
    pub fd: i32,
    /// off / addr2 / {cmd_op, pad}
    pub off: u64,
    /// addr / splice_off_in / {level, optname}
    pub addr: u64,
    pub len: u32,
    /// rw_flags, fsync_flags, poll_events, msg_flags, accept_flags, ...
    pub op_flags: u32,
    pub user_data: u64,
    /// buf_index / buf_group
    pub buf_group: u16,
    pub personality: u16,
    /// splice_fd_in / file_index / optlen / {addr_len, pad}
    pub file_index: u32,
    /// addr3 / optval
    pub addr3: u64,
    pub pad2: u64,
}

impl Sqe {
    pub fn bytes(&self) -> [u8; 64] {
        // SAFETY: repr(C), no padding (asserted below), plain data.
        unsafe { std::mem::transmute::<Sqe, [u8; 64]>(*self) }
    }
    pub fn zeroed() -> Sqe {
        // SAFETY: all zero is valid.
        unsafe { std::mem::zeroed() }
    }
}

/// `struct io_uring_cqe`, 16 bytes.
#[repr(C)]
#[derive(Copy, Clone, Debug, PartialEq, Eq)]
pub struct Cqe {
    pub user_data: u64,
    pub res: i32,
    pub flags: u32,
}

#[repr(C)]
#[derive(Copy, Clone, Debug, Default)]
pub struct SqOffsets {
    pub head: u32,
    pub tail: u32,
    pub ring_mask: u32,
    pub ring_entries: u32,
    pub flags: u32,
    pub dropped: u32,
    pub array: u32,
    pub resv1: u32,
    pub user_addr: u64,
}

#[repr(C)]
#[derive(Copy, Clone, Debug, Default)]
pub struct CqOffsets {
    pub head: u32,
    pub tail: u32,
    pub ring_mask: u32,
    pub ring_entries: u32,
    pub overflow: u32,
    pub cqes: u32,
    pub flags: u32,
    pub resv1: u32,
    pub user_addr: u64,
}

/// `struct io_uring_params`, 120 bytes.
#[repr(C)]
#[derive(Copy, Clone, Debug, Default)]
pub struct Params {
    pub sq_entries: u32,
    pub cq_entries: u32,
    pub flags: u32,
    pub sq_thread_cpu: u32,
    pub sq_thread_idle: u32,
    pub features: u32,
    pub wq_fd: u32,
    pub resv: [u32; 3],
    pub sq_off: SqOffsets,
    pub cq_off: CqOffsets,
}

/// `struct io_uring_getevents_arg`.
#[repr(C)]
#[derive(Copy, Clone, Debug)]
pub struct GetEventsArg {
    pub sigmask: u64,
    pub sigmask_sz: u32,
    pub min_wait_usec: u32,
    pub ts: u64,
}

#[repr(C)]
#[derive(Copy, Clone, Debug)]
pub struct KernelTimespec {
    pub tv_sec: i64,
    pub tv_nsec: i64,
}

/// `struct io_uring_buf`.
#[repr(C)]
#[derive(Copy, Clone, Debug)]
pub struct Buf {
    pub addr: u64,
    pub len: u32,
    pub bid: u16,
    pub resv: u16,
}

/// `struct io_uring_buf_reg`.
#[repr(C)]
#[derive(Copy, Clone, Debug)]
pub struct BufReg {
    pub ring_addr: u64,
    pub ring_entries: u32,
    pub bgid: u16,
    pub flags: u16,
    pub resv: [u64; 3],
}

/// `struct io_uring_rsrc_register`.
#[repr(C)]
#[derive(Copy, Clone, Debug)]
pub struct RsrcRegister {
    pub nr: u32,
    pub flags: u32,
    pub resv2: u64,
    pub data: u64,
    pub tags: u64,
}

/// `struct io_uring_files_update` / `io_uring_rsrc_update`.
#[repr(C)]
#[derive(Copy, Clone, Debug)]
pub struct FilesUpdate {
    pub offset: u32,
    pub resv: u32,
    pub fds: u64,
}

/// `struct io_uring_sync_cancel_reg`.
#[repr(C)]
#[derive(Copy, Clone, Debug)]
pub struct SyncCancelReg {
    pub addr: u64,
    pub fd: i32,
    pub flags: u32,
    pub timeout: KernelTimespec,
    pub opcode: u8,
    pub pad: [u8; 7],
    pub pad2: [u64; 3],
}

const _: () = {
    assert!(size_of::<Sqe>() == 64);
    assert!(size_of::<Cqe>() == 16);
    assert!(size_of::<Params>() == 120);
    assert!(size_of::<SqOffsets>() == 40);
    assert!(size_of::<CqOffsets>() == 40);
    assert!(size_of::<GetEventsArg>() == 24);
    assert!(size_of::<Buf>() == 16);
    assert!(size_of::<BufReg>() == 40);
    assert!(size_of::<RsrcRegister>() == 32);
    assert!(size_of::<FilesUpdate>() == 16);
    assert!(size_of::<SyncCancelReg>() == 64);
};

// sqe->flags
pub const IOSQE_FIXED_FILE: u8 = 1 << 0;
pub const IOSQE_IO_DRAIN: u8 = 1 << 1;
pub const IOSQE_IO_LINK: u8 = 1 << 2;
pub const IOSQE_IO_HARDLINK: u8 = 1 << 3;
pub const IOSQE_ASYNC: u8 = 1 << 4;
pub const IOSQE_BUFFER_SELECT: u8 = 1 << 5;
pub const IOSQE_CQE_SKIP_SUCCESS: u8 = 1 << 6;

// setup flags
pub const SETUP_IOPOLL: u32 = 1 << 0;
pub const SETUP_SQPOLL: u32 = 1 << 1;
pub const SETUP_SQ_AFF: u32 = 1 << 2;
pub const SETUP_CQSIZE: u32 = 1 << 3;
pub const SETUP_CLAMP: u32 = 1 << 4;
pub const SETUP_ATTACH_WQ: u32 = 1 << 5;
pub const SETUP_R_DISABLED: u32 = 1 << 6;
pub const SETUP_SUBMIT_ALL: u32 = 1 << 7;
pub const SETUP_COOP_TASKRUN: u32 = 1 << 8;
pub const SETUP_TASKRUN_FLAG: u32 = 1 << 9;
pub const SETUP_SQE128: u32 = 1 << 10;
pub const SETUP_CQE32: u32 = 1 << 11;
pub const SETUP_SINGLE_ISSUER: u32 = 1 << 12;
pub const SETUP_DEFER_TASKRUN: u32 = 1 << 13;
pub const SETUP_NO_MMAP: u32 = 1 << 14;
pub const SETUP_REGISTERED_FD_ONLY: u32 = 1 << 15;
pub const SETUP_NO_SQARRAY: u32 = 1 << 16;

// features
pub const FEAT_SINGLE_MMAP: u32 = 1 << 0;
pub const FEAT_NODROP: u32 = 1 << 1;
pub const FEAT_SUBMIT_STABLE: u32 = 1 << 2;
pub const FEAT_RW_CUR_POS: u32 = 1 << 3;
pub const FEAT_CUR_PERSONALITY: u32 = 1 << 4;
pub const FEAT_FAST_POLL: u32 = 1 << 5;
pub const FEAT_POLL_32BITS: u32 = 1 << 6;
pub const FEAT_SQPOLL_NONFIXED: u32 = 1 << 7;
pub const FEAT_EXT_ARG: u32 = 1 << 8;
pub const FEAT_NATIVE_WORKERS: u32 = 1 << 9;
pub const FEAT_RSRC_TAGS: u32 = 1 << 10;
pub const FEAT_CQE_SKIP: u32 = 1 << 11;
pub const FEAT_LINKED_FILE: u32 = 1 << 12;
pub const FEAT_REG_REG_RING: u32 = 1 << 13;
/// Feature word of a 6.18 kernel.
pub const FEATURES_6_18: u32 = 0x3ffff;

// enter flags
pub const ENTER_GETEVENTS: u32 = 1 << 0;
pub const ENTER_SQ_WAKEUP: u32 = 1 << 1;
pub const ENTER_SQ_WAIT: u32 = 1 << 2;
pub const ENTER_EXT_ARG: u32 = 1 << 3;
pub const ENTER_REGISTERED_RING: u32 = 1 << 4;

// sq ring flags
pub const SQ_NEED_WAKEUP: u32 = 1 << 0;
pub const SQ_CQ_OVERFLOW: u32 = 1 << 1;
pub const SQ_TASKRUN: u32 = 1 << 2;

// cqe flags
pub const CQE_F_BUFFER: u32 = 1 << 0;
pub const CQE_F_MORE: u32 = 1 << 1;
pub const CQE_F_SOCK_NONEMPTY: u32 = 1 << 2;
pub const CQE_F_NOTIF: u32 = 1 << 3;
pub const CQE_F_BUF_MORE: u32 = 1 << 4;
pub const CQE_F_SKIP: u32 = 1 << 5;
pub const CQE_BUFFER_SHIFT: u32 = 16;

// mmap offsets
pub const OFF_SQ_RING: u64 = 0;
pub const OFF_CQ_RING: u64 = 0x8000000;
pub const OFF_SQES: u64 = 0x10000000;

// opcodes
pub const OP_NOP: u8 = 0;
pub const OP_READV: u8 = 1;
pub const OP_WRITEV: u8 = 2;
pub const OP_FSYNC: u8 = 3;
pub const OP_POLL_ADD: u8 = 6;
pub const OP_POLL_REMOVE: u8 = 7;
pub const OP_SENDMSG: u8 = 9;
pub const OP_RECVMSG: u8 = 10;
pub const OP_ACCEPT: u8 = 13;
pub const OP_ASYNC_CANCEL: u8 = 14;
pub const OP_CONNECT: u8 = 16;
pub const OP_FALLOCATE: u8 = 17;
pub const OP_OPENAT: u8 = 18;
pub const OP_CLOSE: u8 = 19;
pub const OP_FILES_UPDATE: u8 = 20;
pub const OP_STATX: u8 = 21;
pub const OP_READ: u8 = 22;
pub const OP_WRITE: u8 = 23;
pub const OP_FADVISE: u8 = 24;
pub const OP_MADVISE: u8 = 25;
pub const OP_SEND: u8 = 26;
pub const OP_RECV: u8 = 27;
pub const OP_SPLICE: u8 = 30;
pub const OP_SHUTDOWN: u8 = 34;
pub const OP_RENAMEAT: u8 = 35;
pub const OP_UNLINKAT: u8 = 36;
pub const OP_MKDIRAT: u8 = 37;
pub const OP_MSG_RING: u8 = 40;
pub const OP_SOCKET: u8 = 45;
pub const OP_URING_CMD: u8 = 46;
pub const OP_SEND_ZC: u8 = 47;
pub const OP_SENDMSG_ZC: u8 = 48;
pub const OP_READ_MULTISHOT: u8 = 49;
pub const OP_WAITID: u8 = 50;
pub const OP_FIXED_FD_INSTALL: u8 = 54;
pub const OP_FTRUNCATE: u8 = 55;
pub const OP_BIND: u8 = 56;
pub const OP_LISTEN: u8 = 57;
pub const OP_PIPE: u8 = 62;

pub fn opcode_name(op: u8) -> &'static str {
    match op {
        OP_NOP => "NOP",
        OP_READV => "READV",
        OP_WRITEV => "WRITEV",
        OP_FSYNC => "FSYNC",
        OP_POLL_ADD => "POLL_ADD",
        OP_POLL_REMOVE => "POLL_REMOVE",
        OP_SENDMSG => "SENDMSG",
        OP_RECVMSG => "RECVMSG",
        OP_ACCEPT => "ACCEPT",
        OP_ASYNC_CANCEL => "ASYNC_CANCEL",
        OP_CONNECT => "CONNECT",
        OP_FALLOCATE => "FALLOCATE",
        OP_OPENAT => "OPENAT",
        OP_CLOSE => "CLOSE",
        OP_FILES_UPDATE => "FILES_UPDATE",
        OP_STATX => "STATX",
        OP_READ => "READ",
        OP_WRITE => "WRITE",
        OP_FADVISE => "FADVISE",
        OP_MADVISE => "MADVISE",
        OP_SEND => "SEND",
        OP_RECV => "RECV",
        OP_SPLICE => "SPLICE",
        OP_SHUTDOWN => "SHUTDOWN",
        OP_RENAMEAT => "RENAMEAT",
        OP_UNLINKAT => "UNLINKAT",
        OP_MKDIRAT => "MKDIRAT",
        OP_MSG_RING => "MSG_RING",
        OP_SOCKET => "SOCKET",
        OP_URING_CMD => "URING_CMD",
        OP_SEND_ZC => "SEND_ZC",
        OP_SENDMSG_ZC => "SENDMSG_ZC",
        OP_READ_MULTISHOT => "READ_MULTISHOT",
        OP_WAITID => "WAITID",
        OP_FIXED_FD_INSTALL => "FIXED_FD_INSTALL",
        OP_FTRUNCATE => "FTRUNCATE",
        OP_BIND => "BIND",
        OP_LISTEN => "LISTEN",
        OP_PIPE => "PIPE",
        _ => "UNKNOWN",
    }
}

// register opcodes
pub const REGISTER_FILES_UPDATE: u32 = 6;
pub const REGISTER_ENABLE_RINGS: u32 = 12;
pub const REGISTER_FILES2: u32 = 13;
pub const REGISTER_PBUF_RING: u32 = 22;
pub const UNREGISTER_PBUF_RING: u32 = 23;
pub const REGISTER_SYNC_CANCEL: u32 = 24;
pub const REGISTER_SEND_MSG_RING: u32 = 31;

pub const RSRC_REGISTER_SPARSE: u32 = 1;
pub const FILE_INDEX_ALLOC: u32 = u32::MAX;

pub const ASYNC_CANCEL_ALL: u32 = 1 << 0;
pub const ASYNC_CANCEL_FD: u32 = 1 << 1;
pub const ASYNC_CANCEL_ANY: u32 = 1 << 2;

pub const RECV_MULTISHOT: u16 = 1 << 1;
pub const ACCEPT_MULTISHOT: u16 = 1 << 0;
pub const POLL_ADD_MULTI: u32 = 1 << 0;
pub const FSYNC_DATASYNC: u32 = 1 << 0;
pub const MSG_DATA: u64 = 0;

pub const SOCKET_URING_OP_GETSOCKOPT: u32 = 2;
pub const SOCKET_URING_OP_SETSOCKOPT: u32 = 3;
pub const SOCKET_URING_OP_GETSOCKNAME: u32 = 5;
