//! E2: tracking global allocator.
//!
//! Knows every live heap block (address, size, serial number, scope tag), the
//! set of regions the simulated kernel currently *holds* (memory an in-flight
//! request designates), and reports
//!  * `FreedWhileHeld`  a block overlapping a held region is deallocated,
//!  * `ForeignFree`     dealloc of an address that is not a live block
//!    (double free or invalid free),
//! without ever passing such a free to the system allocator (the block is
//! quarantined), so that a real defect in the tested code doesn't corrupt the
//! harness.

use std::alloc::{GlobalAlloc, Layout, System};
use std::cell::Cell;
use std::collections::BTreeMap;
use std::sync::Mutex;
use std::sync::atomic::{AtomicBool, AtomicU64, Ordering};

pub struct Tracking;

pub const TAG_HARNESS: u8 = 0;
pub const TAG_A10: u8 = 1;
pub const TAG_RESOURCE: u8 = 2;

#[derive(Copy, Clone, Debug)]
pub struct Block {
    pub addr: usize,
    pub size: usize,
    pub serial: u64,
    pub tag: u8,
}

#[derive(Clone, Debug)]
pub struct Hold {
    pub id: u64,
    pub addr: usize,
    pub len: usize,
    pub what: &'static str,
    /// Serial of the block the region was in when the hold was taken.
    pub serial: u64,
}

#[derive(Clone, Debug)]
pub enum Event {
    FreedWhileHeld { hold: Hold, block: Block },
    ForeignFree { addr: usize, size: usize },
}

struct State {
    blocks: BTreeMap<usize, Block>,
    holds: Vec<Hold>,
    events: Vec<Event>,
    /// Extra ranges that count as immortal (executable image, phantom buffers).
    immortal: Vec<(usize, usize)>,
    /// Blocks the code under test has freed in the running case: their
    /// memory is given back to the system allocator only when the next case
    /// begins (`flush_delayed`), so that a use after free by the code under
    /// test reads stale but valid memory (a deterministic panic, double free
    /// or wrong result that the oracles report) instead of corrupting the
    /// heap of the worker process (a crash or hang some time later).
    delayed: Vec<(usize, usize, usize)>,
}

static STATE: Mutex<Option<State>> = Mutex::new(None);
static SERIAL: AtomicU64 = AtomicU64::new(1);
static ENABLED: AtomicBool = AtomicBool::new(true);
static ALLOCS: AtomicU64 = AtomicU64::new(0);
static FREES: AtomicU64 = AtomicU64::new(0);

const PENDING_MAX: usize = 256;

/// Allocator calls made while this thread is inside the tracker (its own
/// bookkeeping allocations, or data built by the query functions that outlives
/// the query) are logged here and applied to the block table when the
/// outermost tracker section ends. They are tagged HARNESS.
struct Pending {
    /// (is_alloc, addr, size) in call order.
    ops: [(bool, usize, usize); PENDING_MAX],
    n: usize,
}

thread_local! {
    static IN_TRACKER: Cell<bool> = const { Cell::new(false) };
    static SCOPE: Cell<u8> = const { Cell::new(TAG_HARNESS) };
    static PENDING: std::cell::UnsafeCell<Pending> = const { std::cell::UnsafeCell::new(Pending { ops: [(false, 0, 0); PENDING_MAX], n: 0 }) };
}

fn pend(is_alloc: bool, addr: usize, size: usize) {
    let _ = PENDING.try_with(|p| {
        // SAFETY: thread local, never borrowed across calls.
        let p = unsafe { &mut *p.get() };
        if p.n < PENDING_MAX {
            p.ops[p.n] = (is_alloc, addr, size);
            p.n += 1;
        }
    });
}

fn enter() -> bool {
    IN_TRACKER
        .try_with(|f| {
            if f.get() {
                false
            } else {
                f.set(true);
                true
            }
        })
        .unwrap_or(false)
}

fn leave() {
    // Apply what was logged while inside (may log more: loop).
    loop {
        let batch = PENDING
            .try_with(|p| {
                let p = unsafe { &mut *p.get() };
                let n = p.n;
                let mut ops = [(false, 0usize, 0usize); PENDING_MAX];
                ops[..n].copy_from_slice(&p.ops[..n]);
                p.n = 0;
                (ops, n)
            })
            .unwrap_or(([(false, 0, 0); PENDING_MAX], 0));
        let (ops, n) = batch;
        if n == 0 {
            break;
        }
        // Net out alloc/free pairs inside the batch: applying them would
        // only perturb the block table (whose own node allocations show up
        // here), which can ping-pong forever.
        let mut dead = [false; PENDING_MAX];
        for i in 0..n {
            if !ops[i].0 {
                for j in (0..i).rev() {
                    if !dead[j] && ops[j].0 && ops[j].1 == ops[i].1 {
                        dead[j] = true;
                        dead[i] = true;
                        break;
                    }
                }
            }
        }
        if (0..n).all(|i| dead[i]) {
            continue;
        }
        with_state(|s| {
            for (i, &(is_alloc, addr, size)) in ops[..n].iter().enumerate() {
                if dead[i] {
                    continue;
                }
                if is_alloc {
                    let serial = SERIAL.fetch_add(1, Ordering::Relaxed);
                    s.blocks.insert(addr, Block { addr, size, serial, tag: TAG_HARNESS });
                } else {
                    s.blocks.remove(&addr);
                }
            }
        });
    }
    let _ = IN_TRACKER.try_with(|f| f.set(false));
}

fn with_state<R>(f: impl FnOnce(&mut State) -> R) -> R {
    let mut guard = match STATE.lock() {
        Ok(g) => g,
        Err(e) => e.into_inner(),
    };
    let state = guard.get_or_insert_with(|| State {
        blocks: BTreeMap::new(),
        holds: Vec::new(),
        events: Vec::new(),
        immortal: Vec::new(),
        delayed: Vec::new(),
    });
    f(state)
}

unsafe impl GlobalAlloc for Tracking {
    unsafe fn alloc(&self, layout: Layout) -> *mut u8 {
        let ptr = unsafe { System.alloc(layout) };
        if !ptr.is_null() && ENABLED.load(Ordering::Relaxed) && enter() {
            let tag = SCOPE.try_with(Cell::get).unwrap_or(TAG_HARNESS);
            let serial = SERIAL.fetch_add(1, Ordering::Relaxed);
            ALLOCS.fetch_add(1, Ordering::Relaxed);
            with_state(|s| {
                s.blocks.insert(
                    ptr.addr(),
                    Block {
                        addr: ptr.addr(),
                        size: layout.size(),
                        serial,
                        tag,
                    },
                );
            });
            leave();
        } else if !ptr.is_null() && ENABLED.load(Ordering::Relaxed) {
            pend(true, ptr.addr(), layout.size());
        }
        ptr
    }

    unsafe fn alloc_zeroed(&self, layout: Layout) -> *mut u8 {
        let ptr = unsafe { self.alloc(layout) };
        if !ptr.is_null() {
            unsafe { ptr.write_bytes(0, layout.size()) };
        }
        ptr
    }

    unsafe fn dealloc(&self, ptr: *mut u8, layout: Layout) {
        if ENABLED.load(Ordering::Relaxed) && enter() {
            FREES.fetch_add(1, Ordering::Relaxed);
            let mut zero = false;
            let really_free = with_state(|s| {
                let addr = ptr.addr();
                match s.blocks.remove(&addr) {
                    Some(block) => {
                        let end = addr + block.size.max(1);
                        let mut ok = true;
                        for hold in &s.holds {
                            if hold.addr < end && addr < hold.addr + hold.len.max(1) {
                                s.events.push(Event::FreedWhileHeld {
                                    hold: hold.clone(),
                                    block,
                                });
                                ok = false;
                            }
                        }
                        if ok && block.tag == TAG_A10 && layout.size() <= DELAY_MAX && DELAY_A10_FREES.load(Ordering::Relaxed) && s.delayed.len() < s.delayed.capacity() {
                            // Dead for the tracker, but the memory stays
                            // mapped until the next case begins.
                            s.delayed.push((addr, layout.size(), layout.align()));
                            zero = true;
                            ok = false;
                        }
                        ok
                    }
                    None => {
                        // Either allocated before tracking was enabled, or a
                        // double/invalid free. Blocks allocated before
                        // tracking are recorded by `enable`, so this is a
                        // foreign free.
                        s.events.push(Event::ForeignFree {
                            addr,
                            size: layout.size(),
                        });
                        false
                    }
                }
            });
            leave();
            if zero {
                // A delayed block reads as zeroes from now on: an unlocked
                // mutex, null pointers, no waker, the first variant of an
                // enum. A use after free then panics or faults at once and
                // reproducibly instead of waiting on a mutex that happened
                // to be locked when the block died.
                unsafe { ptr.write_bytes(0, layout.size()) };
            }
            if !really_free {
                return; // Quarantined.
            }
        } else if ENABLED.load(Ordering::Relaxed) {
            pend(false, ptr.addr(), layout.size());
        }
        unsafe { System.dealloc(ptr, layout) }
    }
    // NOTE: `realloc` uses the default implementation (alloc + copy +
    // dealloc), so a moved block is seen as a free of the old address.
}

/// Frees of blocks allocated by the code under test are delayed until the
/// next case begins (simulator-based checks; see `State::delayed`).
pub static DELAY_A10_FREES: std::sync::atomic::AtomicBool = std::sync::atomic::AtomicBool::new(false);
const DELAY_MAX: usize = 1 << 16;

/// Turn the delay on (once per process, before the first case).
pub fn enable_delayed_frees() {
    untracked(|| with_state(|s| s.delayed.reserve_exact(DELAY_SLOTS)));
    DELAY_A10_FREES.store(true, Ordering::SeqCst);
}
const DELAY_SLOTS: usize = 1 << 17;

/// Give the memory of the blocks freed during the previous case back.
pub fn flush_delayed() {
    // (The list keeps its capacity: pushing inside the allocator must never
    // allocate; when it is full, blocks are freed at once as before.)
    let list: Vec<(usize, usize, usize)> = untracked(|| {
        with_state(|s| {
            let copy = s.delayed.clone();
            s.delayed.clear();
            copy
        })
    });
    for (addr, size, align) in list {
        if let Ok(layout) = Layout::from_size_align(size, align) {
            unsafe { System.dealloc(addr as *mut u8, layout) };
        }
    }
}

/// Start tracking. Blocks allocated before this call are unknown to the
/// tracker; freeing one of them later would be reported as foreign, so
/// tracking is enabled once at process start-up (first thing in `main`).
pub fn enable() {
    ENABLED.store(true, Ordering::SeqCst);
}

pub fn is_enabled() -> bool {
    ENABLED.load(Ordering::Relaxed)
}

/// Set the scope tag for allocations made by this thread, returns the old one.
pub fn set_scope(tag: u8) -> u8 {
    SCOPE.try_with(|s| s.replace(tag)).unwrap_or(TAG_HARNESS)
}

pub struct ScopeGuard(u8);

/// Tag allocations made by this thread with `tag` until the guard is dropped.
pub fn scope(tag: u8) -> ScopeGuard {
    ScopeGuard(set_scope(tag))
}

impl Drop for ScopeGuard {
    fn drop(&mut self) {
        set_scope(self.0);
    }
}

/// Run `f` without tracking re-entrancy problems (allocations made inside are
/// untracked).
fn untracked<R>(f: impl FnOnce() -> R) -> R {
    let entered = enter();
    let r = f();
    if entered {
        leave();
    }
    r
}

/// Current serial, blocks allocated from now on have a serial >= this.
pub fn mark() -> u64 {
    SERIAL.load(Ordering::Relaxed)
}

pub fn counters() -> (u64, u64) {
    (ALLOCS.load(Ordering::Relaxed), FREES.load(Ordering::Relaxed))
}

/// Find the live block containing `addr`.
pub fn lookup(addr: usize) -> Option<Block> {
    untracked(|| {
        with_state(|s| {
            s.blocks
                .range(..=addr)
                .next_back()
                .map(|(_, b)| *b)
                .filter(|b| addr < b.addr + b.size.max(1))
        })
    })
}

#[derive(Copy, Clone, Debug, PartialEq, Eq)]
pub enum Residence {
    /// In a live heap block with this serial.
    Heap(u64),
    /// Static image or registered immortal range.
    Immortal,
    /// Neither: stack, freed or unmapped memory.
    Unknown,
}

/// Where does `[addr, addr+len)` live?
pub fn residence(addr: usize, len: usize) -> Residence {
    untracked(|| {
        with_state(|s| {
            let block = s
                .blocks
                .range(..=addr)
                .next_back()
                .map(|(_, b)| *b)
                .filter(|b| addr + len <= b.addr + b.size && addr >= b.addr);
            if let Some(b) = block {
                return Residence::Heap(b.serial);
            }
            for (start, end) in &s.immortal {
                if addr >= *start && addr + len <= *end {
                    return Residence::Immortal;
                }
            }
            Residence::Unknown
        })
    })
}

/// The simulated kernel takes hold of a region on behalf of request `id`.
pub fn hold(id: u64, addr: usize, len: usize, what: &'static str) -> Residence {
    let res = residence(addr, len);
    if let Residence::Heap(serial) = res {
        untracked(|| {
            with_state(|s| {
                s.holds.push(Hold {
                    id,
                    addr,
                    len,
                    what,
                    serial,
                })
            })
        });
    }
    res
}

/// Release all holds of request `id`.
pub fn release(id: u64) {
    untracked(|| with_state(|s| s.holds.retain(|h| h.id != id)));
}

pub fn release_all() {
    untracked(|| with_state(|s| s.holds.clear()));
}

pub fn holds_of(id: u64) -> Vec<Hold> {
    untracked(|| with_state(|s| s.holds.iter().filter(|h| h.id == id).cloned().collect()))
}

pub fn take_events() -> Vec<Event> {
    untracked(|| with_state(|s| std::mem::take(&mut s.events)))
}

/// Descriptions of the recorded memory events, without consuming them (for
/// the hang monitor).
pub fn describe_events() -> Vec<String> {
    untracked(|| {
        with_state(|s| {
            s.events
                .iter()
                .map(|e| match e {
                    Event::FreedWhileHeld { hold, block } => format!("block {:#x}+{} freed while the kernel holds {} {:#x}+{}", block.addr, block.size, hold.what, hold.addr, hold.len),
                    Event::ForeignFree { addr, size } => format!("free of {addr:#x} (size {size}) which is not a live block (double free)"),
                })
                .collect()
        })
    })
}

pub fn has_events() -> bool {
    untracked(|| with_state(|s| !s.events.is_empty()))
}

/// Live blocks with serial >= `mark` and a tag other than HARNESS.
pub fn live_since(mark: u64) -> Vec<Block> {
    untracked(|| {
        with_state(|s| {
            s.blocks
                .values()
                .filter(|b| b.serial >= mark && b.tag != TAG_HARNESS)
                .copied()
                .collect()
        })
    })
}

/// Forget blocks with serial >= `mark` that are not HARNESS (after a leak was
/// reported, so the next case starts clean). They are really leaked.
pub fn forget_since(mark: u64) {
    untracked(|| {
        with_state(|s| {
            s.blocks
                .retain(|_, b| !(b.serial >= mark && b.tag != TAG_HARNESS))
        })
    })
}

pub fn add_immortal(start: usize, end: usize) {
    untracked(|| with_state(|s| s.immortal.push((start, end))));
}

pub fn remove_immortal(start: usize) {
    untracked(|| with_state(|s| s.immortal.retain(|(s0, _)| *s0 != start)));
}

/// Register the mappings of the executable image (and libc) as immortal:
/// static data such as string literals can be handed to the kernel.
pub fn register_static_image() {
    let maps = untracked(|| std::fs::read_to_string("/proc/self/maps").unwrap_or_default());
    let exe = untracked(|| {
        std::fs::read_link("/proc/self/exe")
            .map(|p| p.to_string_lossy().into_owned())
            .unwrap_or_default()
    });
    untracked(|| {
        for line in maps.lines() {
            let mut parts = line.split_whitespace();
            let range = parts.next().unwrap_or("");
            let path = parts.nth(4).unwrap_or("");
            if path.is_empty() || !(path == exe || path.contains("libc.so")) {
                continue;
            }
            if let Some((a, b)) = range.split_once('-') {
                if let (Ok(a), Ok(b)) = (usize::from_str_radix(a, 16), usize::from_str_radix(b, 16))
                {
                    add_immortal(a, b);
                }
            }
        }
    });
}
